"""C05 - isotherm identity is determined by content, and only by content.

proof phase   : Props/C05.v over Ident/Prehash.v (what hashgen.py feeds to md5) on the isotherm content model of Codec/JsonDoc.v
correspondence: PAIRS of real isotherms; the model (executed in Coq) predicts whether the two md5 inputs are equal (same to_dict as
                typed maps, same multiset of row tokens = label + dtype-tagged 8-decimal cells in column order / same model
                dictionary); the implementation's `==` must agree on every pair
oracle/search : equal content by another route (lists / arrays / frame, int / float literals, row labels, another process with
                another PYTHONHASHSEED, parse of a JSON export, after read-only calls) => equal id; a minimal change of content
                (each metadata value or type, label, material, property, adsorbate, temperature, cell above the threshold, branch
                mark, model parameter) => different id; a change below the rounding threshold => equal id; live-object histories:
                identifier read, content edited through a held reference (data_raw cell / branch mark / column, properties[k],
                material.properties[k], model.params[k], model.rmse), identifier read again => changed and equal to a fresh object's;
                routes THROUGH an existing object, half of them in the non-default temperature unit: parse of its JSON export,
                constructor(**to_dict()), from_isotherm(template), convert_temperature / temperature setter vs a fresh object with
                the content the edited object reports => equal id; every pair also ties the model's to_dict to the dictionary
                the implementation's to_dict() returns (compared in Coq)
"""
import copy
import json
import os
import random
import re
import subprocess
import sys

import numpy as np
import pandas as pd

import vlib
from props import codec_common as cc
from props import codec_hist as ch

MANIFEST = dict(
    text="Machine-checked (Coq 8.16, axiom-free) theorems about the model of what hashgen.py feeds to md5: the identifier does not depend on "
         "the interpolator caches (all isotherms), it is a function of to_dict(), the model dictionary and the MULTISET of row tokens (label, "
         "dtype-tagged 8-decimal cells in column order) and of nothing else, and to_dict() is injective on unit labels, material, material "
         "properties, adsorbate, temperature and arbitrary metadata lists; three REFUTED clauses with witnesses (int vs float literals, row "
         "labels, branch column dtype give other tokens). PARTIAL: 'different prehash => different identifier' is the collision-freeness of "
         "md5 / hash_pandas_object / json.dumps, assumed. Every run compares, inside Coq, the model's prediction 'same md5 input' with the "
         "implementation's == on generated pairs (same content by other routes, minimal content changes, sub-threshold changes), and checks "
         "identifiers across a process boundary with another PYTHONHASHSEED, across read-only calls, and along live-object histories (identifier "
         "read, one content item changed through an object the isotherm holds - table cell, branch mark, metadata / material property dict, model "
         "parameter - identifier read again: it must change and equal the identifier of a fresh isotherm with the edited content). Round 3: the "
         "model's to_dict is PROVED to be the interpretation of BaseIsotherm.to_dict translated statement by statement from the current source "
         "(the temperature is exported as stored, in the isotherm's own unit; reading it through anything else breaks the proof), and compared "
         "per run with the dictionary to_dict() returns; every read-only query of the three classes (generated table of the names each method "
         "binds on the object) binds only names to_dict discards; pairs (isotherm, isotherm obtained from it by export+parse / to_dict+constructor "
         "/ from_isotherm / in-place temperature conversion or assignment vs fresh object), half of them stored in degC, must have equal identifiers. Round 4: "
         "a generated table of EVERY method of Material and Adsorbate (names written on the object, methods of the class reached through self) "
         "with the theorem that no getter writes - directly or through a helper - the name, aliases or property dictionary (what to_dict reads); "
         "per run, isotherms whose material properties range over every JSON type (int literals, numeric text, bool, None, nested) are read "
         "through accessors converting to other material / loading bases and through every getter discovered on the two classes: identifier, "
         "to_dict() (typed) and == with an untouched twin must not move.",
    note="Trusted: Coq kernel; oracles md5, hash_pandas_object (one hash per row from label and dtype-tagged cells), str(int), json.dumps(sort_keys); "
         "numpy round(8) modelled as exact half-even rounding (generator stays away from ties); tools/py2v_tables.py; the abstraction function "
         "of the harness.",
    technique="Coq proof on a hand model tied by generated tables and a per-run pairwise correspondence executed in Coq")

SCR = os.path.join(vlib.VERIF, '.scratch')


def coq_route(o):
    if o['cls'] != 'point':
        return '(mkRoute [] [] [])'
    return '(mkRoute [%s] [%s] [%s])' % ('; '.join(cc.cval(x) for x in o['index']),
                                        '; '.join('(%s, %s)' % (cc.cstr(c), cc.cstr(d)) for c, d in o['dtypes'].items()),
                                        '; '.join(cc.cstr(c) for c in o['columns']))


def read_only_calls(iso, rnd):
    import warnings
    with warnings.catch_warnings():
        warnings.simplefilter('ignore')      # numpy RuntimeWarnings of the queried formulas are not our business
        return _read_only_calls(iso, rnd)


def _read_only_calls(iso, rnd):
    import pygaps
    point = isinstance(iso, pygaps.PointIsotherm)
    for _ in range(12):
        try:
            k = rnd.randint(0, 7) if point else rnd.choice([0, 1, 5, 6])      # no numerical inversion on model isotherms (slow)
            if k == 0: iso.pressure()
            elif k == 1: iso.loading(branch='ads')
            elif k == 2: iso.loading_at(float(np.mean(iso.pressure())))
            elif k == 3: iso.pressure_at(float(np.mean(iso.loading())))
            elif k == 4: iso.data()
            elif k == 5: str(iso); repr(iso)
            elif k == 6: iso.to_dict(); iso.has_branch('des')
            else: iso.spreading_pressure_at([float(np.mean(iso.pressure()))])
        except Exception:  # noqa
            pass
    # every public query discovered on the class (drawn optional arguments); numerical inversion on models excluded (slow)
    return cc.run_queries(iso, rnd, n=6, slow_ok=False)


def mutate(spec, rnd):
    """-> (spec', what, expect_same) : a minimal change of CONTENT (expect_same False) or a sub-threshold change (True)"""
    s = copy.deepcopy(spec)
    choices = ['unit', 'material', 'adsorbate', 'temperature', 'meta_add']
    if s['meta']:
        choices += ['meta_value', 'meta_type', 'meta_del'] * 2
    if s['mprops']:
        choices += ['mprop']
    if s['cls'] == 'point':
        choices += ['cell_above', 'cell_above', 'cell_below', 'cell_below', 'branch', 'branch', 'row_del']
    if s['cls'] == 'model':
        choices += ['param', 'param', 'rmse', 'range', 'mbranch']
    what = rnd.choice(choices)
    if what == 'unit':
        u = rnd.choice(['pressure', 'loading', 'material', 'temperature'])
        if u == 'temperature':
            s['units']['temperature_unit'] = 'K' if s['units']['temperature_unit'] != 'K' else '°C'
        else:
            reps = {'pressure': cc.PREPS, 'loading': cc.LREPS, 'material': cc.MREPS}[u]
            keys = {'pressure': ('pressure_mode', 'pressure_unit'), 'loading': ('loading_basis', 'loading_unit'), 'material': ('material_basis', 'material_unit')}[u]
            cur = (s['units'][keys[0]], s['units'][keys[1]])
            new = rnd.choice([r for r in reps if r != cur])
            s['units'][keys[0]], s['units'][keys[1]] = new
    elif what == 'material':
        s['material'] = s['material'] + 'x'
    elif what == 'adsorbate':
        s['adsorbate'] = 'water' if s['adsorbate'] != 'water' else 'CO2'
    elif what == 'temperature':
        s['temperature'] = s['temperature'] + rnd.choice([1, 1e-6, -0.5])
    elif what == 'meta_add':
        s['meta']['extra_key_%d' % rnd.randint(0, 9)] = cc.gen_value(rnd, 'json')
    elif what == 'meta_del':
        del s['meta'][rnd.choice(sorted(s['meta']))]
    elif what == 'meta_value':
        k = rnd.choice(sorted(s['meta']))
        v = s['meta'][k]
        s['meta'][k] = (v + 1 if isinstance(v, (int, float)) and not isinstance(v, bool) else (not v) if isinstance(v, bool)
                        else v + '_' if isinstance(v, str) else 'changed')
        if isinstance(v, float) and s['meta'][k] == v:    # 1e308 + 1
            s['meta'][k] = v / 2
    elif what == 'meta_type':
        k = rnd.choice(sorted(s['meta']))
        v = s['meta'][k]
        if isinstance(v, bool): s['meta'][k] = int(v)
        elif isinstance(v, int) and abs(v) < 2 ** 53: s['meta'][k] = float(v)
        elif isinstance(v, float) and v == int(v) and abs(v) < 1e15: s['meta'][k] = int(v)
        elif isinstance(v, str): s['meta'][k] = [v]
        elif v is None: s['meta'][k] = 'None'
        else: s['meta'][k] = str(v)
    elif what == 'mprop':
        k = rnd.choice(sorted(s['mprops']))
        v = s['mprops'][k]
        s['mprops'][k] = v * 2 + 1 if isinstance(v, (int, float)) and not isinstance(v, bool) else 'changed'
    elif what in ('cell_above', 'cell_below'):
        d = s['data']
        col = rnd.choice(['p', 'l'])
        n = rnd.randrange(len(d[col]))
        x = d[col][n]
        if isinstance(x, int):
            if what == 'cell_below':
                return mutate(spec, rnd)
            d[col][n] = x + 1
        else:
            # stay away from rounding ties: start from a value on the 1e-8 grid (+ 2e-9), move by 3e-8 or 2e-9
            base = round(x, 6)
            d[col][n] = base
            s0 = copy.deepcopy(s)
            d[col][n] = base + (3e-8 if what == 'cell_above' else 2e-9)
            if what == 'cell_below' and d['branch'] == 'guess':
                d['branch'] = 'ads'; s0['data']['branch'] = 'ads'
            if d['branch'] == 'guess':
                d['branch'] = 'ads'; s0['data']['branch'] = 'ads'
            return s0, s, what, what == 'cell_below'
    elif what == 'branch':
        d = s['data']
        n = len(d['p'])
        cur = d['branch']
        base = [0] * n
        d['branch'] = list(base)
        s0 = copy.deepcopy(s)
        d['branch'][rnd.randrange(n)] = 1
        return s0, s, what, False
    elif what == 'row_del':
        d = s['data']
        if len(d['p']) < 2:
            return mutate(spec, rnd)
        n = rnd.randrange(len(d['p']))
        for c in [d['p'], d['l']] + list(d['cols'].values()):
            del c[n]
        if not isinstance(d['branch'], str):
            del d['branch'][n]
        if d['branch'] == 'guess':
            d['branch'] = 'ads'
            s0 = copy.deepcopy(spec); s0['data']['branch'] = 'ads'
            return s0, s, what, False
    elif what == 'param':
        k = rnd.choice(sorted(s['model']['params']))
        s['model']['params'][k] = s['model']['params'][k] * (1 + rnd.choice([1e-9, 0.5]))
    elif what == 'rmse':
        s['model']['rmse'] = s['model']['rmse'] + 0.125
    elif what == 'range':
        s['model']['prange'] = (s['model']['prange'][0], s['model']['prange'][1] + 1)
    elif what == 'mbranch':
        s['model']['branch'] = 'des' if s['model']['branch'] == 'ads' else 'ads'
    return spec, s, what, False


def reroute(spec, rnd):
    """same content, another construction route -> (spec', route name) or None"""
    if spec['cls'] != 'point':
        return None
    s = copy.deepcopy(spec)
    d = s['data']
    kind = rnd.choice(['index', 'index_str', 'literals', 'lists', 'numpy', 'literals'])
    if kind in ('index', 'index_str'):
        n = len(d['p'])
        d['index'] = list(range(5, 5 + n)) if kind == 'index' else ['r%d' % k for k in range(n)]
        d['via'] = 'frame'
        return s, 'row-labels'
    if kind == 'literals':
        # integral values written as ints in one and floats in the other
        n = len(d['p'])
        base = copy.deepcopy(spec)
        vals = sorted(rnd.sample(range(1, 200), n))
        base['data'].update(p=[float(v) for v in vals], l=[float(v * 2) for v in vals], cols={}, via='frame', branch='ads')
        s['data'].update(p=list(vals), l=[v * 2 for v in vals], cols={}, via='frame', branch='ads')
        return base, s, 'int-vs-float-literals'
    if d['cols'] or (d['pk'], d['lk']) != ('pressure', 'loading'):
        return None
    if kind == 'lists':
        d['via'] = 'lists' if d['via'] == 'frame' else 'frame'
        return s, 'lists-vs-frame'
    d['via'] = 'frame'
    d['p'], d['l'] = np.array(d['p']), np.array(d['l'])
    return s, 'numpy-arrays'


# ------------------------------------------------------------------ the same content by a route THROUGH an existing object
OBJECT_ROUTES = ['json-parse', 'to_dict-constructor', 'from_isotherm', 'convert_temperature-vs-fresh', 'set_temperature-vs-fresh']


def apply_route(spec, route):
    """-> (A, B): two isotherms that must have the same identifier.
    json-parse / to_dict-constructor / from_isotherm: A built from the spec, B obtained from A's export / dictionary / A as template;
    convert_temperature-vs-fresh: A built from the spec and converted in place to the other temperature unit, B built directly with
    the temperature value and unit A reports afterwards (edited object vs fresh object of the same content);
    set_temperature-vs-fresh: the same with the temperature assigned through the public setter"""
    import pygaps
    from pygaps.core.baseisotherm import BaseIsotherm
    a = cc.build(spec)
    if route == 'json-parse':
        from pygaps.parsing.json import isotherm_from_json
        kw = dict(pressure_key=a.pressure_key, loading_key=a.loading_key) if spec['cls'] == 'point' else {}
        return a, isotherm_from_json(a.to_json(), **kw)
    if route == 'to_dict-constructor':
        if spec['cls'] == 'base':
            return a, BaseIsotherm(**a.to_dict())
        if spec['cls'] == 'model':
            return a, pygaps.ModelIsotherm(model=a.model, **a.to_dict())
        return a, pygaps.PointIsotherm(isotherm_data=a.data_raw.copy(), pressure_key=a.pressure_key, loading_key=a.loading_key, **a.to_dict())
    if route == 'from_isotherm':
        if spec['cls'] != 'point':
            return None
        return a, pygaps.PointIsotherm.from_isotherm(a, isotherm_data=a.data_raw.copy(), pressure_key=a.pressure_key, loading_key=a.loading_key)
    if route == 'convert_temperature-vs-fresh':
        a.convert_temperature('K' if a.temperature_unit != 'K' else '°C')
        s2 = copy.deepcopy(spec)
        s2['units']['temperature_unit'] = a.temperature_unit
        s2['temperature'] = a._temperature
        return a, cc.build(s2)
    if route == 'set_temperature-vs-fresh':
        a.temperature = a._temperature + 12.5        # the public setter stores the number as given, in the isotherm's own unit
        s2 = copy.deepcopy(spec)
        s2['temperature'] = a._temperature
        return a, cc.build(s2)
    raise ValueError(route)


def classify_route(route, oa, ob, diff):
    """tag from the failing input pattern: which content item / which route item of the two objects differs"""
    if diff is not None:
        if diff[0] == 'branch' and oa['cls'] == 'point' and not any(b for _, b in oa['rows']):
            from props import c06
            if c06.guess_would_differ(oa):
                return 'C05:parse-of-export:all-adsorption-marks-reguessed'
        return 'C05:unclassified:object-route:%s:content:%s' % (route, diff[0])
    if oa['cls'] == 'point':
        if dclass(oa['dtypes'].get('branch')) != dclass(ob['dtypes'].get('branch')):
            return 'C05:id-depends-on-branch-column-dtype'
        pl = [c for c in oa['dtypes'] if dclass(oa['dtypes'][c]) != dclass(ob['dtypes'].get(c))]
        if pl:
            return 'C05:unclassified:object-route:%s:column-dtype:%s->%s' % (route, dclass(oa['dtypes'][pl[0]]), dclass(ob['dtypes'].get(pl[0])))
        if oa['index'] != ob['index']:
            return 'C05:id-depends-on-row-labels'
        if oa['columns'] != ob['columns'] and sorted(oa['columns']) == sorted(ob['columns']):
            return 'C05:id-depends-on-column-order'
    return 'C05:unclassified:object-route:%s:equal-content' % route


def gen_route_cases(tier, seed):
    rnd = random.Random(seed * 104729 + 3)
    n = 1500 if tier == 'thorough' else 150
    out = []
    for k in range(n):
        spec = cc.gen_spec(rnd, 'json', cls=rnd.choice(['base', 'point', 'point', 'model']))
        if spec['cls'] == 'point':
            spec['data']['via'] = 'frame'
        if k % 2 == 0:
            spec['units']['temperature_unit'] = '°C'      # half of the cases in the non-default temperature unit
        route = rnd.choice(OBJECT_ROUTES)
        if route == 'from_isotherm' and spec['cls'] != 'point':
            route = 'to_dict-constructor'
        out.append((spec, route))
    return out


def gen_pairs(tier, seed):
    rnd = random.Random(seed)
    n = 3000 if tier == 'thorough' else 260
    pairs = []   # (specA, specB, what, expect_same, kind)
    for k in range(n):
        spec = cc.gen_spec(rnd, 'json')
        if k % 3 == 0:
            r = reroute(spec, rnd)
            if r is None:
                continue
            if len(r) == 3:
                pairs.append((r[0], r[1], r[2], True, 'route'))
            else:
                pairs.append((spec, r[0], r[1], True, 'route'))
        else:
            m = mutate(spec, rnd)
            pairs.append((m[0], m[1], m[2], m[3], 'mutation'))
    return pairs


CHILD = r'''
import sys, json, logging, warnings
logging.disable(logging.CRITICAL); warnings.filterwarnings('ignore')
sys.path.insert(0, %r)
from props import codec_common as cc
specs = json.load(open(sys.argv[1]))
out = []
for s in specs:
    if 'model' in s:
        s['model']['prange'] = tuple(s['model']['prange']); s['model']['lrange'] = tuple(s['model']['lrange'])
    out.append(cc.build(s).iso_id)
print(json.dumps(out))
'''


def other_process_ids(specs):
    os.makedirs(SCR, exist_ok=True)
    path = os.path.join(SCR, 'c05_specs_%d.json' % os.getpid())
    json.dump(specs, open(path, 'w'))
    import pygaps
    src = os.path.dirname(os.path.dirname(os.path.abspath(pygaps.__file__)))      # the tree this run judges
    env = dict(os.environ, PYTHONHASHSEED='4242', PYTHONPATH=src + ':' + vlib.TOOLS)
    try:
        p = subprocess.run([sys.executable, '-c', CHILD % vlib.TOOLS, path], capture_output=True, text=True, env=env, timeout=300)
        if p.returncode != 0:
            return None, p.stderr[-500:]
        return json.loads(p.stdout.strip().split('\n')[-1]), None
    finally:
        os.remove(path)


def values_equal_untyped(o0, o1):
    """same content when 1 and 1.0 are NOT distinguished in data cells (the property names int/float literals as one content)"""
    if len(o0['rows']) != len(o1['rows']):
        return False
    for (c0, b0), (c1, b1) in zip(o0['rows'], o1['rows']):
        if b0 != b1 or set(c0) != set(c1) or any(c0[k] != c1[k] for k in c0):
            return False
    return True


def dclass(d):
    """how hash_pandas_object sees a column dtype: all int widths and bool alike, floats, objects/text"""
    d = str(d)
    return 'i' if d.startswith(('int', 'uint', 'bool')) else 'f' if d.startswith('float') else 'o'


def classify(kind, what, oa, ob):
    if kind == 'route' and oa['cls'] == 'point':
        if oa['index'] != ob['index'] and oa['dtypes'] == ob['dtypes']:
            return 'C05:id-depends-on-row-labels'
        pl = [c for c in oa['dtypes'] if c != 'branch' and oa['dtypes'][c] != ob['dtypes'].get(c)]
        if pl and {oa['dtypes'][pl[0]], ob['dtypes'][pl[0]]} == {'int64', 'float64'}:
            return 'C05:id-depends-on-int-vs-float-literals'
        if dclass(oa['dtypes'].get('branch')) != dclass(ob['dtypes'].get('branch')):
            return 'C05:id-depends-on-branch-column-dtype'
    return 'C05:unclassified:%s:%s' % (kind, what)


# ------------------------------------------------------------------ content edited through objects the isotherm HOLDS
def _same_kind_step(x):
    """another value of the same Python type, well above the 8-decimal threshold"""
    x = cc.py(x)
    if isinstance(x, bool):
        return not x
    if isinstance(x, int):
        return x + 1
    if isinstance(x, float):
        return x + 1.0 if x == x and abs(x) < 1e15 else 0.5
    if isinstance(x, str):
        return x + '_'
    return 'changed'


def held_edit(iso, spec, o, rnd):
    """Change ONE content item of the live isotherm through a reference the isotherm holds (its table, its metadata dict, its
    material's property dict, its model's parameter dict) - never by assigning an attribute of the isotherm itself.
    -> (what, spec of a fresh isotherm with the edited content) or None when the drawn edit does not apply"""
    s = copy.deepcopy(spec)
    choices = ['meta_add', 'mprop_add']
    if s['meta']:
        choices += ['meta_value', 'meta_value', 'meta_del']
    if s['mprops']:
        choices += ['mprop_value']
    if s['cls'] == 'point':
        choices += ['cell', 'cell', 'cell', 'branch', 'branch', 'column_scaled', 'extra_cell'] * 2
    if s['cls'] == 'model':
        choices += ['param', 'param', 'param', 'rmse', 'range'] * 2
    what = rnd.choice(choices)
    if what == 'meta_add':
        k = 'held_key_%d' % rnd.randint(0, 9)
        v = rnd.choice([3, 2.5, 'text', True, None, [1, 2]])
        if k in iso.properties:
            return None
        iso.properties[k] = copy.deepcopy(v)
        s['meta'][k] = v
    elif what == 'meta_value':
        k = rnd.choice(sorted(s['meta']))
        v = _same_kind_step(s['meta'][k])
        if isinstance(s['meta'][k], float) and v == s['meta'][k]:
            return None
        iso.properties[k] = copy.deepcopy(v)
        s['meta'][k] = v
    elif what == 'meta_del':
        k = rnd.choice(sorted(s['meta']))
        del iso.properties[k]
        del s['meta'][k]
    elif what == 'mprop_add':
        if 'held_prop' in iso.material.properties:
            return None
        iso.material.properties['held_prop'] = 'v1'
        s['mprops']['held_prop'] = 'v1'
    elif what == 'mprop_value':
        k = rnd.choice(sorted(s['mprops']))
        v = _same_kind_step(s['mprops'][k])
        iso.material.properties[k] = copy.deepcopy(v)
        s['mprops'][k] = v
    elif what in ('cell', 'branch', 'column_scaled', 'extra_cell'):
        d = s['data']
        df = iso.data_raw                                  # the held table
        n = rnd.randrange(len(df))
        # the fresh isotherm gets the marks of the live one explicitly (a changed pressure must not be re-guessed)
        marks = list(o['branch_raw'])
        if not all(isinstance(b, (bool, int)) for b in marks):
            return None
        d['branch'] = marks
        d['p'], d['l'] = list(d['p']), list(d['l'])
        if what == 'cell':
            col, key = rnd.choice([('p', d['pk']), ('l', d['lk'])])
            new = _same_kind_step(df[key].iloc[n])
            df.loc[df.index[n], key] = new
            d[col][n] = new
        elif what == 'extra_cell':
            names = [c for c, v in d['cols'].items() if v and isinstance(v[0], (int, float, str))]
            if not names:
                return None
            key = rnd.choice(sorted(names))
            old = df[key].iloc[n]
            new = _same_kind_step(old)
            if cc.py(old) != cc.py(old):                   # a missing cell gets a value
                new = 1.25
            df.loc[df.index[n], key] = new
            d['cols'][key] = list(d['cols'][key])
            d['cols'][key][n] = new
        elif what == 'branch':
            new = (not marks[n]) if isinstance(marks[n], bool) else 1 - int(marks[n])
            df.loc[df.index[n], 'branch'] = new
            d['branch'][n] = new
        else:
            key = d['pk']
            df[key] *= 2                                   # in-place rescaling of the held column
            d['p'] = [x * 2 for x in d['p']]
        d['via'] = 'frame'
    elif what == 'param':
        k = rnd.choice(sorted(s['model']['params']))
        v = s['model']['params'][k] * rnd.choice([1.5, 1 + 1e-6])
        iso.model.params[k] = v
        s['model']['params'][k] = v
    elif what == 'rmse':
        v = s['model']['rmse'] + 0.125
        iso.model.rmse = v                                 # attribute of the held model object, not of the isotherm
        s['model']['rmse'] = v
    elif what == 'range':
        v = (s['model']['prange'][0], s['model']['prange'][1] + 1)
        iso.model.pressure_range = v
        s['model']['prange'] = v
    return what, s


def held_reference_edits(rep, tier, seed):
    """read the identifier, change content through a held reference, read again: the identifier must change, and a fresh
    isotherm with the edited content must have the identifier of the edited object (the identifier depends on the content
    only, not on the history of the object)."""
    rnd = random.Random(seed + 23)
    n = 1500 if tier == 'thorough' else 150
    hist = {}
    seen = {}
    done = 0
    nontrivial = set()

    def fail(tag, what, replay):
        seen[tag] = seen.get(tag, 0) + 1
        if seen[tag] <= 3:
            rep.failure(tag, what, replay)

    for k in range(n):
        spec = cc.gen_spec(rnd, 'json')
        if spec['cls'] == 'point':
            spec['data']['via'] = 'frame'
        try:
            iso = cc.build(spec)
            ctrl = cc.build(spec)
        except Exception:  # noqa  generator produced something a constructor refuses
            continue
        o = cc.observe(iso)
        reads = rnd.choice(['iso_id', 'eq', 'in', 'repr+iso_id'])
        id0 = iso.iso_id
        if reads == 'eq':
            iso == ctrl  # noqa
        elif reads == 'in':
            iso in [ctrl]  # noqa
        elif reads == 'repr+iso_id':
            repr(iso)
        if spec['cls'] != 'base' and rnd.random() < 0.5:
            read_only_calls(iso, rnd)
        edit_seed = 'c05-held/%d/%d' % (seed, k)
        try:
            e = held_edit(iso, spec, o, random.Random(edit_seed))
            if e is None:
                continue
            what, s2 = e
            id1 = iso.iso_id
            fresh = cc.build(s2)
        except Exception:  # noqa  (pandas refuses the assignment: not an identifier case)
            hist['held/edit-refused'] = hist.get('held/edit-refused', 0) + 1
            continue
        done += 1
        hist['held/' + what] = hist.get('held/' + what, 0) + 1
        rp = {'specA': _js(spec), 'specB': _js(s2), 'kind': 'held-reference', 'what': what, 'reads': reads, 'edit_seed': edit_seed}
        if id1 == id0:
            fail('C05:unclassified:id-stale-after-edit-through-held-reference:%s' % what,
                 'identifier read (%s), %s changed through a reference the isotherm holds, identifier read again: unchanged %s' % (reads, what, id0), rp)
            continue
        if fresh.iso_id != id1 or not (fresh == iso):
            of = cc.observe(fresh)
            oe = cc.observe(iso)
            same_route = of.get('dtypes') == oe.get('dtypes') and of.get('columns') == oe.get('columns') and of.get('index') == oe.get('index')
            if same_route:
                fail('C05:unclassified:edited-object-id-differs-from-fresh-object:%s' % what,
                     'after %s through a held reference the identifier %s is not the identifier %s of a fresh isotherm with the same content' % (what, id1, fresh.iso_id), rp)
            else:
                hist['held/fresh-object-on-another-route(not judged)'] = hist.get('held/fresh-object-on-another-route(not judged)', 0) + 1
            continue
        nontrivial.add(('held', what, spec['cls'], reads))
    rep.cov['evaluations'] += done
    rep.cov['held_reference_edits'] = {'cases': done, 'failing_cases_per_tag': dict(sorted(seen.items()))}
    return hist, nontrivial

# ------------------------------------------------------------------ reads that TOUCH typed material / adsorbate properties
def typed_read_case(spec, read_seed):
    """-> (queries, snapshot before, snapshot after, twin equal before, twin equal after, twin in-list after)"""
    iso, twin = cc.build(spec), cc.build(spec)
    s0 = ch.snapshot(iso)
    eq0 = bool(iso == twin)
    qs = ch.touching_reads(iso, random.Random(read_seed))
    s1 = ch.snapshot(iso)
    return qs, s0, s1, eq0, bool(iso == twin), bool(iso in [twin])


def typed_value_reads(rep, tier, seed):
    """material property / metadata VALUES of every JSON-representable type (int literals, numeric text, bool, None, nested), then
    read-only queries that read them (accessors converting the returned value to another material / loading basis, every getter
    discovered on the Material and Adsorbate classes): identifier, to_dict() (typed) and == with an untouched twin must not move"""
    rnd = random.Random(seed * 31 + 5)
    n = 1200 if tier == 'thorough' else 140
    hist, seen, nontrivial = {}, {}, set()
    done = 0
    for k in range(n):
        spec = cc.gen_spec(rnd, 'json', cls=rnd.choice(['point', 'point', 'point', 'model', 'base']))
        spec['mprops'] = ch.typed_mprops(rnd)
        if spec['cls'] == 'point':
            spec['data']['via'] = 'frame'
        read_seed = 'c05-typed/%d/%d' % (seed, k)
        try:
            qs, s0, s1, eq0, eq1, in1 = typed_read_case(spec, read_seed)
        except Exception:  # noqa  generator produced something a constructor refuses
            hist['typed-reads/constructor-refused'] = hist.get('typed-reads/constructor-refused', 0) + 1
            continue
        done += 1
        for q in qs:
            q = re.split(r'[(]', q)[0] + (' -> raised' if ' -> ' in q else '')
            hist['typed-reads/' + q] = hist.get('typed-reads/' + q, 0) + 1
        d = ch.snapshot_diff(s0, s1)
        if d is None and eq0 and not (eq1 and in1):
            d = ('equality', '==', True, False)
        if d:
            tag = 'C05:unclassified:id-changed-by-reads-touching-%s' % d[0].replace(' ', '-')
            seen[tag] = seen.get(tag, 0) + 1
            if seen[tag] <= 3:
                rep.failure(tag, 'after the read-only queries %s the %s %r changed from %r to %r; identifier %s -> %s; == with an untouched twin: %s -> %s' % (
                    qs, d[0], d[1], d[2], d[3], s0['id'], s1['id'], eq0, eq1), {'specA': _js(spec), 'kind': 'typed-reads', 'read_seed': read_seed})
            continue
        nontrivial.add(('typed-reads', spec['cls'], tuple(sorted((a, type(b).__name__) for a, b in spec['mprops'].items())),
                        tuple(sorted(set(re.split(r'[(]', q)[0] for q in qs if ' -> ' not in q)))))
    rep.cov['evaluations'] += done
    rep.cov['typed_value_reads'] = {'cases': done, 'failing_cases_per_tag': dict(sorted(seen.items()))}
    return hist, nontrivial


def run(rep, tier, seed):
    vlib.standard_proof_phase(rep, 'C05', extra_targets=['Ident/PrehashShow.vo'])
    explore(rep, tier, seed)
    if rep.broken and not rep.violations and tier != 'thorough':
        explore(rep, 'thorough', seed + 1)


def explore(rep, tier, seed):
    rnd = random.Random(seed + 7)
    pairs = gen_pairs(tier, seed)
    cases = []
    for (sa, sb, what, same, kind) in pairs:
        try:
            a, b = cc.build(sa), cc.build(sb)
        except Exception:  # noqa  generator produced something a constructor refuses
            continue
        oa, ob = cc.observe(a), cc.observe(b)
        cases.append(dict(sa=sa, sb=sb, what=what, expect_same=same, kind=kind, oa=oa, ob=ob, eq=bool(a == b), ida=a.iso_id, idb=b.iso_id,
                          tda=a.to_dict(), tdb=b.to_dict()))
        # identifiers across read-only calls / cache filling
        if sa['cls'] != 'base':
            before = a.iso_id
            keys_before = sorted(a.to_dict())
            ro_seed = 'c05-ro/%d/%d' % (seed, len(cases))
            qs = read_only_calls(a, random.Random(ro_seed))
            if a.iso_id != before:
                rep.failure('C05:unclassified:id-changed-by-read-only-calls',
                            'identifier %s became %s after read-only calls (the last: %s); to_dict() keys gained: %s' % (
                                before, a.iso_id, qs, [k for k in sorted(a.to_dict()) if k not in keys_before]),
                            {'specA': _js(sa), 'kind': 'read-only', 'ro_seed': ro_seed})
    # ---- the same content by a route through an existing object (export + parse, to_dict + constructor, template, in-place conversion)
    n_route_refused = 0
    for spec, route in gen_route_cases(tier, seed):
        try:
            ab = apply_route(spec, route)
        except Exception:  # noqa  (constructor / parser refuses: judged by C06 / C07, not an identifier case)
            n_route_refused += 1
            continue
        if ab is None:
            continue
        a, b = ab
        cases.append(dict(sa=spec, sb=None, route=route, what=route, expect_same=True, kind='object-route', oa=cc.observe(a), ob=cc.observe(b),
                          eq=bool(a == b), ida=a.iso_id, idb=b.iso_id, tda=a.to_dict(), tdb=b.to_dict()))
    # ---- correspondence in Coq: model's "same md5 input" vs implementation's ==, model's to_dict vs implementation's to_dict()
    terms = ['(chk_pair %s %s %s %s %s %s)' % (coq_route(c['oa']), cc.coq_iso(c['oa']), cc.cdict(c['tda']),
                                               coq_route(c['ob']), cc.coq_iso(c['ob']), cc.cdict(c['tdb'])) for c in cases]
    model = None
    try:
        model = vlib.run_coq_cases('c05m', cc.HEADER + 'From PG Require Import Codec.JsonRoundtrip Ident.Prehash Ident.PrehashShow.\n',
                                   'fun x : list Z => x', terms, per_file=40, nested=True)
    except RuntimeError as e:
        rep.broken_obligation('correspondence:Prehash-evaluation', str(e)[-800:])
    n_dis = 0
    n_td = 0
    if model is not None:
        for c, mz in zip(cases, model):
            pred = (mz[0] == 1 and mz[1] == 1)
            if pred != c['eq']:
                n_dis += 1
                if n_dis <= 5:
                    rep.broken_obligation('correspondence:Prehash-vs-implementation',
                                          {'model_same_md5_input': pred, 'model_parts(to_dict,data)': mz[:2], 'implementation_eq': c['eq'], 'what': c['what'],
                                           'dtypes': (c['oa'].get('dtypes'), c['ob'].get('dtypes')), 'specA': _js(c['sa']), 'specB': _js(c['sb']) if c['sb'] else c.get('route')})
            for side, ok in (('A', mz[2]), ('B', mz[3])):
                if ok != 1:
                    n_td += 1
                    if n_td <= 3:
                        o, td = (c['oa'], c['tda']) if side == 'A' else (c['ob'], c['tdb'])
                        rep.broken_obligation('correspondence:to_dict-vs-implementation',
                                              {'what': "the model's to_dict of the abstracted object is not the dictionary to_dict() returned", 'object': side,
                                               'case': c['what'], 'implementation_to_dict': str(td)[:600],
                                               'object_state': {'units': o['units'], 'temperature(stored)': o['temperature'], 'material': o['material'],
                                                                'adsorbate': o['adsorbate'], 'metadata_keys': sorted(o['meta'])},
                                               'specA': _js(c['sa'])})
    # ---- property oracle
    hist = {}
    nontrivial = set()
    for c in cases:
        key = '%s/%s' % (c['kind'], c['what'])
        hist[key] = hist.get(key, 0) + 1
        if c['kind'] == 'object-route':
            if not c['eq'] or c['ida'] != c['idb']:
                from props import c06
                d = c06.content_diff(c['oa'], c['ob'])
                rep.failure(classify_route(c['route'], c['oa'], c['ob'], d),
                            'an isotherm and the isotherm obtained from it by %s have different identifiers %s / %s%s' % (
                                c['route'], c['ida'], c['idb'], '; first difference of their observable content: %s' % (d,) if d else
                                '; their observable content is equal (dtypes %s / %s)' % (c['oa'].get('dtypes'), c['ob'].get('dtypes'))),
                            {'specA': _js(c['sa']), 'kind': 'object-route', 'route': c['route'], 'expect_same': True})
            else:
                nontrivial.add((c['kind'], c['what'], c['sa']['cls'], len(c['oa'].get('rows', [])), tuple(sorted(c['oa']['meta'])), c['oa']['units'][-1]))
        elif c['expect_same'] and not c['eq']:
            rep.failure(classify(c['kind'], c['what'], c['oa'], c['ob']),
                        'same content (%s) but different identifiers %s / %s' % (c['what'], c['ida'], c['idb']),
                        {'specA': _js(c['sa']), 'specB': _js(c['sb']), 'kind': c['kind'], 'what': c['what'], 'expect_same': True})
        elif not c['expect_same'] and c['eq']:
            rep.failure('C05:unclassified:insensitive:%s' % c['what'], 'content differs (%s) but the identifiers are equal' % c['what'],
                        {'specA': _js(c['sa']), 'specB': _js(c['sb']), 'kind': c['kind'], 'what': c['what'], 'expect_same': False})
        else:
            nontrivial.add((c['kind'], c['what'], c['sa']['cls'], len(c['oa'].get('rows', [])), tuple(sorted(c['oa']['meta']))))
    # ---- process boundary / hash seed
    sample = [c for c in cases if c['kind'] == 'mutation'][:25 if tier == 'quick' else 200]
    ids, err = other_process_ids([_js(c['sa']) for c in sample])
    if ids is None:
        rep.broken_obligation('other-process-run', err)
    else:
        for c, i2 in zip(sample, ids):
            if i2 != c['ida']:
                rep.failure('C05:unclassified:id-differs-across-processes', 'identifier differs in another process (PYTHONHASHSEED=4242): %s vs %s' % (c['ida'], i2),
                            {'specA': _js(c['sa']), 'kind': 'process'})
        hist['process-boundary'] = len(sample)
    hh, hn = held_reference_edits(rep, tier, seed)
    hist.update(hh)
    nontrivial |= hn
    hh, hn = typed_value_reads(rep, tier, seed)
    hist.update(hh)
    nontrivial |= hn
    rep.cov['evaluations'] += len(cases) + len(sample)
    rep.cov['distinct_nontrivial'] = len(nontrivial)
    rep.cov['rule'] = ('pairs from the structured generator of C06: (i) same content by another route {row labels shifted / strings, int vs float '
                       'literals, lists vs frame, numpy arrays}; (ii) one minimal change {unit label, material, adsorbate, temperature, metadata '
                       'value / type / added / deleted key, material property, one cell by 3e-8, one branch mark, one row, model parameter / rmse '
                       '/ range / branch}; (iii) one cell by 2e-9 (below the threshold). non-trivial = distinct (kind, change, class, rows, metadata '
                       'keys) on which the implementation behaved as the property demands; plus identifiers recomputed in another process with '
                       'another PYTHONHASHSEED and after 12 random read-only calls; (iv) live-object histories: identifier read (iso_id / == / in / repr), '
                       'one content item changed through a reference the isotherm HOLDS {cell, extra-column cell, branch mark, rescaled column of data_raw; '
                       'properties[k] set / added / deleted; material.properties; model.params[k], model.rmse, model.pressure_range}, identifier read '
                       'again: must change and must equal the identifier of a fresh isotherm built with the edited content; (v) object routes '
                       '{parse of the JSON export, constructor(**to_dict()), from_isotherm(template), convert_temperature vs fresh, temperature setter '
                       'vs fresh} x {K, degC}: equal identifier demanded; read-only calls = 12 fixed-shape calls + 6 queries discovered on the class; '
                       '(vi) material properties of every JSON type (density / molar_mass as int, numeric text, bool, None, list, dict) x 2-7 reads that touch '
                       'them {loading / loading_at / pressure_at returned in another material or loading basis, pressure in another mode, every property '
                       'and argument-free method discovered on Material and Adsorbate}: identifier, typed to_dict and == with an untouched twin unchanged')
    rep.cov['input_distribution'] = dict(sorted(hist.items()))
    rep.cov['correspondence'] = {'pairs': len(cases), 'disagreements': n_dis, 'to_dict_disagreements': n_td, 'object_route_refused': n_route_refused,
                                 'what': "model's 'same md5 input' (computed in Coq) vs implementation ==; model's to_dict of each abstracted object vs "
                                         "the dictionary the implementation's to_dict() returns (typed, compared in Coq)"}
    rep.cov['samples'] += [{'what': c['what'], 'kind': c['kind'], 'eq': c['eq'], 'expected_same': c['expect_same']} for c in cases[:6]]
    rep.cov['trusted_base'] += ['translator tools/py2v_tables.py', 'oracles: md5, hash_pandas_object (collision-free on the inputs compared), json.dumps(sort_keys)',
                                'numpy round(8) = exact half-even rounding away from ties', 'abstraction function tools/props/codec_common.py']
    rep.assumptions += ['collision-freeness of md5 / hash_pandas_object is assumed, not proved', 'rounding ties at exactly 5e-9 are not asserted']


def _js(spec):
    """spec with numpy arrays turned into lists (replay files are JSON)"""
    s = copy.deepcopy(spec)
    if 'data' in s:
        for k in ('p', 'l'):
            if isinstance(s['data'][k], np.ndarray):
                s['data'][k] = s['data'][k].tolist()
                s['data']['was_numpy'] = True
    return s


def _unjs(s):
    s = copy.deepcopy(s)
    if 'model' in s:
        s['model']['prange'] = tuple(s['model']['prange']); s['model']['lrange'] = tuple(s['model']['lrange'])
    if 'data' in s and s['data'].pop('was_numpy', False):
        s['data']['p'], s['data']['l'] = np.array(s['data']['p']), np.array(s['data']['l'])
    return s


def replay(d):
    import logging
    logging.disable(logging.CRITICAL)
    r = d['replay']
    if r.get('kind') == 'held-reference':
        sa = _unjs(r['specA'])
        a = cc.build(sa)
        id0 = a.iso_id
        e = held_edit(a, sa, cc.observe(a), random.Random(r['edit_seed']))
        id1 = a.iso_id
        fresh = cc.build(e[1])
        print('identifier read:', id0, '| edit through a held reference:', e[0], '| identifier read again:', id1, '(unchanged!)' if id0 == id1 else '')
        print('fresh isotherm with the edited content:', fresh.iso_id, ' fresh == edited:', fresh == a)
        return 1
    if r.get('kind') == 'typed-reads':
        sa = _unjs(r['specA'])
        qs, s0, s1, eq0, eq1, in1 = typed_read_case(sa, r['read_seed'])
        print('material properties:', sa['mprops'])
        print('read-only queries:', qs)
        print('identifier before:', s0['id'], 'after:', s1['id'], '(changed!)' if s0['id'] != s1['id'] else '')
        print('first typed difference of to_dict():', ch.snapshot_diff(s0, s1))
        print('== with an untouched twin before / after:', eq0, eq1, ' twin in [iso] after:', in1)
        return 1
    if r.get('kind') == 'read-only':
        a = cc.build(_unjs(r.get('specA') or r.get('spec')))
        id0, k0 = a.iso_id, sorted(a.to_dict())
        qs = read_only_calls(a, random.Random(r.get('ro_seed', 0)))
        print('identifier before:', id0, '| read-only calls (the last ones):', qs)
        print('identifier after :', a.iso_id, '(changed!)' if a.iso_id != id0 else '', '| to_dict() keys gained:', [k for k in sorted(a.to_dict()) if k not in k0])
        return 1
    if r.get('kind') == 'object-route':
        from props import c06
        a, b = apply_route(_unjs(r['specA']), r['route'])
        print('route:', r['route'])
        print('A:', a.iso_id, 'temperature', a._temperature, a.temperature_unit, cc.observe(a).get('dtypes'))
        print('B:', b.iso_id, 'temperature', b._temperature, b.temperature_unit, cc.observe(b).get('dtypes'))
        print('A == B:', a == b, ' first content difference:', c06.content_diff(cc.observe(a), cc.observe(b)))
        return 1
    a = cc.build(_unjs(r['specA']))
    print('A:', a.iso_id, cc.observe(a).get('dtypes'), cc.observe(a).get('index', [])[:3])
    if 'specB' in r:
        b = cc.build(_unjs(r['specB']))
        print('B:', b.iso_id, cc.observe(b).get('dtypes'), cc.observe(b).get('index', [])[:3])
        print('what:', r.get('what'), ' expected same identifier:', r.get('expect_same'), ' A == B:', a == b)
    return 1
