"""C05 - isotherm identity is determined by content, and only by content.

proof phase   : Props/C05.v over Ident/Prehash.v (what hashgen.py feeds to md5) on the isotherm content model of Codec/JsonDoc.v
correspondence: PAIRS of real isotherms; the model (executed in Coq) predicts whether the two md5 inputs are equal (same to_dict as
                typed maps, same multiset of row tokens = label + dtype-tagged 8-decimal cells in column order / same model
                dictionary); the implementation's `==` must agree on every pair
oracle/search : equal content by another route (lists / arrays / frame, int / float literals, row labels, another process with
                another PYTHONHASHSEED, parse of a JSON export, after read-only calls) => equal id; a minimal change of content
                (each metadata value or type, label, material, property, adsorbate, temperature, cell above the threshold, branch
                mark, model parameter) => different id; a change below the rounding threshold => equal id; live-object histories:
                identifier read, content edited through a held reference (data_raw cell / branch mark / column, properties[k],
                material.properties[k], model.params[k], model.rmse), identifier read again => changed and equal to a fresh object's
"""
import copy
import json
import os
import random
import subprocess
import sys

import numpy as np
import pandas as pd

import vlib
from props import codec_common as cc

MANIFEST = dict(
    text="Machine-checked (Coq 8.16, axiom-free) theorems about the model of what hashgen.py feeds to md5: the identifier does not depend on "
         "the interpolator caches (all isotherms), it is a function of to_dict(), the model dictionary and the MULTISET of row tokens (label, "
         "dtype-tagged 8-decimal cells in column order) and of nothing else, and to_dict() is injective on unit labels, material, material "
         "properties, adsorbate, temperature and arbitrary metadata lists; three REFUTED clauses with witnesses (int vs float literals, row "
         "labels, branch column dtype give other tokens). PARTIAL: 'different prehash => different identifier' is the collision-freeness of "
         "md5 / hash_pandas_object / json.dumps, assumed. Every run compares, inside Coq, the model's prediction 'same md5 input' with the "
         "implementation's == on generated pairs (same content by other routes, minimal content changes, sub-threshold changes), and checks "
         "identifiers across a process boundary with another PYTHONHASHSEED, across read-only calls, and along live-object histories (identifier "
         "read, one content item changed through an object the isotherm holds - table cell, branch mark, metadata / material property dict, model "
         "parameter - identifier read again: it must change and equal the identifier of a fresh isotherm with the edited content).",
    note="Trusted: Coq kernel; oracles md5, hash_pandas_object (one hash per row from label and dtype-tagged cells), str(int), json.dumps(sort_keys); "
         "numpy round(8) modelled as exact half-even rounding (generator stays away from ties); tools/py2v_tables.py; the abstraction function "
         "of the harness.",
    technique="Coq proof on a hand model tied by generated tables and a per-run pairwise correspondence executed in Coq")

SCR = os.path.join(vlib.VERIF, '.scratch')


def coq_route(o):
    if o['cls'] != 'point':
        return '(mkRoute [] [] [])'
    return '(mkRoute [%s] [%s] [%s])' % ('; '.join(cc.cval(x) for x in o['index']),
                                        '; '.join('(%s, %s)' % (cc.cstr(c), cc.cstr(d)) for c, d in o['dtypes'].items()),
                                        '; '.join(cc.cstr(c) for c in o['columns']))


def read_only_calls(iso, rnd):
    import pygaps
    point = isinstance(iso, pygaps.PointIsotherm)
    for _ in range(12):
        try:
            k = rnd.randint(0, 7) if point else rnd.choice([0, 1, 5, 6])      # no numerical inversion on model isotherms (slow)
            if k == 0: iso.pressure()
            elif k == 1: iso.loading(branch='ads')
            elif k == 2: iso.loading_at(float(np.mean(iso.pressure())))
            elif k == 3: iso.pressure_at(float(np.mean(iso.loading())))
            elif k == 4: iso.data()
            elif k == 5: str(iso); repr(iso)
            elif k == 6: iso.to_dict(); iso.has_branch('des')
            else: iso.spreading_pressure_at([float(np.mean(iso.pressure()))])
        except Exception:  # noqa
            pass


def mutate(spec, rnd):
    """-> (spec', what, expect_same) : a minimal change of CONTENT (expect_same False) or a sub-threshold change (True)"""
    s = copy.deepcopy(spec)
    choices = ['unit', 'material', 'adsorbate', 'temperature', 'meta_add']
    if s['meta']:
        choices += ['meta_value', 'meta_type', 'meta_del'] * 2
    if s['mprops']:
        choices += ['mprop']
    if s['cls'] == 'point':
        choices += ['cell_above', 'cell_above', 'cell_below', 'cell_below', 'branch', 'branch', 'row_del']
    if s['cls'] == 'model':
        choices += ['param', 'param', 'rmse', 'range', 'mbranch']
    what = rnd.choice(choices)
    if what == 'unit':
        u = rnd.choice(['pressure', 'loading', 'material', 'temperature'])
        if u == 'temperature':
            s['units']['temperature_unit'] = 'K' if s['units']['temperature_unit'] != 'K' else '°C'
        else:
            reps = {'pressure': cc.PREPS, 'loading': cc.LREPS, 'material': cc.MREPS}[u]
            keys = {'pressure': ('pressure_mode', 'pressure_unit'), 'loading': ('loading_basis', 'loading_unit'), 'material': ('material_basis', 'material_unit')}[u]
            cur = (s['units'][keys[0]], s['units'][keys[1]])
            new = rnd.choice([r for r in reps if r != cur])
            s['units'][keys[0]], s['units'][keys[1]] = new
    elif what == 'material':
        s['material'] = s['material'] + 'x'
    elif what == 'adsorbate':
        s['adsorbate'] = 'water' if s['adsorbate'] != 'water' else 'CO2'
    elif what == 'temperature':
        s['temperature'] = s['temperature'] + rnd.choice([1, 1e-6, -0.5])
    elif what == 'meta_add':
        s['meta']['extra_key_%d' % rnd.randint(0, 9)] = cc.gen_value(rnd, 'json')
    elif what == 'meta_del':
        del s['meta'][rnd.choice(sorted(s['meta']))]
    elif what == 'meta_value':
        k = rnd.choice(sorted(s['meta']))
        v = s['meta'][k]
        s['meta'][k] = (v + 1 if isinstance(v, (int, float)) and not isinstance(v, bool) else (not v) if isinstance(v, bool)
                        else v + '_' if isinstance(v, str) else 'changed')
        if isinstance(v, float) and s['meta'][k] == v:    # 1e308 + 1
            s['meta'][k] = v / 2
    elif what == 'meta_type':
        k = rnd.choice(sorted(s['meta']))
        v = s['meta'][k]
        if isinstance(v, bool): s['meta'][k] = int(v)
        elif isinstance(v, int) and abs(v) < 2 ** 53: s['meta'][k] = float(v)
        elif isinstance(v, float) and v == int(v) and abs(v) < 1e15: s['meta'][k] = int(v)
        elif isinstance(v, str): s['meta'][k] = [v]
        elif v is None: s['meta'][k] = 'None'
        else: s['meta'][k] = str(v)
    elif what == 'mprop':
        k = rnd.choice(sorted(s['mprops']))
        v = s['mprops'][k]
        s['mprops'][k] = v * 2 + 1 if isinstance(v, (int, float)) and not isinstance(v, bool) else 'changed'
    elif what in ('cell_above', 'cell_below'):
        d = s['data']
        col = rnd.choice(['p', 'l'])
        n = rnd.randrange(len(d[col]))
        x = d[col][n]
        if isinstance(x, int):
            if what == 'cell_below':
                return mutate(spec, rnd)
            d[col][n] = x + 1
        else:
            # stay away from rounding ties: start from a value on the 1e-8 grid (+ 2e-9), move by 3e-8 or 2e-9
            base = round(x, 6)
            d[col][n] = base
            s0 = copy.deepcopy(s)
            d[col][n] = base + (3e-8 if what == 'cell_above' else 2e-9)
            if what == 'cell_below' and d['branch'] == 'guess':
                d['branch'] = 'ads'; s0['data']['branch'] = 'ads'
            if d['branch'] == 'guess':
                d['branch'] = 'ads'; s0['data']['branch'] = 'ads'
            return s0, s, what, what == 'cell_below'
    elif what == 'branch':
        d = s['data']
        n = len(d['p'])
        cur = d['branch']
        base = [0] * n
        d['branch'] = list(base)
        s0 = copy.deepcopy(s)
        d['branch'][rnd.randrange(n)] = 1
        return s0, s, what, False
    elif what == 'row_del':
        d = s['data']
        if len(d['p']) < 2:
            return mutate(spec, rnd)
        n = rnd.randrange(len(d['p']))
        for c in [d['p'], d['l']] + list(d['cols'].values()):
            del c[n]
        if not isinstance(d['branch'], str):
            del d['branch'][n]
        if d['branch'] == 'guess':
            d['branch'] = 'ads'
            s0 = copy.deepcopy(spec); s0['data']['branch'] = 'ads'
            return s0, s, what, False
    elif what == 'param':
        k = rnd.choice(sorted(s['model']['params']))
        s['model']['params'][k] = s['model']['params'][k] * (1 + rnd.choice([1e-9, 0.5]))
    elif what == 'rmse':
        s['model']['rmse'] = s['model']['rmse'] + 0.125
    elif what == 'range':
        s['model']['prange'] = (s['model']['prange'][0], s['model']['prange'][1] + 1)
    elif what == 'mbranch':
        s['model']['branch'] = 'des' if s['model']['branch'] == 'ads' else 'ads'
    return spec, s, what, False


def reroute(spec, rnd):
    """same content, another construction route -> (spec', route name) or None"""
    if spec['cls'] != 'point':
        return None
    s = copy.deepcopy(spec)
    d = s['data']
    kind = rnd.choice(['index', 'index_str', 'literals', 'lists', 'numpy', 'literals'])
    if kind in ('index', 'index_str'):
        n = len(d['p'])
        d['index'] = list(range(5, 5 + n)) if kind == 'index' else ['r%d' % k for k in range(n)]
        d['via'] = 'frame'
        return s, 'row-labels'
    if kind == 'literals':
        # integral values written as ints in one and floats in the other
        n = len(d['p'])
        base = copy.deepcopy(spec)
        vals = sorted(rnd.sample(range(1, 200), n))
        base['data'].update(p=[float(v) for v in vals], l=[float(v * 2) for v in vals], cols={}, via='frame', branch='ads')
        s['data'].update(p=list(vals), l=[v * 2 for v in vals], cols={}, via='frame', branch='ads')
        return base, s, 'int-vs-float-literals'
    if d['cols'] or (d['pk'], d['lk']) != ('pressure', 'loading'):
        return None
    if kind == 'lists':
        d['via'] = 'lists' if d['via'] == 'frame' else 'frame'
        return s, 'lists-vs-frame'
    d['via'] = 'frame'
    d['p'], d['l'] = np.array(d['p']), np.array(d['l'])
    return s, 'numpy-arrays'


def gen_pairs(tier, seed):
    rnd = random.Random(seed)
    n = 3000 if tier == 'thorough' else 260
    pairs = []   # (specA, specB, what, expect_same, kind)
    for k in range(n):
        spec = cc.gen_spec(rnd, 'json')
        if k % 3 == 0:
            r = reroute(spec, rnd)
            if r is None:
                continue
            if len(r) == 3:
                pairs.append((r[0], r[1], r[2], True, 'route'))
            else:
                pairs.append((spec, r[0], r[1], True, 'route'))
        else:
            m = mutate(spec, rnd)
            pairs.append((m[0], m[1], m[2], m[3], 'mutation'))
    return pairs


CHILD = r'''
import sys, json, logging, warnings
logging.disable(logging.CRITICAL); warnings.filterwarnings('ignore')
sys.path.insert(0, %r)
from props import codec_common as cc
specs = json.load(open(sys.argv[1]))
out = []
for s in specs:
    if 'model' in s:
        s['model']['prange'] = tuple(s['model']['prange']); s['model']['lrange'] = tuple(s['model']['lrange'])
    out.append(cc.build(s).iso_id)
print(json.dumps(out))
'''


def other_process_ids(specs):
    os.makedirs(SCR, exist_ok=True)
    path = os.path.join(SCR, 'c05_specs_%d.json' % os.getpid())
    json.dump(specs, open(path, 'w'))
    env = dict(os.environ, PYTHONHASHSEED='4242', PYTHONPATH='/repo/src:' + vlib.TOOLS)
    try:
        p = subprocess.run([sys.executable, '-c', CHILD % vlib.TOOLS, path], capture_output=True, text=True, env=env, timeout=300)
        if p.returncode != 0:
            return None, p.stderr[-500:]
        return json.loads(p.stdout.strip().split('\n')[-1]), None
    finally:
        os.remove(path)


def values_equal_untyped(o0, o1):
    """same content when 1 and 1.0 are NOT distinguished in data cells (the property names int/float literals as one content)"""
    if len(o0['rows']) != len(o1['rows']):
        return False
    for (c0, b0), (c1, b1) in zip(o0['rows'], o1['rows']):
        if b0 != b1 or set(c0) != set(c1) or any(c0[k] != c1[k] for k in c0):
            return False
    return True


def dclass(d):
    """how hash_pandas_object sees a column dtype: all int widths and bool alike, floats, objects/text"""
    d = str(d)
    return 'i' if d.startswith(('int', 'uint', 'bool')) else 'f' if d.startswith('float') else 'o'


def classify(kind, what, oa, ob):
    if kind == 'route' and oa['cls'] == 'point':
        if oa['index'] != ob['index'] and oa['dtypes'] == ob['dtypes']:
            return 'C05:id-depends-on-row-labels'
        pl = [c for c in oa['dtypes'] if c != 'branch' and oa['dtypes'][c] != ob['dtypes'].get(c)]
        if pl and {oa['dtypes'][pl[0]], ob['dtypes'][pl[0]]} == {'int64', 'float64'}:
            return 'C05:id-depends-on-int-vs-float-literals'
        if dclass(oa['dtypes'].get('branch')) != dclass(ob['dtypes'].get('branch')):
            return 'C05:id-depends-on-branch-column-dtype'
    return 'C05:unclassified:%s:%s' % (kind, what)


# ------------------------------------------------------------------ content edited through objects the isotherm HOLDS
def _same_kind_step(x):
    """another value of the same Python type, well above the 8-decimal threshold"""
    x = cc.py(x)
    if isinstance(x, bool):
        return not x
    if isinstance(x, int):
        return x + 1
    if isinstance(x, float):
        return x + 1.0 if x == x and abs(x) < 1e15 else 0.5
    if isinstance(x, str):
        return x + '_'
    return 'changed'


def held_edit(iso, spec, o, rnd):
    """Change ONE content item of the live isotherm through a reference the isotherm holds (its table, its metadata dict, its
    material's property dict, its model's parameter dict) - never by assigning an attribute of the isotherm itself.
    -> (what, spec of a fresh isotherm with the edited content) or None when the drawn edit does not apply"""
    s = copy.deepcopy(spec)
    choices = ['meta_add', 'mprop_add']
    if s['meta']:
        choices += ['meta_value', 'meta_value', 'meta_del']
    if s['mprops']:
        choices += ['mprop_value']
    if s['cls'] == 'point':
        choices += ['cell', 'cell', 'cell', 'branch', 'branch', 'column_scaled', 'extra_cell'] * 2
    if s['cls'] == 'model':
        choices += ['param', 'param', 'param', 'rmse', 'range'] * 2
    what = rnd.choice(choices)
    if what == 'meta_add':
        k = 'held_key_%d' % rnd.randint(0, 9)
        v = rnd.choice([3, 2.5, 'text', True, None, [1, 2]])
        if k in iso.properties:
            return None
        iso.properties[k] = copy.deepcopy(v)
        s['meta'][k] = v
    elif what == 'meta_value':
        k = rnd.choice(sorted(s['meta']))
        v = _same_kind_step(s['meta'][k])
        if isinstance(s['meta'][k], float) and v == s['meta'][k]:
            return None
        iso.properties[k] = copy.deepcopy(v)
        s['meta'][k] = v
    elif what == 'meta_del':
        k = rnd.choice(sorted(s['meta']))
        del iso.properties[k]
        del s['meta'][k]
    elif what == 'mprop_add':
        if 'held_prop' in iso.material.properties:
            return None
        iso.material.properties['held_prop'] = 'v1'
        s['mprops']['held_prop'] = 'v1'
    elif what == 'mprop_value':
        k = rnd.choice(sorted(s['mprops']))
        v = _same_kind_step(s['mprops'][k])
        iso.material.properties[k] = copy.deepcopy(v)
        s['mprops'][k] = v
    elif what in ('cell', 'branch', 'column_scaled', 'extra_cell'):
        d = s['data']
        df = iso.data_raw                                  # the held table
        n = rnd.randrange(len(df))
        # the fresh isotherm gets the marks of the live one explicitly (a changed pressure must not be re-guessed)
        marks = list(o['branch_raw'])
        if not all(isinstance(b, (bool, int)) for b in marks):
            return None
        d['branch'] = marks
        d['p'], d['l'] = list(d['p']), list(d['l'])
        if what == 'cell':
            col, key = rnd.choice([('p', d['pk']), ('l', d['lk'])])
            new = _same_kind_step(df[key].iloc[n])
            df.loc[df.index[n], key] = new
            d[col][n] = new
        elif what == 'extra_cell':
            names = [c for c, v in d['cols'].items() if v and isinstance(v[0], (int, float, str))]
            if not names:
                return None
            key = rnd.choice(sorted(names))
            old = df[key].iloc[n]
            new = _same_kind_step(old)
            if cc.py(old) != cc.py(old):                   # a missing cell gets a value
                new = 1.25
            df.loc[df.index[n], key] = new
            d['cols'][key] = list(d['cols'][key])
            d['cols'][key][n] = new
        elif what == 'branch':
            new = (not marks[n]) if isinstance(marks[n], bool) else 1 - int(marks[n])
            df.loc[df.index[n], 'branch'] = new
            d['branch'][n] = new
        else:
            key = d['pk']
            df[key] *= 2                                   # in-place rescaling of the held column
            d['p'] = [x * 2 for x in d['p']]
        d['via'] = 'frame'
    elif what == 'param':
        k = rnd.choice(sorted(s['model']['params']))
        v = s['model']['params'][k] * rnd.choice([1.5, 1 + 1e-6])
        iso.model.params[k] = v
        s['model']['params'][k] = v
    elif what == 'rmse':
        v = s['model']['rmse'] + 0.125
        iso.model.rmse = v                                 # attribute of the held model object, not of the isotherm
        s['model']['rmse'] = v
    elif what == 'range':
        v = (s['model']['prange'][0], s['model']['prange'][1] + 1)
        iso.model.pressure_range = v
        s['model']['prange'] = v
    return what, s


def held_reference_edits(rep, tier, seed):
    """read the identifier, change content through a held reference, read again: the identifier must change, and a fresh
    isotherm with the edited content must have the identifier of the edited object (the identifier depends on the content
    only, not on the history of the object)."""
    rnd = random.Random(seed + 23)
    n = 1500 if tier == 'thorough' else 150
    hist = {}
    seen = {}
    done = 0
    nontrivial = set()

    def fail(tag, what, replay):
        seen[tag] = seen.get(tag, 0) + 1
        if seen[tag] <= 3:
            rep.failure(tag, what, replay)

    for k in range(n):
        spec = cc.gen_spec(rnd, 'json')
        if spec['cls'] == 'point':
            spec['data']['via'] = 'frame'
        try:
            iso = cc.build(spec)
            ctrl = cc.build(spec)
        except Exception:  # noqa  generator produced something a constructor refuses
            continue
        o = cc.observe(iso)
        reads = rnd.choice(['iso_id', 'eq', 'in', 'repr+iso_id'])
        id0 = iso.iso_id
        if reads == 'eq':
            iso == ctrl  # noqa
        elif reads == 'in':
            iso in [ctrl]  # noqa
        elif reads == 'repr+iso_id':
            repr(iso)
        if spec['cls'] != 'base' and rnd.random() < 0.5:
            read_only_calls(iso, rnd)
        edit_seed = 'c05-held/%d/%d' % (seed, k)
        try:
            e = held_edit(iso, spec, o, random.Random(edit_seed))
            if e is None:
                continue
            what, s2 = e
            id1 = iso.iso_id
            fresh = cc.build(s2)
        except Exception:  # noqa  (pandas refuses the assignment: not an identifier case)
            hist['held/edit-refused'] = hist.get('held/edit-refused', 0) + 1
            continue
        done += 1
        hist['held/' + what] = hist.get('held/' + what, 0) + 1
        rp = {'specA': _js(spec), 'specB': _js(s2), 'kind': 'held-reference', 'what': what, 'reads': reads, 'edit_seed': edit_seed}
        if id1 == id0:
            fail('C05:unclassified:id-stale-after-edit-through-held-reference:%s' % what,
                 'identifier read (%s), %s changed through a reference the isotherm holds, identifier read again: unchanged %s' % (reads, what, id0), rp)
            continue
        if fresh.iso_id != id1 or not (fresh == iso):
            of = cc.observe(fresh)
            oe = cc.observe(iso)
            same_route = of.get('dtypes') == oe.get('dtypes') and of.get('columns') == oe.get('columns') and of.get('index') == oe.get('index')
            if same_route:
                fail('C05:unclassified:edited-object-id-differs-from-fresh-object:%s' % what,
                     'after %s through a held reference the identifier %s is not the identifier %s of a fresh isotherm with the same content' % (what, id1, fresh.iso_id), rp)
            else:
                hist['held/fresh-object-on-another-route(not judged)'] = hist.get('held/fresh-object-on-another-route(not judged)', 0) + 1
            continue
        nontrivial.add(('held', what, spec['cls'], reads))
    rep.cov['evaluations'] += done
    rep.cov['held_reference_edits'] = {'cases': done, 'failing_cases_per_tag': dict(sorted(seen.items()))}
    return hist, nontrivial


def run(rep, tier, seed):
    vlib.standard_proof_phase(rep, 'C05', extra_targets=['Ident/PrehashShow.vo'])
    explore(rep, tier, seed)
    if rep.broken and not rep.violations and tier != 'thorough':
        explore(rep, 'thorough', seed + 1)


def explore(rep, tier, seed):
    rnd = random.Random(seed + 7)
    pairs = gen_pairs(tier, seed)
    cases = []
    for (sa, sb, what, same, kind) in pairs:
        try:
            a, b = cc.build(sa), cc.build(sb)
        except Exception:  # noqa  generator produced something a constructor refuses
            continue
        oa, ob = cc.observe(a), cc.observe(b)
        cases.append(dict(sa=sa, sb=sb, what=what, expect_same=same, kind=kind, oa=oa, ob=ob, eq=bool(a == b), ida=a.iso_id, idb=b.iso_id))
        # identifiers across read-only calls / cache filling
        if sa['cls'] != 'base':
            before = a.iso_id
            read_only_calls(a, rnd)
            if a.iso_id != before:
                rep.failure('C05:unclassified:id-changed-by-read-only-calls', 'identifier changed after read-only calls', {'spec': _js(sa), 'kind': 'read-only'})
    # ---- correspondence in Coq: model's "same md5 input" vs implementation's ==
    terms = ['(same_prehash %s %s %s %s)' % (coq_route(c['oa']), cc.coq_iso(c['oa']), coq_route(c['ob']), cc.coq_iso(c['ob'])) for c in cases]
    model = None
    try:
        model = vlib.run_coq_cases('c05m', cc.HEADER + 'From PG Require Import Codec.JsonRoundtrip Ident.Prehash Ident.PrehashShow.\n',
                                   'fun x : list Z => x', terms, per_file=40, nested=True)
    except RuntimeError as e:
        rep.broken_obligation('correspondence:Prehash-evaluation', str(e)[-800:])
    n_dis = 0
    if model is not None:
        for c, mz in zip(cases, model):
            pred = (mz[0] == 1 and mz[1] == 1)
            if pred != c['eq']:
                n_dis += 1
                if n_dis <= 5:
                    rep.broken_obligation('correspondence:Prehash-vs-implementation',
                                          {'model_same_md5_input': pred, 'model_parts(to_dict,data)': mz, 'implementation_eq': c['eq'], 'what': c['what'],
                                           'dtypes': (c['oa'].get('dtypes'), c['ob'].get('dtypes')), 'specA': _js(c['sa']), 'specB': _js(c['sb'])})
    # ---- property oracle
    hist = {}
    nontrivial = set()
    for c in cases:
        key = '%s/%s' % (c['kind'], c['what'])
        hist[key] = hist.get(key, 0) + 1
        if c['expect_same'] and not c['eq']:
            rep.failure(classify(c['kind'], c['what'], c['oa'], c['ob']),
                        'same content (%s) but different identifiers %s / %s' % (c['what'], c['ida'], c['idb']),
                        {'specA': _js(c['sa']), 'specB': _js(c['sb']), 'kind': c['kind'], 'what': c['what'], 'expect_same': True})
        elif not c['expect_same'] and c['eq']:
            rep.failure('C05:unclassified:insensitive:%s' % c['what'], 'content differs (%s) but the identifiers are equal' % c['what'],
                        {'specA': _js(c['sa']), 'specB': _js(c['sb']), 'kind': c['kind'], 'what': c['what'], 'expect_same': False})
        else:
            nontrivial.add((c['kind'], c['what'], c['sa']['cls'], len(c['oa'].get('rows', [])), tuple(sorted(c['oa']['meta']))))
    # ---- process boundary / hash seed
    sample = [c for c in cases if c['kind'] == 'mutation'][:25 if tier == 'quick' else 200]
    ids, err = other_process_ids([_js(c['sa']) for c in sample])
    if ids is None:
        rep.broken_obligation('other-process-run', err)
    else:
        for c, i2 in zip(sample, ids):
            if i2 != c['ida']:
                rep.failure('C05:unclassified:id-differs-across-processes', 'identifier differs in another process (PYTHONHASHSEED=4242): %s vs %s' % (c['ida'], i2),
                            {'specA': _js(c['sa']), 'kind': 'process'})
        hist['process-boundary'] = len(sample)
    hh, hn = held_reference_edits(rep, tier, seed)
    hist.update(hh)
    nontrivial |= hn
    rep.cov['evaluations'] += len(cases) + len(sample)
    rep.cov['distinct_nontrivial'] = len(nontrivial)
    rep.cov['rule'] = ('pairs from the structured generator of C06: (i) same content by another route {row labels shifted / strings, int vs float '
                       'literals, lists vs frame, numpy arrays}; (ii) one minimal change {unit label, material, adsorbate, temperature, metadata '
                       'value / type / added / deleted key, material property, one cell by 3e-8, one branch mark, one row, model parameter / rmse '
                       '/ range / branch}; (iii) one cell by 2e-9 (below the threshold). non-trivial = distinct (kind, change, class, rows, metadata '
                       'keys) on which the implementation behaved as the property demands; plus identifiers recomputed in another process with '
                       'another PYTHONHASHSEED and after 12 random read-only calls; (iv) live-object histories: identifier read (iso_id / == / in / repr), '
                       'one content item changed through a reference the isotherm HOLDS {cell, extra-column cell, branch mark, rescaled column of data_raw; '
                       'properties[k] set / added / deleted; material.properties; model.params[k], model.rmse, model.pressure_range}, identifier read '
                       'again: must change and must equal the identifier of a fresh isotherm built with the edited content')
    rep.cov['input_distribution'] = dict(sorted(hist.items()))
    rep.cov['correspondence'] = {'pairs': len(cases), 'disagreements': n_dis, 'what': "model's 'same md5 input' (computed in Coq) vs implementation =="}
    rep.cov['samples'] += [{'what': c['what'], 'kind': c['kind'], 'eq': c['eq'], 'expected_same': c['expect_same']} for c in cases[:6]]
    rep.cov['trusted_base'] += ['translator tools/py2v_tables.py', 'oracles: md5, hash_pandas_object (collision-free on the inputs compared), json.dumps(sort_keys)',
                                'numpy round(8) = exact half-even rounding away from ties', 'abstraction function tools/props/codec_common.py']
    rep.assumptions += ['collision-freeness of md5 / hash_pandas_object is assumed, not proved', 'rounding ties at exactly 5e-9 are not asserted']


def _js(spec):
    """spec with numpy arrays turned into lists (replay files are JSON)"""
    s = copy.deepcopy(spec)
    if 'data' in s:
        for k in ('p', 'l'):
            if isinstance(s['data'][k], np.ndarray):
                s['data'][k] = s['data'][k].tolist()
                s['data']['was_numpy'] = True
    return s


def _unjs(s):
    s = copy.deepcopy(s)
    if 'model' in s:
        s['model']['prange'] = tuple(s['model']['prange']); s['model']['lrange'] = tuple(s['model']['lrange'])
    if 'data' in s and s['data'].pop('was_numpy', False):
        s['data']['p'], s['data']['l'] = np.array(s['data']['p']), np.array(s['data']['l'])
    return s


def replay(d):
    import logging
    logging.disable(logging.CRITICAL)
    r = d['replay']
    if r.get('kind') == 'held-reference':
        sa = _unjs(r['specA'])
        a = cc.build(sa)
        id0 = a.iso_id
        e = held_edit(a, sa, cc.observe(a), random.Random(r['edit_seed']))
        id1 = a.iso_id
        fresh = cc.build(e[1])
        print('identifier read:', id0, '| edit through a held reference:', e[0], '| identifier read again:', id1, '(unchanged!)' if id0 == id1 else '')
        print('fresh isotherm with the edited content:', fresh.iso_id, ' fresh == edited:', fresh == a)
        return 1
    a = cc.build(_unjs(r['specA']))
    print('A:', a.iso_id, cc.observe(a).get('dtypes'), cc.observe(a).get('index', [])[:3])
    if 'specB' in r:
        b = cc.build(_unjs(r['specB']))
        print('B:', b.iso_id, cc.observe(b).get('dtypes'), cc.observe(b).get('index', [])[:3])
        print('what:', r.get('what'), ' expected same identifier:', r.get('expect_same'), ' A == B:', a == b)
    return 1
