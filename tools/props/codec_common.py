"""Shared by C05 / C06 / C07: structured generator of isotherms (three classes x unit configurations x data shapes x
metadata), construction of the REAL pyGAPS objects, the abstraction of a real object to the Coq model state
(Codec/JsonDoc.v `iso`), Python value -> Coq `pyval` literals, and observation / comparison helpers."""
import copy
import math
import random

import numpy as np
import pandas as pd

import vlib
from props import c01

PREPS, LREPS, MREPS = c01.PREPS, c01.LREPS, c01.MREPS
UNIT_ORDER = ['pressure_mode', 'pressure_unit', 'material_basis', 'material_unit', 'loading_basis', 'loading_unit', 'temperature_unit']
ADSORBATES = ['N2', 'nitrogen', 'CO2', 'water', 'verif_gas', 'Gás-ü']   # registry names / aliases and unknown names
MODELS = None

HEADER = """From Coq Require Import QArith ZArith String List Bool Ascii.
From PG Require Import Lib.Num Lib.Py Lib.Show Codec.PyVal Gen.TablesGen Codec.JsonDoc.
Import ListNotations. Open Scope string_scope. Open Scope list_scope.
Definition bs (l : list nat) : string := fold_right (fun n s => String (ascii_of_nat n) s) EmptyString l.
"""


# ------------------------------------------------------------------ Python value -> Coq literal
def cstr(s):
    b = s.encode('utf8')
    if all(32 <= c < 127 for c in b):
        return '"%s"' % s.replace('"', '""')
    return '(bs [%s]%%nat)' % ';'.join(str(c) for c in b)


def cval(x):
    """Python value (incl. numpy scalars) -> Coq pyval term; typed (bool / int / float are different)"""
    if x is None:
        return 'VNone'
    if isinstance(x, (bool, np.bool_)):
        return '(VBool %s)' % ('true' if x else 'false')
    if isinstance(x, (int, np.integer)):
        return '(VInt (%d)%%Z)' % int(x)
    if isinstance(x, (float, np.floating)):
        x = float(x)
        if x != x:
            return 'VNaN'
        if x in (float('inf'), float('-inf')):
            return '(VInf %s)' % ('true' if x < 0 else 'false')
        return '(VFloat %s)' % vlib.flit(x)
    if isinstance(x, str):
        return '(VStr %s)' % cstr(x)
    if isinstance(x, list):
        return '(VList [%s])' % '; '.join(cval(v) for v in x)
    if isinstance(x, tuple):
        return '(VTuple [%s])' % '; '.join(cval(v) for v in x)
    if isinstance(x, dict):
        return '(VDict %s)' % cdict(x)
    if x is pd.NA or x is pd.NaT:
        return 'VNaN'
    return 'VOpaque'


def cdict(d):
    return '[%s]' % '; '.join('(%s, %s)' % (cstr(str(k)), cval(v)) for k, v in d.items())


# ------------------------------------------------------------------ generators
TEXT = ['zeolite 13X', 'Häagen-Dazs µ-pore', '活性炭', 'naïve café', 'a_b', 'x', 'Cu-BTC', 'emoji \U0001F600', 'tab\there', "it's", 'semi;colon',
        'slash/back\\', 'UPPER lower', '°C', 'sample #3', 'q=1']
NUMLIKE = ['12', '007', '-3', '+4', '1e5', '1E-3', '3.14', '.5', '5.', '0x10', '1_000', 'nan', 'NaN', 'inf', '-Infinity', 'infinity', '١٢٣', '²', '½', '1,5', '1 2']
BOOLLIKE = ['True', 'true', 'FALSE', 'false', 'tRuE']
NONELIKE = ['None', 'none', 'NONE', '']
LISTLIKE = ['[1 2]', '[a]', '[]', '(1 2)', '[1, 2]']
BLANKS = [' lead', 'trail ', '  both  ']
INTS = [0, 1, 7, 42, -1, -5, 2 ** 31, 2 ** 53 + 1, 10 ** 20, -10 ** 25, 12345678901234567890]
FLOATS = [0.5, -1.5e-7, 1e-320, 1e308, 2.0, 1e22, 1e16, 0.1, 3.141592653589793, -0.25, 123456.789, 5e-324, 1.7976931348623157e308, 0.0, 1e-7, 100.0]
KEYS_PLAIN = ['operator', 'batch', 'comment', 'iso_type', 'lab', 'date', 'user', 'project', 'DOI', 'Größe', 'キー', 'k1', 'k2', 'note_2', 'instrument']
KEYS_BLANK = ['my key', 'sample id', ' odd', 'a b c']


def gen_value(rnd, domain, depth=0):
    """domain: 'json' (any JSON-representable value), 'flat' (CSV/AIF value domain: None, bool, int, float, plain text, flat list),
    'scalar' (Excel: scalars)"""
    r = rnd.random()
    if r < 0.22:
        return rnd.choice(TEXT)
    if r < 0.34:
        return rnd.choice(INTS)
    if r < 0.46:
        return rnd.choice(FLOATS) if rnd.random() < 0.7 else rnd.uniform(-1e3, 1e3)
    if r < 0.54:
        return rnd.random() < 0.5
    if r < 0.58:
        return None
    if r < 0.70:   # text spelled like something else
        return rnd.choice(rnd.choice([NUMLIKE, BOOLLIKE, NONELIKE, LISTLIKE, BLANKS]))
    if domain == 'scalar' or depth >= 2:
        return rnd.choice(TEXT)
    if r < 0.85:
        n = rnd.randint(0, 4)
        if domain == 'flat':
            kind = rnd.choice(['int', 'float', 'bool', 'str'])
            pool = {'int': [i for i in INTS if i >= 0], 'float': FLOATS, 'bool': [True, False], 'str': ['a', 'bc', 'Cu', 'x1']}[kind]
            return [rnd.choice(pool) for _ in range(n)]
        return [gen_value(rnd, domain, depth + 1) for _ in range(n)]
    if domain == 'json':
        return {rnd.choice(KEYS_PLAIN + KEYS_BLANK): gen_value(rnd, domain, depth + 1) for _ in range(rnd.randint(0, 3))}
    return rnd.choice(TEXT)


def gen_meta(rnd, domain, nmax=6, blank_keys=True):
    ks = KEYS_PLAIN + (KEYS_BLANK if blank_keys else [])
    out = {}
    for _ in range(rnd.randint(0, nmax)):
        out[rnd.choice(ks)] = gen_value(rnd, domain)
    return out


def gen_units(rnd, force_rel=0.3):
    rp, rl, rm = rnd.choice(PREPS), rnd.choice(LREPS), rnd.choice(MREPS)
    if rnd.random() < force_rel:
        rp = rnd.choice([('relative', None), ('relative%', None)])
    if rnd.random() < force_rel:
        rl = rnd.choice([('fraction', None), ('percent', None)])
    return dict(pressure_mode=rp[0], pressure_unit=rp[1], loading_basis=rl[0], loading_unit=rl[1],
                material_basis=rm[0], material_unit=rm[1], temperature_unit=rnd.choice(['K', 'K', '°C']))


def gen_data(rnd, nmax=40):
    n = rnd.randint(1, nmax)
    shape = rnd.choice(['mono', 'mono', 'hyst', 'hyst', 'hyst', 'nonmono', 'desfirst'])
    ints = rnd.random() < 0.15
    def val(x):
        return int(round(x * 100)) if ints else x
    if shape == 'mono' or n < 3:
        p = sorted(rnd.uniform(0.001, 10) for _ in range(n))
    elif shape == 'hyst':
        k = rnd.randint(1, n - 1)
        up = sorted(rnd.uniform(0.001, 10) for _ in range(k))
        down = sorted((rnd.uniform(0.001, up[-1]) for _ in range(n - k)), reverse=True)
        p = up + down
    elif shape == 'desfirst':
        p = sorted((rnd.uniform(0.001, 10) for _ in range(n)), reverse=True)
    else:
        p = [rnd.uniform(0.001, 10) for _ in range(n)]
    p = [val(x) for x in p]
    fine = rnd.random() < 0.3       # values with more than 8 decimals
    l = [val(rnd.uniform(0, 20)) if fine or ints else round(rnd.uniform(0, 20), rnd.randint(0, 6)) for _ in range(n)]
    if not fine and not ints:
        p = [round(x, rnd.randint(3, 8)) for x in p]
    br = rnd.choice(['guess', 'guess', 'ads', 'des', 'list', 'listbool'])
    if br == 'list':
        br = [rnd.randint(0, 1) for _ in range(n)] if rnd.random() < 0.5 else [0] * rnd.randint(0, n)
        br = (br + [1] * n)[:n]
    elif br == 'listbool':
        br = [rnd.random() < 0.4 for _ in range(n)]
    cols = {}
    pool = [('enthalpy', 'float'), ('alpha', 'float'), ('zeta', 'int'), ('note', 'text'), ('Ünit col', 'float'), ('flag', 'bool')]
    for name, kind in rnd.sample(pool, rnd.choice([0, 0, 1, 1, 2, 3])):
        if kind == 'float':
            cols[name] = [round(rnd.uniform(-50, 50), rnd.randint(0, 10)) for _ in range(n)]
            if rnd.random() < 0.35:      # missing measurements (e.g. a quantity recorded on one branch only)
                for k in range(n):
                    if rnd.random() < 0.4:
                        cols[name][k] = float('nan')
        elif kind == 'int':
            cols[name] = [rnd.randint(-5, 100) for _ in range(n)]
        elif kind == 'bool':
            cols[name] = [rnd.random() < 0.5 for _ in range(n)]
        else:
            cols[name] = [rnd.choice(['a', 'bb', 'ok', 'µ', 'x y']) for _ in range(n)]
    keys = ('pressure', 'loading') if rnd.random() < 0.8 else rnd.choice([('p', 'l'), ('P / bar', 'uptake'), ('pressure', 'amount')])
    return dict(pk=keys[0], lk=keys[1], p=p, l=l, branch=br, cols=cols, via=rnd.choice(['frame', 'frame', 'lists']) if not cols and keys == ('pressure', 'loading') else 'frame')


def model_table():
    global MODELS
    if MODELS is None:
        from pygaps.modelling import _MODELS, get_isotherm_model
        MODELS = {}
        for name in _MODELS:
            m = get_isotherm_model(name)
            MODELS[name] = list(m.param_names)
    return MODELS


def gen_model(rnd):
    name = rnd.choice(sorted(model_table()))
    params = {p: rnd.choice([rnd.uniform(0.01, 10), round(rnd.uniform(0.01, 10), 3), float(rnd.randint(1, 9))]) for p in MODELS[name]}
    return dict(name=name, params=params, rmse=rnd.choice([rnd.uniform(0, 1), 0.0, 1e-12]),
                prange=(round(rnd.uniform(0, 1), 4), round(rnd.uniform(1, 100), 4)), lrange=(0.0, rnd.uniform(1, 30)),
                branch=rnd.choice(['ads', 'ads', 'des']))


def model_via(m):
    """'ctor' (values handed to the model constructor) or 'assign' (attributes set on the instance, as ModelIsotherm's fit does);
    derived from the spec itself so that the random stream of the generators is unchanged"""
    if m.get('via'):
        return m['via']
    return 'ctor' if random.Random(repr(sorted(m['params'].items()))).random() < 0.3 else 'assign'


def gen_spec(rnd, domain='json', cls=None, blank_keys=True, mat_nested=True):
    cls = cls or rnd.choice(['base', 'point', 'point', 'point', 'model'])
    mprops = {}
    if rnd.random() < 0.5:
        if rnd.random() < 0.7:
            mprops['density'] = rnd.choice([2.1, 1.0, 0.55])
        if rnd.random() < 0.5:
            mprops['molar_mass'] = rnd.choice([60.08, 100.0])
        for _ in range(rnd.randint(0, 2)):
            mprops[rnd.choice(['batch', 'supplier', 'form', 'Größe'])] = gen_value(rnd, domain if mat_nested else 'scalar')
    spec = dict(cls=cls, units=gen_units(rnd), material=rnd.choice(['verif_m1', 'MOF-5 (α)', 'carbon x']), mprops=mprops,
                adsorbate=rnd.choice(ADSORBATES), temperature=rnd.choice([77, 77.355, 298.15, 303.0, 25, 0.5, 1e3]),
                meta=gen_meta(rnd, domain, blank_keys=blank_keys))
    if cls == 'point':
        spec['data'] = gen_data(rnd)
    if cls == 'model':
        spec['model'] = gen_model(rnd)
    return spec


# ------------------------------------------------------------------ real objects
def build(spec):
    import pygaps
    kw = dict(spec['units'])
    kw.update(copy.deepcopy(spec['meta']))
    mat = dict(name=spec['material'], **copy.deepcopy(spec['mprops'])) if spec['mprops'] else spec['material']
    kw.update(material=mat, adsorbate=spec['adsorbate'], temperature=spec['temperature'])
    if spec['cls'] == 'base':
        from pygaps.core.baseisotherm import BaseIsotherm
        return BaseIsotherm(**kw)
    if spec['cls'] == 'model':
        from pygaps.modelling import get_isotherm_model
        m = spec['model']
        if model_via(m) == 'ctor':
            mi = get_isotherm_model(m['name'], parameters=dict(m['params']), pressure_range=m['prange'], loading_range=m['lrange'], rmse=m['rmse'])
        else:
            # the way a fit fills a model in: the instance first, then the parameters, the ranges and the fit error as ATTRIBUTES
            # (the constructor is then not the only code that has seen the values: a constructor that normalises a value is visible)
            mi = get_isotherm_model(m['name'])
            for p in m['params']:
                mi.params[p] = m['params'][p]
            mi.pressure_range, mi.loading_range, mi.rmse = m['prange'], m['lrange'], m['rmse']
        return pygaps.ModelIsotherm(model=mi, branch=m['branch'], **kw)
    d = spec['data']
    br = d['branch']
    if d['via'] == 'lists':
        return pygaps.PointIsotherm(pressure=list(d['p']), loading=list(d['l']), branch=br if isinstance(br, str) else list(br), **kw)
    cols = {d['pk']: d['p'], d['lk']: d['l']}
    cols.update(d['cols'])
    df = pd.DataFrame(cols)
    if d.get('index') is not None:
        df.index = d['index']
    return pygaps.PointIsotherm(isotherm_data=df, pressure_key=d['pk'], loading_key=d['lk'], branch=br if isinstance(br, str) else list(br), **kw)


def py(x):
    """numpy scalar -> Python native of the same kind"""
    if isinstance(x, np.bool_):
        return bool(x)
    if isinstance(x, np.integer):
        return int(x)
    if isinstance(x, np.floating):
        return float(x)
    return x


def is_des(b):
    b = py(b)
    if isinstance(b, str):
        return b == 'des'
    try:
        return not (b == 0)
    except Exception:  # noqa
        return True


def observe(iso):
    """the state of a real isotherm object as plain Python data (the abstraction function's input)"""
    import pygaps
    o = dict(cls='point' if isinstance(iso, pygaps.PointIsotherm) else 'model' if isinstance(iso, pygaps.ModelIsotherm) else 'base',
             units=[getattr(iso, u) for u in UNIT_ORDER], material=iso.material.name, mprops=dict(iso.material.properties),
             adsorbate=str(iso.adsorbate), temperature=iso._temperature, meta=dict(iso.properties))
    if o['cls'] == 'point':
        df = iso.data_raw
        cols = [c for c in df.columns if c != 'branch']
        o['pk'], o['lk'] = iso.pressure_key, iso.loading_key
        o['columns'] = list(df.columns)
        o['dtypes'] = {c: str(df[c].dtype) for c in df.columns}
        o['index'] = [py(x) for x in df.index]
        o['rows'] = [({c: py(df[c].iloc[k]) for c in cols}, is_des(df['branch'].iloc[k])) for k in range(len(df))]
        o['branch_raw'] = [py(x) for x in df['branch']]
        o['caches'] = (iso.l_interpolator is not None, iso.p_interpolator is not None)
    if o['cls'] == 'model':
        m = iso.model
        o['model'] = dict(name=m.name, rmse=py(m.rmse), params={k: py(v) for k, v in m.params.items()},
                          prange=tuple(py(x) for x in m.pressure_range) if isinstance(m.pressure_range, tuple) else [py(x) for x in m.pressure_range],
                          lrange=tuple(py(x) for x in m.loading_range) if isinstance(m.loading_range, tuple) else [py(x) for x in m.loading_range])
        o['mbranch'] = iso.branch
    return o


def coq_iso(o, caches=('VNone', 'VNone')):
    """abstraction: observed object state -> Coq term of type JsonDoc.iso"""
    if o['cls'] == 'base':
        body = 'BBase'
    elif o['cls'] == 'point':
        rows = '; '.join('(mkRow %s %s)' % (cdict(c), 'true' if d else 'false') for c, d in o['rows'])
        body = '(BPoint %s %s [%s] %s %s)' % (cstr(o['pk']), cstr(o['lk']), rows, caches[0], caches[1])
    else:
        m = o['model']
        body = '(BModel %s (mkModel %s %s %s %s %s))' % (cval(o['mbranch']), cstr(m['name']), cval(m['rmse']), cdict(m['params']), cval(m['prange']), cval(m['lrange']))
    return '(mkIso [%s] %s %s %s %s %s %s)' % ('; '.join(cval(u) for u in o['units']), cstr(o['material']), cdict(o['mprops']), cstr(o['adsorbate']),
                                             cval(o['temperature']), cdict(o['meta']), body)


def ads_canon_table():
    """the adsorbate registry as the model sees it: name -> canonical name (an oracle, read from the implementation)"""
    import pygaps
    tab = []
    for a in ADSORBATES:
        try:
            tab.append((a, str(pygaps.Adsorbate.find(a))))
        except Exception:  # noqa
            tab.append((a, a))
    return '[%s]' % '; '.join('(%s, %s)' % (cstr(a), cstr(b)) for a, b in tab)


# ------------------------------------------------------------------ typed comparison on the Python side (property oracle only)
def same_value(a, b):
    """equal value AND equal type (1 vs 1.0 vs True differ); dicts as maps; NaN equals NaN"""
    a, b = py(a), py(b)
    if isinstance(a, float) and isinstance(b, float) and a != a and b != b:
        return True
    if type(a) is not type(b):
        return False
    if isinstance(a, dict):
        return set(a) == set(b) and all(same_value(a[k], b[k]) for k in a)
    if isinstance(a, (list, tuple)):
        return len(a) == len(b) and all(same_value(x, y) for x, y in zip(a, b))
    return a == b


def first_diff(a, b):
    for k in list(a) + [k for k in b if k not in a]:
        if k not in a or k not in b or not same_value(a[k], b[k]):
            return k, a.get(k, '<missing>'), b.get(k, '<missing>')
    return None


# ------------------------------------------------------------------ read-only queries (histories before an export / identifier read)
# Every public method of the class that is not a constructor route (from_*, guess), an in-place conversion (convert*), a plot
# (plot, print_info) or an export that needs a target (to_xl, to_db) is a read-only query; so is every public property.
# The methods are DISCOVERED on the class (a new query method is picked up and called without arguments); the table below only
# supplies argument choices for the methods that need some.
QUERY_EXCLUDE = ('convert', 'from_', 'guess', 'plot', 'print_info', 'to_xl', 'to_db')


def query_names(iso):
    cls = type(iso)
    meths, props = [], []
    for n in sorted(dir(cls)):
        if n.startswith('_') or n.startswith(QUERY_EXCLUDE):
            continue
        a = getattr(cls, n, None)
        if isinstance(a, property):
            props.append(n)
        elif callable(a):
            meths.append(n)
    return meths, props


def _unit_kwargs(iso, rnd, pressure=True, loading=True):
    """optional unit arguments of a query (the value is RETURNED in another unit; the isotherm must stay as it is)"""
    kw = {}
    if pressure and rnd.random() < 0.35:
        if iso.pressure_mode == 'absolute':
            kw.update(rnd.choice([{'pressure_unit': 'Pa'}, {'pressure_unit': 'kPa'}, {'pressure_mode': 'relative'}, {'pressure_mode': 'relative%'}]))
        else:
            kw.update(rnd.choice([{'pressure_mode': 'absolute', 'pressure_unit': 'bar'}, {'pressure_mode': 'relative%' if iso.pressure_mode == 'relative' else 'relative'}]))
    if loading and rnd.random() < 0.35:
        kw.update(rnd.choice([{'loading_unit': 'mol'} if iso.loading_basis == 'molar' else {'loading_basis': 'molar', 'loading_unit': 'mmol'},
                              {'loading_basis': 'mass', 'loading_unit': 'g'}, {'material_unit': 'kg'} if iso.material_basis == 'mass' else
                              {'material_basis': 'mass', 'material_unit': 'g'},
                              {'material_basis': 'volume', 'material_unit': 'cm3'}, {'material_basis': 'molar', 'material_unit': 'mmol'}]))
    return kw


def one_query(iso, name, rnd):
    """call one discovered query with drawn arguments -> short description; exceptions of the query are not our business"""
    import pygaps
    point = isinstance(iso, pygaps.PointIsotherm)
    model = isinstance(iso, pygaps.ModelIsotherm)
    have = ['ads', 'des']
    if point:
        try:      # the branches that hold points (read from the table, not through the isotherm)
            marks = [is_des(b) for b in iso.data_raw['branch']]
            have = [b for b, m in (('ads', False), ('des', True)) if m in marks] or have
        except Exception:  # noqa
            pass

    def a_branch():
        return rnd.choice(have) if rnd.random() < 0.85 else rnd.choice(['ads', 'des'])
    br = rnd.choice([None, a_branch(), a_branch()])
    args, kw = (), {}
    try:
        if point:
            ps = [float(x) for x in iso.data_raw[iso.pressure_key]]
            ls = [float(x) for x in iso.data_raw[iso.loading_key]]
        elif model:
            ps = [float(x) for x in iso.model.pressure_range]
            ls = [float(x) for x in iso.model.loading_range]
        else:
            ps = ls = [1.0]
        lo_p, hi_p, lo_l, hi_l = min(ps), max(ps), min(ls), max(ls)
    except Exception:  # noqa
        lo_p, hi_p, lo_l, hi_l = 0.1, 1.0, 0.1, 1.0

    def inside(lo, hi, below=0.08):
        r = rnd.random()
        x = lo + (hi - lo) * rnd.random()
        return lo * 0.5 if r < below else x        # below the first point (extrapolation region) or inside the range
    if name == 'pressure' or name == 'loading':
        kw = _unit_kwargs(iso, rnd, pressure=(name == 'pressure'), loading=(name == 'loading'))
        if rnd.random() < 0.6:
            kw['branch'] = br
        if rnd.random() < 0.3:
            kw['limits'] = (lo_p, hi_p) if name == 'pressure' else (lo_l, hi_l)
        if rnd.random() < 0.3:
            kw['indexed'] = True
        if model:
            kw['points'] = rnd.choice([3, 5])
            if name == 'loading' and iso.model.calculates != 'loading' or name == 'pressure' and iso.model.calculates == 'loading':
                pass
    elif name in ('data', 'has_branch'):
        args = (rnd.choice(['ads', 'des']),) if name == 'has_branch' else ()
        if name == 'data' and rnd.random() < 0.6:
            kw['branch'] = br
    elif name == 'other_data':
        keys = list(getattr(iso, 'other_keys', []) or [])
        args = (rnd.choice(keys) if keys else 'enthalpy',)
        if rnd.random() < 0.5:
            kw['branch'] = br
    elif name == 'loading_at':
        x = inside(lo_p, hi_p)
        args = (rnd.choice([x, [x], [x, inside(lo_p, hi_p)]]),)
        kw = _unit_kwargs(iso, rnd) if rnd.random() < 0.5 else {}
        if point:
            kw['branch'] = a_branch()
            if rnd.random() < 0.3:
                kw['interpolation_type'] = rnd.choice(['slinear', 'nearest', 'quadratic'])
            if rnd.random() < 0.3:
                kw['interp_fill'] = rnd.choice([0.0, 'extrapolate', (0.0, 1.0)])
    elif name == 'pressure_at':
        x = inside(lo_l, hi_l)
        args = (rnd.choice([x, [x], [x, inside(lo_l, hi_l)]]),)
        kw = _unit_kwargs(iso, rnd) if rnd.random() < 0.5 else {}
        if point:
            kw['branch'] = a_branch()
            if rnd.random() < 0.3:
                kw['interp_fill'] = rnd.choice([0.0, 'extrapolate'])
    elif name == 'spreading_pressure_at':
        x = inside(lo_p, hi_p, 0.3)
        args = (rnd.choice([x, x, x, x, [x], [x, inside(lo_p, hi_p)]]),)
        kw = _unit_kwargs(iso, rnd, loading=point) if rnd.random() < 0.4 else {}
        if point:
            kw['branch'] = a_branch()
            if rnd.random() < 0.2:
                kw['interp_fill'] = 0.0
    elif name in ('to_json', 'to_csv', 'to_aif', 'to_dict'):
        pass
    what = '%s(%s)' % (name, ', '.join([repr(a)[:40] for a in args] + ['%s=%r' % kv for kv in kw.items()]))
    import warnings
    with warnings.catch_warnings():
        warnings.simplefilter('ignore')
        try:
            getattr(iso, name)(*args, **kw)
        except Exception as e:  # noqa
            what += ' -> ' + type(e).__name__
    return what


def run_queries(iso, rnd, n=None, slow_ok=True):
    """a random history of read-only queries on a live isotherm -> list of descriptions"""
    import pygaps
    meths, props = query_names(iso)
    if isinstance(iso, pygaps.ModelIsotherm) and not slow_ok:
        meths = [m for m in meths if m not in ('pressure_at', 'loading_at', 'spreading_pressure_at')]
    extra = ['str', 'repr', 'eq', 'in']
    pool = meths * 3 + props + extra
    out = []
    for _ in range(n if n is not None else rnd.randint(1, 6)):
        name = rnd.choice(pool)
        if name in extra:
            try:
                {'str': lambda: str(iso), 'repr': lambda: repr(iso), 'eq': lambda: iso == iso, 'in': lambda: iso in [iso]}[name]()
            except Exception:  # noqa
                pass
            out.append(name)
        elif name in props:
            try:
                getattr(iso, name)
            except Exception:  # noqa
                pass
            out.append('.' + name)
        else:
            out.append(one_query(iso, name, rnd))
    return out
