"""C11 - spreading pressure equals the integral of loading over ln p.

proof phase   : Props/C11.v - per model (definitions GENERATED from spreading_pressure()/loading(), Gen/FormulasGen.v): Gibbs identity
                p * dPi/dp = n(p) as a Coquelicot derivative, Pi(0) = 0, Pi(p) - Pi(a) = RInt (n(x)/x) a p incl. a = 0, monotonicity;
                point isotherms: hand-written model of PointIsotherm.spreading_pressure_at (Models/SpreadPoint.v) = integral of
                the Henry-continued piecewise-linear interpolant over x, by induction over the row list
correspondence: closed forms: translator IR in binary64 vs spreading_pressure(); interval goals inside Coq; quad-based models:
                implementation's Pi(p) - Pi(a) inside a certified enclosure of the integral of the generated integrand;
                point isotherms: the hand model evaluated inside Coq on the rows of random isotherms vs spreading_pressure_at
oracle/search : on the implementation: p dPi/dp == n (Richardson central differences), Pi(p) - Pi(q) and Pi(p) vs numerical quadrature
                of the implementation's own loading(x)/x, Pi(0) == 0, increasing; ModelIsotherm.spreading_pressure_at converts first;
                PointIsotherm.spreading_pressure_at - on a FRESH isotherm AND on one that has answered other calls - vs quadrature of its
                own interpolant; range guard: above the data CalculationError, below the first point the Henry value (Models/SpreadPoint.v
                sp_point_at); statelessness: the same model OBJECT re-parametrised and asked again at pressures already seen == a fresh model;
                point isotherms AFTER HISTORIES of queries and permanent conversions (convert_pressure unit / mode, convert_loading unit-only /
                basis, convert_material unit-only / basis, convert(...)): after every conversion spreading_pressure_at is compared with
                Models/SpreadPoint.v executed inside Coq on the isotherm's CURRENT rows and with a fresh twin holding those rows
"""
import math
import random

import numpy as np

import vlib
import formulas_lib as fl
from formulas_lib import SPECS

MANIFEST = dict(
    text="Machine-checked (Coq 8.16 + Coquelicot) theorems over the definitions GENERATED on every run from spreading_pressure()/loading(): for the nine "
         "closed-form models (Henry, Langmuir, DS/TS-Langmuir, Quadratic, BET, GAB, TemkinApprox, Freundlich) the Gibbs identity is_derive Pi p (n(p)/p) "
         "for ALL parameters in bounds and ALL pressures of the validity range, Pi(0) = 0, the integral form is_RInt (n(x)/x) a p (Pi p - Pi a) including "
         "a = 0 where the integrand extends continuously (Freundlich: a > 0), and monotonicity; TemkinApprox: Pi(0) = n_m*theta/2 is PROVED non-zero "
         "(refuted clause; its differences and derivative are right). Toth / Jensen-Seaton / DR / DA: Pi is the integral by construction (generated as RInt), "
         "scipy.integrate.quad is an oracle checked against coq-interval enclosures of the generated integrand. Point isotherms: a hand-written Gallina "
         "transcription of PointIsotherm.spreading_pressure_at is proved, by induction over ARBITRARY row lists with strictly increasing positive pressures, "
         "to equal the integral from 0 to p of interpolant(x)/x (Henry line below the first point, linear interpolation above), plus additivity; the "
         "transcription is executed inside Coq against the implementation on random isotherms, query positions (below / at knots / between / at the edge) "
         "and unit arguments, and on isotherms that have been queried and permanently converted (unit-only and basis / mode conversions of pressure, loading, "
         "material) on their CURRENT rows, next to a fresh twin holding the same rows.",
    note="Trusted: Coq kernel; Reals/Coquelicot axioms; translator tools/py2v_formulas.py (validated by IR re-evaluation and interval goals); the hand model "
         "SpreadPoint.v is tied by execution on sampled isotherms only; scipy interp1d (= linear interpolation) and scipy.integrate.quad are oracles; unit "
         "conversion of the rows is taken from the isotherm's own accessors (C03); IEEE rounding excluded. The cached-interpolator range guard is C04's.",
    technique="Coq proof (auto_derive / is_RInt_derive / Chasles, induction over rows) on generated formulas + hand model; interval-arithmetic correspondence; numerical-quadrature search")

# quad-based models: the implementation calls scipy.integrate.quad with default tolerances. Measured on 300 random in-bounds cases per model
# (relative deviation from an adaptive quadrature with epsrel 1e-12 of the implementation's own loading(x)/x):
#   Toth, Jensen-Seaton: Gibbs (Richardson differences) <= 3e-8, interval <= 1e-8, from 0 <= 7e-9  -> judged at 1e-4 / 1e-5 / 1e-5
#   DR, DA (integrand exp(-(RT ln(1/x)/e)^m)/x, steep near 0; scipy warns 'maximum number of subdivisions'): the returned Pi carries an ABSOLUTE
#   error of up to ~1e-4 Pi, so an interval difference is judged relative to Pi(p) (2e-3), from 0 at 1e-4, and the finite-difference Gibbs test
#   (which amplifies that noise by 1/h; observed up to 0.37) only catches gross errors (0.5).
# The property does not fix a tolerance; the exact statement for these models is the Coq theorem *_spreading_is_quad_of_own_loading.
QUAD_TOL = {'Toth': dict(gibbs=1e-4, additive=1e-5, from0=1e-5, additive_rel_to_total=False),
            'JensenSeaton': dict(gibbs=1e-4, additive=1e-5, from0=1e-5, additive_rel_to_total=False),
            'DR': dict(gibbs=0.5, additive=2e-3, from0=1e-4, additive_rel_to_total=True),
            'DA': dict(gibbs=0.5, additive=2e-3, from0=1e-4, additive_rel_to_total=True)}
FUN_TOL = dict(gibbs=2e-6, additive=1e-9, from0=1e-9)


def classify(name, params, clause, extra=None):
    if name == 'TemkinApprox' and params.get('tht', 0) != 0 and clause in ('zero', 'from0'):
        return 'C11:TemkinApprox-spreading-constant-offset'
    if clause == 'modeliso-relative-refused':
        return 'C11:ModelIsotherm-relative-mode-refused'
    return 'C11:unclassified:%s:%s' % (name, clause)


def Pi_of(m):
    return lambda x: float(np.ravel(m.spreading_pressure(x))[0])


def run(rep, tier, seed):
    vlib.standard_proof_phase(rep, 'C11', extra_targets=['Models/EvalTac.vo'])
    explore(rep, tier, seed)
    if rep.broken and not rep.violations and tier != 'thorough':
        explore(rep, 'thorough', seed + 1)


def rational_integrand(cls, params, attrs):
    """Coq text of loading(x)/x with literal parameters and pypow replaced by Rpower (valid for x > 0 where the bases are positive;
    the equality with the generated integrand on the integration interval is PROVED inside the goal)"""
    return None


def explore(rep, tier, seed):
    import warnings
    warnings.filterwarnings('ignore')
    np.seterr(all='ignore')
    from scipy import integrate
    rnd = random.Random(seed)
    thorough = tier == 'thorough'
    try:
        ir = fl.load_ir()
    except Exception as e:  # noqa
        rep.broken_obligation('translator:py2v_formulas(IR)', str(e)[-600:])
        ir = None
    evals = 0
    hist = {}
    nontrivial = set()
    samples = []

    def bump(k):
        hist[k] = hist.get(k, 0) + 1

    models = [n for n in sorted(SPECS) if ir is None or ir[n]['methods']['spreading_pressure']['kind'] != 'none']
    if ir is None:
        models = ['Henry', 'Langmuir', 'DSLangmuir', 'TSLangmuir', 'Quadratic', 'BET', 'GAB', 'TemkinApprox', 'Toth', 'JensenSeaton', 'Freundlich', 'DR', 'DA']
    n_val = 150 if thorough else 40
    n_goal = 40 if thorough else 6
    n_quadgoal = 6 if thorough else 2
    n_param = 40 if thorough else 8
    # ------------------------------------------------------------ translator validation + interval goals
    goals, quad_goals = [], []
    val_dis = 0
    if ir is not None:
        for name in models:
            cls, sp = ir[name], SPECS[name]
            mk = cls['methods']['spreading_pressure']
            for i in range(n_val if mk['kind'] == 'fun' else n_quadgoal):
                params, attrs = fl.sample_case(name, rnd)
                m = fl.make_model(name, params, attrs)
                lo, hi = sp.prange(params)
                p = fl.r3(math.exp(rnd.uniform(math.log(lo), math.log(hi))))
                evals += 1
                if mk['kind'] == 'fun':
                    impl = Pi_of(m)(p)
                    mine = fl.ir_call(cls, 'spreading_pressure', params, attrs, p)
                    bump('validate:spreading')
                    if not vlib.close(impl, mine, rtol=1e-11, atol=1e-300):
                        val_dis += 1
                        if val_dis <= 5:
                            rep.broken_obligation('translator-validation:%s.spreading_pressure' % name,
                                                  {'params': params, 'attrs': attrs, 'x': p, 'implementation': impl, 'generated formula (binary64)': mine})
                    elif i < n_goal:
                        goals.append(('%s.spreading_pressure %r x=%r -> %r' % (name, params, p, impl),
                                      fl.formula_goal(cls, 'spreading_pressure', params, attrs, p, impl)))
                elif mk['kind'] == 'quad':
                    # implementation's Pi(p) - Pi(a), 0 < a < p, inside a certified enclosure of the integral of the GENERATED integrand
                    a = fl.r3(p * rnd.uniform(0.3, 0.7))
                    if name in ('DR', 'DA'):
                        p = min(p, 0.95); a = fl.r3(p * 0.5)
                    d = Pi_of(m)(p) - Pi_of(m)(a)
                    bump('quad-certificate')
                    quad_goals.append(('%s: Pi(%r) - Pi(%r) = %r %r %r' % (name, p, a, d, params, attrs), integral_goal(cls, params, attrs, a, p, d)))
        failed = []
        try:
            _, failed = fl.run_goals('c11i', goals)
            _, f2 = fl.run_goals('c11q', quad_goals, per_file=1, timeout=240)
            failed += f2
        except Exception as e:  # noqa
            rep.broken_obligation('correspondence:interval-goals', str(e)[-600:])
        for label, msg in failed[:5]:
            rep.broken_obligation('correspondence:interval-goal', {'case': label, 'coq': msg})
        rep.cov['correspondence'] = {'ir_binary64_points': hist.get('validate:spreading', 0), 'ir_disagreements': val_dis, 'interval_goals': len(goals),
                                     'integral_enclosure_goals': len(quad_goals), 'goals_failed': len(failed),
                                     'tolerance': 'closed forms rel 1e-9 + abs 1e-12; integrals (scipy quad, default tolerances) rel 2e-3'}

    # ------------------------------------------------------------ property oracle: models
    for name in models:
        sp = SPECS[name]
        is_quad = ir is not None and ir[name]['methods']['spreading_pressure']['kind'] == 'quad'
        tol = QUAD_TOL.get(name, QUAD_TOL['DR']) if is_quad else FUN_TOL
        for _ in range(n_param if not is_quad else max(3, n_param // 2)):
            params, attrs = fl.sample_case(name, rnd)
            m = fl.make_model(name, params, attrs)
            Pi = Pi_of(m)
            load = lambda x: float(np.ravel(m.loading(x))[0])
            lo, hi = sp.prange(params)
            if name in ('DR', 'DA'):
                lo, hi = 1e-3, 0.9
            p = fl.r3(math.exp(rnd.uniform(math.log(lo * 3), math.log(hi * 0.8))))
            q = fl.r3(p * rnd.uniform(0.2, 0.8))
            rp = {'model': name, 'params': params, 'attrs': attrs, 'p': p, 'q': q}

            def fail(clause, what):
                rep.failure(classify(name, params, clause), what, dict(rp, clause=clause))
            try:
                # Gibbs identity by Richardson-extrapolated central differences in ln p
                h = 0.02
                D = lambda hh: (Pi(p * (1 + hh)) - Pi(p * (1 - hh))) / (2 * hh)
                d = (4 * D(h / 2) - D(h)) / 3
                n = load(p)
                evals += 5
                ok = abs(d - n) <= tol['gibbs'] * abs(n)
                bump('gibbs:' + ('ok' if ok else 'FAIL'))
                if not ok:
                    fail('gibbs', '%s: p*dPi/dp = %r but loading(p) = %r at p=%r (params %r)' % (name, d, n, p, params))
                # additivity over an interval, against quadrature of the implementation's own loading(x)/x
                I = integrate.quad(lambda x: load(x) / x, q, p, epsabs=1e-13, epsrel=1e-12, limit=200)[0]
                dd = Pi(p) - Pi(q)
                evals += 1
                ok = abs(dd - I) <= tol['additive'] * (max(abs(I), abs(Pi(p))) if tol.get('additive_rel_to_total') else abs(I))
                bump('additive:' + ('ok' if ok else 'FAIL'))
                if ok:
                    nontrivial.add((name, tuple(sorted(params.items())), p, q))
                else:
                    fail('additive', '%s: Pi(%r) - Pi(%r) = %r but the integral of loading(x)/x is %r (params %r)' % (name, p, q, dd, I, params))
                # from the origin
                I0 = integrate.quad(lambda x: load(x) / x, 0, p, epsabs=1e-13, epsrel=1e-12, limit=400)[0]
                v = Pi(p)
                evals += 1
                ok = abs(v - I0) <= tol['from0'] * abs(I0)
                bump('from0:' + ('ok' if ok else 'FAIL'))
                if not ok:
                    fail('from0', '%s: Pi(%r) = %r but the integral of loading(x)/x from 0 is %r (params %r)' % (name, p, v, I0, params))
                z = Pi(0.0)
                evals += 1
                if not abs(z) <= 1e-12:
                    fail('zero', '%s: Pi(0) = %r (params %r)' % (name, z, params))
                bump('zero:' + ('ok' if abs(z) <= 1e-12 else 'FAIL'))
                grid = [lo * (hi * 0.9 / lo) ** (k / 11.0) for k in range(12)]
                vals = [Pi(x) for x in grid]
                evals += 1
                if sp.monotone(params) and any(b < a - 1e-9 * max(1.0, abs(a)) for a, b in zip(vals, vals[1:])):
                    fail('increasing', '%s: Pi decreases on %r: %r (params %r)' % (name, grid, vals, params))
            except Exception as e:  # noqa
                fail('exception', '%s: %s: %s' % (name, type(e).__name__, str(e)[:120]))
            if len(samples) < 5 and rnd.random() < 0.08:
                samples.append({'model': name, 'params': params, 'p': p, 'Pi(p)': Pi(p), 'loading(p)': load(p)})
            # ---- "of that same isotherm": the value belongs to the object's CURRENT parameters. Same object, parameters replaced, asked again at
            # pressures it has already answered (p, q, the grid end) == a freshly built model with the new parameters (memoisation keyed on the
            # pressure alone, derived quantities computed once ... would show here)
            evals += stale_after_reparametrisation(rep, name, m, params, attrs, [p, q, fl.r3(hi * 0.5)], rnd, bump)
    # ------------------------------------------------------------ ModelIsotherm.spreading_pressure_at converts the pressure first
    try:
        evals += model_isotherm_spreading(rep, rnd, 10 if thorough else 4, bump)
    except Exception as e:  # noqa
        rep.broken_obligation('oracle:ModelIsotherm.spreading_pressure_at', repr(e)[-400:])
    # ------------------------------------------------------------ point isotherms
    try:
        n_pt, pt_failed, pt_cases = point_isotherms(rep, rnd, 60 if thorough else 14, bump, nontrivial)
        evals += n_pt
        rep.cov.setdefault('correspondence', {})['point_isotherm_goals'] = pt_cases
        rep.cov['correspondence']['point_isotherm_goals_failed'] = pt_failed
    except Exception as e:  # noqa
        import traceback
        rep.broken_obligation('correspondence:point-isotherm', traceback.format_exc()[-800:])
    # ------------------------------------------------------------ point isotherms after histories of queries and permanent conversions
    try:
        n_h, h_failed, h_cases = point_isotherm_histories(rep, rnd, 40 if thorough else 10, bump, nontrivial)
        evals += n_h
        rep.cov.setdefault('correspondence', {})['point_history_goals'] = h_cases
        rep.cov['correspondence']['point_history_goals_failed'] = h_failed
    except Exception as e:  # noqa
        import traceback
        rep.broken_obligation('correspondence:point-isotherm-histories', traceback.format_exc()[-800:])
    rep.cov['evaluations'] += evals
    rep.cov['distinct_nontrivial'] = len(nontrivial)
    rep.cov['rule'] = ('models: random parameter vectors strictly inside the bounds x one pressure p of the validity range and one q in (0.2p, 0.8p): Gibbs identity by '
                       'Richardson central differences, Pi(p)-Pi(q) and Pi(p) against adaptive quadrature of the implementation\'s loading(x)/x, Pi(0), a 12-point grid; '
                       'every model object is then re-parametrised and asked again at the pressures it has already answered (== a fresh model); '
                       'point isotherms: random strictly increasing pressures (4-9 rows) with Langmuir / random / S-shaped / plateau (consecutive equal loadings) data x query '
                       'pressures below the first point / at knots / between / beyond a flat segment / at the edge / just above and far above x unit arguments, each on a fresh '
                       'isotherm AND on one isotherm per data set that has answered 1-4 other calls (interpolations with and without fill values, refused calls); histories: per data set a first '
                       'interpolation, then random steps (queries; convert_loading unit-only / basis; convert_material unit-only / basis; convert_pressure unit / mode; convert(...)) until 3 '
                       'conversions succeeded, after each conversion 2 queries (below / knots / between / last segment / edge) against the Coq model on the current rows and a fresh twin. non-trivial = distinct (model, parameters, p, q) whose interval integral agreed + distinct '
                       '(isotherm, query, units) whose Coq evaluation agreed at a pressure above the first data point')
    rep.cov['input_distribution'] = dict(sorted(hist.items()))
    rep.cov['samples'] += samples
    rep.cov['trusted_base'] += ['translator tools/py2v_formulas.py (validated: IR in binary64 + interval goals)', 'hand model Models/SpreadPoint.v (executed against the implementation)',
                                'oracles: scipy.integrate.quad, scipy.interpolate.interp1d; isotherm accessors pressure()/loading() for unit arguments (C03)']
    rep.assumptions += ['pressures of the validity range (N p < 1, K p < 1, 0 < p <= 1 for DR/DA)', 'point isotherms: strictly increasing positive pressures, non-decreasing loadings; calls without interp_fill',
                        'tolerances: closed forms 1e-9 (integral) / 2e-6 (derivative); Toth, Jensen-Seaton 1e-5 / 1e-4; DR, DA 2e-3 of Pi(p) / gross errors only; point isotherms 1e-9']


def same_outcome(a, b):
    """two (class, value) outcomes of the same deterministic computation"""
    if a[0] != b[0]:
        return False
    if a[0] != 'Ok':
        return True
    x, y = a[1], b[1]
    return (x != x and y != y) or x == y or abs(x - y) <= 1e-12 * max(abs(x), abs(y))


def call_outcome(f, *a, **kw):
    try:
        return ('Ok', float(np.ravel(f(*a, **kw))[0]))
    except Exception as e:  # noqa
        return (type(e).__name__, None)


def stale_after_reparametrisation(rep, name, m, params, attrs, seen, rnd, bump, params2=None, attrs2=None):
    """m has already evaluated spreading_pressure (and loading) at the pressures `seen` with `params`; give the SAME object new parameters
    and compare with a fresh model at the same pressures. Returns the number of evaluations."""
    if params2 is None:
        params2, attrs2 = fl.sample_case(name, rnd)
    for x in seen:                       # make sure every one of them has really been asked with the old parameters
        call_outcome(m.spreading_pressure, x), call_outcome(m.loading, x)
    m.params.update(params2)
    for k, v in attrs2.items():
        setattr(m, k, v)
    fresh = fl.make_model(name, params2, attrs2)
    n = 0
    for x in seen:
        for meth in ('spreading_pressure', 'loading'):
            a, b = call_outcome(getattr(m, meth), x), call_outcome(getattr(fresh, meth), x)
            n += 1
            ok = same_outcome(a, b)
            bump('reparametrised:%s:%s' % (meth, 'ok' if ok else 'FAIL'))
            if not ok:
                rep.failure('C11:unclassified:%s:stale-after-parameter-change:%s' % (name, meth),
                            '%s: %s(%r) on an object whose parameters were changed from %r to %r = %r, a fresh model gives %r'
                            % (name, meth, x, params, params2, a, b),
                            {'model': name, 'params': params, 'attrs': attrs, 'params2': params2, 'attrs2': attrs2, 'p': x, 'q': x,
                             'seen': [float(v) for v in seen], 'clause': 'stale-after-parameter-change'})
                return n
    return n


def integral_goal(cls, params, attrs, a, p, value):
    """|RInt (generated integrand) a p - value| <= tol by coq-interval's `integral`; pypow is resolved to Rpower on [a,p] inside the proof"""
    M = cls['class']
    args = (' '.join(fl.rlit(attrs[x]) for x in cls['attrs']) + ' ' + ' '.join(fl.rlit(params[x]) for x in cls['params'])).strip()
    from fractions import Fraction
    tol = fl.rlit(Fraction(max(abs(value) * 2e-3, 1e-9)).limit_denominator(10 ** 30))   # quad-based models: see QUAD_TOL
    return ("Goal Rabs (RInt (fun x => %s_loading %s x / x) %s %s - %s) <= %s.\n"
            "Proof.\n  match goal with |- Rabs (RInt ?f ?a ?b - ?v) <= ?t =>\n"
            "    evar (g : R -> R); assert (E : forall x, Rmin a b < x < Rmax a b -> f x = g x);\n"
            "    [ intros x Hx; rewrite Rmin_left, Rmax_right in Hx by lra; destruct Hx as [Hx1 Hx2]; unfold %s_loading; cbv zeta; kill_pypow; subst g; cbv beta; reflexivity\n"
            "    | rewrite (RInt_ext f g a b E); subst g; cbv beta ] end.\n"
            "  integral with (i_prec 60, i_fuel 200, i_degree 12).\nQed.\n"
            % (M, args, fl.rlit(a), fl.rlit(p), fl.rlit(value), tol, M))


def model_isotherm_spreading(rep, rnd, n, bump):
    import pygaps
    from pygaps.units.converter_mode import c_pressure
    from props import c02
    key = 'verif_ads_c10'
    if key not in c02._ADS:
        c02._ADS[key] = pygaps.Adsorbate(key, store=True, **c02.ADS_FULL)
    mat = pygaps.Material('verif_mat_c10', **c02.MAT_FULL)
    count = 0
    for name in ('Langmuir', 'BET', 'Quadratic', 'Toth'):
        for _ in range(n):
            params, attrs = fl.sample_case(name, rnd)
            m = fl.make_model(name, params, attrs)
            lo, hi = SPECS[name].prange(params)
            p = math.exp(rnd.uniform(math.log(lo * 3), math.log(hi * 0.8)))
            for mode, unit in (('relative', None), ('absolute', 'bar')):      # absolute last: its model object is re-parametrised at the end
                iso = pygaps.ModelIsotherm(model=m, material=mat, adsorbate=key, temperature=77.355, pressure_mode=mode, pressure_unit=unit,
                                           loading_basis='molar', loading_unit='mmol', material_basis='mass', material_unit='g')
                ads = iso.adsorbate
                want = float(np.ravel(m.spreading_pressure(p))[0])
                queries = [dict()]
                pu = rnd.choice(['kPa', 'torr', 'Pa'])
                queries.append(dict(pressure_mode='absolute', pressure_unit=pu))
                queries.append(dict(pressure_mode='relative'))
                queries.append(dict(pressure_mode='relative%'))
                for kw in queries:
                    pm = kw.get('pressure_mode', mode)
                    arg = float(c_pressure(p, mode, pm, unit, kw.get('pressure_unit', unit), ads, 77.355)) if kw else p
                    count += 1
                    rp = {'model': name, 'params': params, 'attrs': attrs, 'p': arg, 'iso_mode': mode, 'kw': kw, 'clause': 'modeliso'}
                    try:
                        got = float(np.ravel(iso.spreading_pressure_at(arg, **kw))[0])
                    except Exception as e:  # noqa
                        clause = 'modeliso-relative-refused' if (mode == 'relative' and pm.startswith('relative') and type(e).__name__ == 'ParameterError') \
                            else 'modeliso-exception-%s' % type(e).__name__
                        rep.failure(classify(name, params, clause), 'ModelIsotherm(%s).spreading_pressure_at(%r, %r) raised %s: %s' % (mode, arg, kw, type(e).__name__, str(e)[:80]),
                                    dict(rp, clause=clause))
                        bump('modeliso:refused')
                        continue
                    ok = abs(got - want) <= 1e-9 * abs(want)
                    bump('modeliso:' + ('ok' if ok else 'FAIL'))
                    if not ok:
                        rep.failure(classify(name, params, 'modeliso-units'), 'ModelIsotherm(%s).spreading_pressure_at(%r, %r) = %r, bare model at the converted pressure %r' % (mode, arg, kw, got, want), rp)
                if mode == 'absolute':
                    # the isotherm's model object gets new parameters (a re-fit on the same instance): the same queries again == a fresh isotherm
                    params2, attrs2 = fl.sample_case(name, rnd)
                    iso.model.params.update(params2)
                    iso2 = pygaps.ModelIsotherm(model=fl.make_model(name, params2, attrs2), material=mat, adsorbate=key, temperature=77.355, pressure_mode=mode,
                                                pressure_unit=unit, loading_basis='molar', loading_unit='mmol', material_basis='mass', material_unit='g')
                    for kw in queries[:2]:
                        arg = float(c_pressure(p, mode, kw.get('pressure_mode', mode), unit, kw.get('pressure_unit', unit), ads, 77.355)) if kw else p
                        a, b = call_outcome(iso.spreading_pressure_at, arg, **kw), call_outcome(iso2.spreading_pressure_at, arg, **kw)
                        count += 1
                        ok = same_outcome(a, b)
                        bump('modeliso-reparametrised:' + ('ok' if ok else 'FAIL'))
                        if not ok:
                            rep.failure('C11:unclassified:%s:modeliso-stale-after-parameter-change' % name,
                                        'ModelIsotherm.spreading_pressure_at(%r, %r) after its model was re-parametrised (%r -> %r) = %r, a fresh isotherm gives %r'
                                        % (arg, kw, params, params2, a, b), dict(rp, params2=params2, attrs2=attrs2, clause='modeliso-stale'))
    return count


def make_point_iso(P, L, punit='bar', lunit='mmol'):
    import pygaps
    from props import c02
    key = 'verif_ads_c10'
    if key not in c02._ADS:
        c02._ADS[key] = pygaps.Adsorbate(key, store=True, **c02.ADS_FULL)
    mat = pygaps.Material('verif_mat_c10', **c02.MAT_FULL)
    return pygaps.PointIsotherm(pressure=list(P), loading=list(L), material=mat, adsorbate=key, temperature=77.355, pressure_mode='absolute', pressure_unit=punit,
                                loading_basis='molar', loading_unit=lunit, material_basis='mass', material_unit='g')


PT_HEADER = fl.GOAL_HEADER.replace('Models.EvalTac', 'Models.SpreadPoint Models.EvalTac') + 'From Coq Require Import List.\nImport ListNotations.\n'


def point_rows(rnd):
    """random strictly increasing pressures with non-decreasing loadings; the shapes include saturated data (consecutive EQUAL loadings: a
    plateau segment has slope 0 and contributes q ln(p2/p1)), steps and S-shapes"""
    nrows = rnd.randint(4, 9)
    P = sorted({fl.r3(math.exp(rnd.uniform(math.log(1e-3), math.log(5.0)))) for _ in range(nrows)})
    if len(P) < 4:
        return None
    shape = rnd.choice(['langmuir', 'random', 'sshape', 'plateau', 'plateau'])
    if shape == 'langmuir':
        L = [fl.r3(8 * 3 * x / (1 + 3 * x)) for x in P]
    elif shape == 'random':
        L = sorted(fl.r3(rnd.uniform(0.1, 10)) for _ in P)
    elif shape == 'plateau':
        # one or two flat stretches somewhere in the data (in the middle and/or at saturation)
        L = sorted(fl.r3(rnd.uniform(0.1, 10)) for _ in P)
        for _ in range(rnd.randint(1, 2)):
            a = rnd.randrange(0, len(P) - 1)
            b = min(len(P), a + rnd.randint(2, 3))
            for t in range(a, b):
                L[t] = L[a]
        L = [max(L[:t + 1]) for t in range(len(L))]
    else:
        L = [fl.r3(6 * x * x / (0.5 + x * x) + 0.05) for x in P]
    return P, L, shape


def warm_up(iso, P, L, rnd):
    """calls that leave state behind in the isotherm object (cached interpolators with various fill values)"""
    mid = math.sqrt(P[1] * P[-2])
    calls = [lambda: iso.loading_at(mid), lambda: iso.pressure_at((L[0] + L[-1]) / 2), lambda: iso.spreading_pressure_at(mid),
             lambda: iso.loading_at(P[-1] * 2, interp_fill='extrapolate'), lambda: iso.loading_at(P[-1] * 2, interp_fill=(0.0, L[-1])),
             lambda: iso.spreading_pressure_at(P[-1] * 1.5, interp_fill=L[-1]), lambda: iso.loading_at(mid * 100, pressure_unit='kPa'),
             lambda: iso.spreading_pressure_at(P[0] / 2), lambda: iso.spreading_pressure_at(P[-1] * 3)]
    done = []
    for k in rnd.sample(range(len(calls)), rnd.randint(1, 4)):
        try:
            calls[k]()
        except Exception:  # noqa  (refusals are part of the history)
            pass
        done.append(k)
    return done


def point_isotherms(rep, rnd, n_iso, bump, nontrivial):
    """PointIsotherm.spreading_pressure_at on fresh AND on used isotherms: outcome class and value against the hand model executed inside
    Coq (sp_point_at: range guard + integral), and against quadrature of the implementation's own interpolant"""
    from scipy import integrate
    from fractions import Fraction
    goals = []
    count = 0
    edge_rounding = 0
    for k in range(n_iso):
        made = point_rows(rnd)
        if made is None:
            continue
        P, L, shape = made
        flat_ends = [P[t + 1] for t in range(len(P) - 1) if L[t + 1] == L[t]]
        queries = [('below', P[0] * rnd.uniform(0.05, 0.9)), ('first-knot', P[0]), ('knot', rnd.choice(P[1:-1])), ('edge', P[-1]),
                   ('between', rnd.uniform(P[0], P[-1])), ('between', rnd.uniform(P[-2], P[-1])), ('above', P[-1] * rnd.choice([1.0000001, 1.3, 10.0]))]
        if flat_ends and flat_ends[0] < P[-1]:
            queries.append(('between', rnd.uniform(flat_ends[0], P[-1])))       # beyond a flat segment: it is one of the COMPLETE segments
        used = make_point_iso(P, L)
        history = warm_up(used, P, L, rnd)
        for where, pq in queries:
            pq = fl.r3(pq) if where in ('below', 'between') else pq
            if where == 'between' and (pq in P or not P[0] < pq < P[-1]):
                continue
            units = rnd.choice([dict(), dict(), dict(pressure_unit='kPa'), dict(pressure_unit='torr', loading_unit='mol'), dict(loading_unit='mol')])
            iso = make_point_iso(P, L)
            rows_p = [float(x) for x in iso.pressure(branch='ads', **({'pressure_unit': units['pressure_unit']} if 'pressure_unit' in units else {}))]
            rows_l = [float(x) for x in iso.loading(branch='ads', **({'loading_unit': units['loading_unit']} if 'loading_unit' in units else {}))]
            scale = rows_p[0] / P[0]
            arg = pq * scale if where in ('below', 'between', 'above') else rows_p[P.index(pq)]
            if where == 'above' and not arg > rows_p[-1]:
                continue
            if where == 'edge' and 'pressure_unit' in units:
                # in foreign units the edge value converted back to native units can land 1 ulp above the last stored pressure (binary64
                # rounding of the two conversions; then interp1d refuses with ValueError): rounding is outside the property, so the judged
                # query stays a hair inside; how often the exact edge is refused is recorded in the evidence (edge_rounding_refusals)
                if call_outcome(make_point_iso(P, L).spreading_pressure_at, arg, **units)[0] != 'Ok':
                    edge_rounding += 1
                arg = arg * (1 - 1e-9)
            count += 1
            rp = {'P': P, 'L': L, 'query': arg, 'where': where, 'units': units, 'clause': 'point', 'history': history}
            fresh_oc = call_outcome(make_point_iso(P, L).spreading_pressure_at, arg, **units)
            used_oc = call_outcome(used.spreading_pressure_at, arg, **units)
            bump('point:%s:%s' % (where, fresh_oc[0]))
            # the outcome is a function of the data and the argument: the same on the used isotherm
            if not same_outcome(fresh_oc, used_oc):
                rep.failure('C11:unclassified:point:%s:depends-on-earlier-calls' % where,
                            'spreading_pressure_at(%r, %r) [%s]: fresh isotherm %r, after the calls %r on the same data %r' % (arg, units, where, fresh_oc, history, used_oc), rp)
                continue
            oc, got = fresh_oc
            rows = '[' + '; '.join('(%s, %s)' % (fl.rlit(a), fl.rlit(b)) for a, b in zip(rows_p, rows_l)) + ']'
            if where == 'above':
                # the model refuses (sp_point_at = CalculationError, decided inside Coq on the same rows) and so must the implementation
                goals.append((rp, 'Goal sp_point_at %s %s = CalculationError.\nProof. sp_point_refused. Qed.\n' % (rows, fl.rlit(arg))))
                if oc != 'CalculationError':
                    rep.failure('C11:unclassified:point:above-range-%s' % ('answered' if oc == 'Ok' else oc),
                                'spreading_pressure_at(%r) above the data range (max %r): %s %r, expected CalculationError' % (arg, rows_p[-1], oc, got), rp)
                continue
            if oc != 'Ok':
                rep.failure('C11:unclassified:point:%s:%s' % (where, oc), 'spreading_pressure_at(%r) [%s] inside the data range raised %s' % (arg, where, oc), rp)
                continue
            # (a) correspondence: the hand-written model of the CALL, same rows, inside Coq: answered, and the value agrees
            tol = fl.rlit(Fraction(abs(got) * 1e-9 + 1e-13).limit_denominator(10 ** 30))
            goals.append((rp, 'Goal exists v, sp_point_at %s %s = Value v /\\ Rabs (v - %s) <= %s.\nProof. sp_point_answered. Qed.\n' % (rows, fl.rlit(arg), fl.rlit(got), tol)))
            # (b) oracle: quadrature of the implementation's own interpolant, Henry line below the first point
            iso2 = make_point_iso(P, L)
            f = lambda x: float(iso2.loading_at(x, **units)) / x
            head = rows_l[0] / rows_p[0] * min(arg, rows_p[0])
            tail = 0.0
            if arg > rows_p[0]:
                knots = [x for x in rows_p if rows_p[0] < x < arg]
                tail = integrate.quad(f, rows_p[0], arg, points=knots or None, epsabs=1e-13, epsrel=1e-12, limit=400)[0]
            ok = abs(got - (head + tail)) <= 1e-8 * abs(got) + 1e-12
            if not ok:
                rep.failure('C11:unclassified:point:%s:integral' % where, 'spreading_pressure_at(%r) = %r but Henry head + integral of loading_at(x)/x = %r' % (arg, got, head + tail), rp)
            elif arg > rows_p[0]:
                nontrivial.add(('point', tuple(P), tuple(L), arg, tuple(sorted(units.items()))))
                if flat_ends and arg > flat_ends[0] * scale:
                    bump('point:beyond-a-flat-segment')
    n_ok, failed = fl.run_goals('c11p', [(str(i), g) for i, (rp, g) in enumerate(goals)], header=PT_HEADER, per_file=10)
    for label, msg in failed[:5]:
        rep.broken_obligation('correspondence:SpreadPoint-vs-implementation', {'case': goals[int(label)][0], 'coq': msg})
    rep.cov.setdefault('correspondence', {})['edge_rounding_refusals'] = edge_rounding
    return count, len(failed), len(goals)


# ------------------------------------------------------------------ point isotherms with a HISTORY of queries and permanent conversions
LABELS = ('pressure_mode', 'pressure_unit', 'loading_basis', 'loading_unit', 'material_basis', 'material_unit')
UNITS_OF = {'molar': ['mol', 'mmol', 'kmol'], 'mass': ['mg', 'g', 'kg'], 'volume_liquid': ['cm3', 'dm3', 'm3'], 'volume': ['cm3', 'dm3', 'm3']}


def make_point_iso_labelled(P, L, labels):
    """a fresh PointIsotherm holding exactly these rows, declared in the given mode / basis / units (no conversion takes place)"""
    import pygaps
    from props import c02
    key = 'verif_ads_c10'
    if key not in c02._ADS:
        c02._ADS[key] = pygaps.Adsorbate(key, store=True, **c02.ADS_FULL)
    mat = pygaps.Material('verif_mat_c10', **c02.MAT_FULL)
    return pygaps.PointIsotherm(pressure=list(P), loading=list(L), material=mat, adsorbate=key, temperature=77.355, **labels)


def current_labels(iso):
    return {k: getattr(iso, k) for k in LABELS}


def current_rows(iso):
    return [float(x) for x in iso.pressure(branch='ads')], [float(x) for x in iso.loading(branch='ads')]


def random_history_step(rnd, iso):
    """one step of a history, chosen from the isotherm's CURRENT labels: a query that leaves an interpolator behind, or a permanent
    conversion - of the unit alone (within the current basis / mode) or of the basis / mode"""
    lab = current_labels(iso)
    kind = rnd.choice(['query', 'loading-unit', 'loading-unit', 'loading-basis', 'material-unit', 'material-basis', 'pressure-unit', 'pressure-mode', 'convert'])
    if kind == 'query':
        return [rnd.choice(['loading_at', 'spreading_pressure_at', 'pressure_at', 'loading_at:fill']), {'frac': round(rnd.uniform(0.1, 0.95), 3)}]
    if kind == 'loading-unit':
        if lab['loading_basis'] not in UNITS_OF:       # percent / fraction have no unit: change the basis instead
            return ['convert_loading', {'basis_to': 'molar', 'unit_to': rnd.choice(UNITS_OF['molar'])}]
        return ['convert_loading', {'unit_to': rnd.choice([u for u in UNITS_OF[lab['loading_basis']] if u != lab['loading_unit']])}]
    if kind == 'loading-basis':
        b = rnd.choice([x for x in ('molar', 'mass', 'volume_liquid', 'percent', 'fraction') if x != lab['loading_basis']])
        return ['convert_loading', {'basis_to': b, 'unit_to': rnd.choice(UNITS_OF[b])} if b in UNITS_OF else {'basis_to': b}]
    if kind == 'material-unit':
        return ['convert_material', {'unit_to': rnd.choice([u for u in UNITS_OF[lab['material_basis']] if u != lab['material_unit']])}]
    if kind == 'material-basis':
        b = rnd.choice([x for x in ('mass', 'volume', 'molar') if x != lab['material_basis']])
        return ['convert_material', {'basis_to': b, 'unit_to': rnd.choice(UNITS_OF[b])}]
    if kind == 'pressure-unit':
        return ['convert_pressure', {'mode_to': 'absolute', 'unit_to': rnd.choice([u for u in ('bar', 'kPa', 'Pa', 'torr', 'atm') if u != lab['pressure_unit']])}]
    if kind == 'pressure-mode':
        if lab['pressure_mode'] == 'absolute':
            return ['convert_pressure', {'mode_to': rnd.choice(['relative', 'relative%'])}]
        return ['convert_pressure', {'mode_to': 'absolute', 'unit_to': rnd.choice(['bar', 'kPa', 'torr'])}]
    kw = {}
    if lab['pressure_mode'] == 'absolute':
        kw['pressure_unit'] = rnd.choice(['bar', 'kPa', 'Pa', 'torr'])
    if lab['loading_basis'] in UNITS_OF:
        kw['loading_unit'] = rnd.choice(UNITS_OF[lab['loading_basis']])
    kw['material_unit'] = rnd.choice(UNITS_OF[lab['material_basis']])
    return ['convert', kw]


def do_history_step(iso, step):
    """apply one recorded step. Queries are positioned relative to the CURRENT rows. Returns the outcome class (refusals are part of the history)"""
    name, kw = step
    try:
        if name.startswith('convert'):
            getattr(iso, name)(**kw)
            return 'Ok'
        P, L = current_rows(iso)
        x = P[0] * (P[-1] / P[0]) ** kw['frac']
        if name == 'loading_at':
            iso.loading_at(x)
        elif name == 'loading_at:fill':
            iso.loading_at(P[-1] * 1.5, interp_fill=(0.0, L[-1]))
        elif name == 'spreading_pressure_at':
            iso.spreading_pressure_at(x)
        else:
            iso.pressure_at(L[0] + (L[-1] - L[0]) * kw['frac'])
        return 'Ok'
    except Exception as e:  # noqa
        return type(e).__name__


def history_query(P, where, frac):
    if where == 'below': return P[0] * frac
    if where == 'first-knot': return P[0]
    if where == 'knot': return P[1 + int(frac * (len(P) - 2)) % (len(P) - 2)]
    if where == 'edge': return P[-1]
    if where == 'last-segment': return P[-2] + (P[-1] - P[-2]) * frac
    return P[0] * (P[-1] / P[0]) ** frac       # between (log-uniform over the data range)


def point_isotherm_histories(rep, rnd, n_iso, bump, nontrivial):
    """PointIsotherm.spreading_pressure_at AFTER histories of queries and permanent conversions (pressure unit / mode, loading unit / basis,
    material unit / basis, convert(...)): after every conversion the value is compared (a) with the hand model Models/SpreadPoint.v executed
    inside Coq on the isotherm's CURRENT rows (= the integral of the Henry-continued interpolant of those rows, theorem
    sp_point_is_integral) and (b) with a fresh twin: a new PointIsotherm holding exactly the current rows under the current labels."""
    from fractions import Fraction
    goals = []
    count = 0
    for k in range(n_iso):
        made = point_rows(rnd)
        if made is None:
            continue
        P0, L0, shape = made
        iso = make_point_iso(P0, L0)
        steps = [['loading_at', {'frac': round(rnd.uniform(0.2, 0.9), 3)}]]      # the adsorption interpolator exists before the first conversion
        do_history_step(iso, steps[0])
        n_conv = 0
        while n_conv < 3 and len(steps) < 12:
            st = random_history_step(rnd, iso)
            before = current_labels(iso)
            oc = do_history_step(iso, st)
            steps.append(st + [oc])
            if not st[0].startswith('convert'):
                continue
            if oc != 'Ok':
                bump('point-history:conversion-refused')
                continue
            n_conv += 1
            after = current_labels(iso)
            conv_kind = st[0] + ':' + ('unit-only' if all(before[x] == after[x] for x in ('pressure_mode', 'loading_basis', 'material_basis')) else 'basis-or-mode')
            P, L = current_rows(iso)
            labels = current_labels(iso)
            if not (all(x == x and 0 < x < 1e300 for x in P + L) and all(a < b for a, b in zip(P, P[1:]))):
                bump('point-history:rows-not-usable')
                break
            for where in rnd.sample(['below', 'first-knot', 'knot', 'edge', 'between', 'between', 'last-segment'], 2):
                frac = round(rnd.uniform(0.05, 0.95), 3)
                arg = history_query(P, where, frac)
                count += 1
                rp = {'clause': 'point-history', 'P': P0, 'L': L0, 'steps': [s[:2] for s in steps], 'where': where, 'frac': frac, 'query': arg,
                      'labels': labels, 'rows_now': [P, L]}
                got = call_outcome(iso.spreading_pressure_at, arg)
                twin = call_outcome(make_point_iso_labelled(P, L, labels).spreading_pressure_at, arg)
                bump('point-history:%s:%s:%s' % (conv_kind, where, got[0]))
                if not (got[0] == twin[0] and (got[0] != 'Ok' or abs(got[1] - twin[1]) <= 1e-9 * abs(twin[1]) + 1e-300)):
                    rep.failure('C11:unclassified:point-history:%s:differs-from-fresh-twin' % conv_kind,
                                'after the history %r the isotherm (rows now %r / %r, %r) answers spreading_pressure_at(%r) [%s] with %r; a fresh isotherm holding '
                                'the same rows under the same labels gives %r' % ([s[:2] for s in steps], P, L, labels, arg, where, got, twin), rp)
                    if got[0] != 'Ok':
                        continue            # (an answered call is ALSO judged against the integral of the current rows, below)
                if got[0] != 'Ok':
                    rep.failure('C11:unclassified:point-history:%s:%s' % (conv_kind, got[0]),
                                'after the history %r spreading_pressure_at(%r) [%s] inside the data range raised %s' % ([s[:2] for s in steps], arg, where, got[0]), rp)
                    continue
                rows = '[' + '; '.join('(%s, %s)' % (fl.rlit(a), fl.rlit(b)) for a, b in zip(P, L)) + ']'
                tol = fl.rlit(Fraction(abs(got[1]) * 1e-9 + 1e-300).limit_denominator(10 ** 320))
                goals.append((rp, 'Goal exists v, sp_point_at %s %s = Value v /\\ Rabs (v - %s) <= %s.\nProof. sp_point_answered. Qed.\n'
                              % (rows, fl.rlit(arg), fl.rlit(got[1]), tol)))
                if arg > P[0]:
                    nontrivial.add(('point-history', tuple(P0), tuple(L0), len(steps), where, frac))
    n_ok, failed = fl.run_goals('c11h', [(str(i), g) for i, (rp, g) in enumerate(goals)], header=PT_HEADER, per_file=10)
    for label, msg in failed[:6]:
        rp = goals[int(label)][0]
        last = [s for s in rp['steps'] if s[0].startswith('convert')][-1]
        # the hand model is PROVED to be the integral of the interpolant of the rows it is given (sp_point_is_integral): a disagreement on the
        # isotherm's own current rows is a concrete input on which the implementation's value is not that integral
        rep.failure('C11:unclassified:point-history:%s:not-the-integral-of-the-current-rows' % last[0],
                    'after the history %r the isotherm holds the rows %r under %r, but spreading_pressure_at(%r) [%s] is not the integral of their '
                    'Henry-continued interpolant (Models/SpreadPoint.v evaluated inside Coq on these rows: %s)' % (rp['steps'], rp['rows_now'], rp['labels'], rp['query'], rp['where'], msg[-160:]), rp)
    return count, len(failed), len(goals)


def replay_history(r):
    iso = make_point_iso(r['P'], r['L'])
    print('rows', r['P'], r['L'], '(bar, mmol/g)')
    for st in r['steps']:
        print('  step', st, '->', do_history_step(iso, st))
    P, L = current_rows(iso)
    labels = current_labels(iso)
    arg = history_query(P, r['where'], r['frac'])
    print('rows now', P, L, labels)
    print('isotherm with this history: spreading_pressure_at(%r) ->' % arg, call_outcome(iso.spreading_pressure_at, arg))
    print('fresh isotherm, same rows  : spreading_pressure_at(%r) ->' % arg, call_outcome(make_point_iso_labelled(P, L, labels).spreading_pressure_at, arg))
    return 1


def replay(d):
    import warnings
    warnings.filterwarnings('ignore')
    np.seterr(all='ignore')
    r = d['replay']
    if r.get('clause') == 'point-history':
        return replay_history(r)
    if r.get('clause') == 'point':
        print('rows', r['P'], r['L'], 'query', r['query'], r['where'], r['units'])
        print('fresh isotherm: spreading_pressure_at ->', call_outcome(make_point_iso(r['P'], r['L']).spreading_pressure_at, r['query'], **r['units']))
        iso = make_point_iso(r['P'], r['L'])
        P, L = r['P'], r['L']
        mid = math.sqrt(P[1] * P[-2])
        for c in (lambda: iso.loading_at(mid), lambda: iso.pressure_at((L[0] + L[-1]) / 2), lambda: iso.spreading_pressure_at(mid),
                  lambda: iso.loading_at(P[-1] * 2, interp_fill='extrapolate'), lambda: iso.spreading_pressure_at(P[-1] * 1.5, interp_fill=L[-1])):
            call_outcome(c)
        print('used isotherm : spreading_pressure_at ->', call_outcome(iso.spreading_pressure_at, r['query'], **r['units']))
        return 1
    if r.get('clause') == 'stale-after-parameter-change':
        m = fl.make_model(r['model'], r['params'], r.get('attrs'))
        for x in r['seen']:
            print('old parameters %r: Pi(%r) = %r' % (r['params'], x, call_outcome(m.spreading_pressure, x)))
        m.params.update(r['params2'])
        for k, v in (r.get('attrs2') or {}).items():
            setattr(m, k, v)
        fresh = fl.make_model(r['model'], r['params2'], r.get('attrs2'))
        for x in r['seen']:
            print('new parameters %r: same object Pi(%r) = %r, fresh model %r' % (r['params2'], x, call_outcome(m.spreading_pressure, x), call_outcome(fresh.spreading_pressure, x)))
        return 1
    m = fl.make_model(r['model'], r['params'], r.get('attrs'))
    print('model', r['model'], r['params'], r.get('attrs'), 'clause', r.get('clause'))
    if str(r.get('clause', '')).startswith('modeliso'):
        print('ModelIsotherm in mode', r['iso_mode'], 'spreading_pressure_at(%r, **%r)' % (r['p'], r['kw']))
        return 1
    p, q = r['p'], r['q']
    Pi = Pi_of(m)
    print('Pi(0) =', Pi(0.0), ' Pi(p) =', Pi(p), ' Pi(q) =', Pi(q), ' loading(p) =', m.loading(p))
    from scipy import integrate
    print('integral of loading(x)/x over [q,p] =', integrate.quad(lambda x: float(np.ravel(m.loading(x))[0]) / x, q, p)[0],
          ' over [0,p] =', integrate.quad(lambda x: float(np.ravel(m.loading(x))[0]) / x, 0, p)[0])
    return 1
