"""C16 - mesopore size distributions conserve volume and follow the Kelvin equation.

proof phase   : Props/C16.v: the three recurrences GENERATED from psd_meso.py (tools/py2v_psdmeso.py -> Gen/PsdMesoGen.v, fail-closed) are EQUAL to
                the hand-written list model (Charact/PsdMesoTie.v, by conversion); the generated tables of psd_mesoporous' Kelvin inputs and of
                the module's process-wide state are the documented ones; widths = 2(r_K + t) and increasing, zero-thickness volumes = successive increments (telescoping sum),
                distribution x width increment = volume, cumulative curve ends at the last volume (inductions over lists of any
                length, all three recurrences); Kelvin equation per meniscus geometry, monotonicity, KJS offset, meniscus table,
                monotone thickness equations over the GENERATED models_kelvin / models_thickness formulas.
correspondence: psd_mesoporous (isotherm entry) and psd_pygapsdh / psd_bjh / psd_dollimore_heal (raw entry) vs Charact/PsdMeso.v
                executed inside Coq with the implementation's own thickness / Kelvin arrays as data: limits exactly, widths, areas,
                volumes, distribution, cumulative curve numerically; the Kelvin / thickness formulas by interval goals.
oracle/search : on the implementation: the five statements of the property, judged from the returned arrays; all calls of a run are made
                in one process with isotherms naming ONE adsorbate whose property set differs from call to call (fresh objects and one
                shared object edited between calls), so remembered adsorbate properties violate the Kelvin / width statements.
"""
import math
import random
from functools import partial

import numpy as np

import vlib
import charact_lib as cl
from charact_lib import zpair, zlist, cbool, rel
from props import c14

MANIFEST = dict(
    text="Machine-checked (Coq 8.16) theorems about a list model of the three recurrences of psd_meso.py (pygaps-DH for slit/cylinder/sphere, BJH, "
         "Dollimore-Heal) with the thickness and Kelvin-radius arrays as arbitrary inputs; the recurrences are ALSO translated from their source on every "
         "run (vectorised numpy prelude as stencils over the reversed points, loop bodies as let-chains in source order, returned arrays; any statement the "
         "translator does not know - e.g. a masked assignment to an array - aborts it) and the translation is PROVED equal to the list model for every carrier, "
         "input and geometry string, so the theorems are theorems about the translated source; generated tables show that psd_mesoporous hands the Kelvin model "
         "this call's temperature / molar mass / liquid density / surface tension and that no function of psd_meso.py writes to module-level state. Proved: reported widths are 2(r_K+t) at the measured pressures "
         "(all but the highest) and increase when t and r_K do; with zero thickness and positive Kelvin radii the pore volumes are exactly the "
         "successive changes of adsorbed volume and sum to the total change (induction carrying the running sums of each loop); distribution x "
         "width increment = pore volume; the cumulative curve ends at the last adsorbed volume; for lists of ANY length. Over the formulas GENERATED "
         "from models_kelvin.py / models_thickness.py: the Kelvin equation r ln(1/p) g R T = 2 gamma M/rho for the three meniscus geometries, r "
         "increasing in p on (0,1), the KJS offset, the pore-geometry -> meniscus table, Halsey and Harkins-Jura increasing in p. The recurrence "
         "model is hand-written and executed inside Coq against psd_mesoporous and the three raw functions on every run (random grids of 5-80 "
         "points, all methods/geometries/thickness models/limits, both branches), with the implementation's own thickness/Kelvin arrays as data; "
         "every call carries its own adsorbate property set under ONE adsorbate name (fresh objects and one shared object edited between calls, "
         "all calls in one process), so a property remembered from an earlier call shows up as a Kelvin-equation / width disagreement. "
         "The single-step statement is proved as a corollary for zero thickness only (with a thickness model the thinning corrections of later "
         "steps are non-zero by construction); with thickness it is checked on the implementation as 'largest peak at the step'.",
    note="Trusted: Coq kernel; Reals axioms; translators tools/py2v_charact.py (interval goals against the implementation) and tools/py2v_psdmeso.py (its reading "
         "of the numpy idioms -diff, [:-1], [1:], [::-1], enumerate as stencils over neighbouring points; the generated functions are the ones executed against "
         "the raw entry points); the hand-written wrapper psd_mesoporous (limits, cumulative curve) and recurrences "
         "(validated by the correspondence, 256-bit binary floating point inside Coq, tolerance 1e-7 relative / 1e-9 of the array scale); numpy "
         "vectorised arithmetic = element-wise arithmetic; adsorbate property reads are oracles.",
    technique="Coq proof (induction over data lists with loop invariants; real analysis over generated formulas); model execution inside Coq vs implementation")

EXTRA_TARGETS = ['Charact/QExecPsd.vo']
HEADER = c14.HEADER.replace('Charact.QExec.', 'Charact.PsdMeso Gen.PsdMesoGen Charact.QExec Charact.QExecPsd.')
RGAS = 8.31446261815324
ADS = dict(molar_mass=28.0134, saturation_pressure=101325.0, liquid_density=0.808, surface_tension=8.88, cross_sectional_area=0.162)
ADS2 = dict(molar_mass=39.948, saturation_pressure=101325.0, liquid_density=1.3954, surface_tension=12.5, cross_sectional_area=0.142)
METHODS = ['pygaps-DH', 'BJH', 'DH']
TMODELS = ['Halsey', 'Harkins/Jura', 'zero thickness', 'callable']
GFAC = {'cylindrical': 2.0, 'hemispherical': 1.0, 'hemicylindrical': 0.5}


def custom_thickness(p):
    return 0.3 + 0.5 * p


VKINDS = ['random', 'random', 'step', 'mixed', 'plateau', 'weak-then-step']


def gen_volumes(rnd, kind, n, step_at):
    """non-decreasing adsorbed volumes for n pressures.
    random         : increments of comparable size (0, ~0.01, ~0.05)
    step           : exactly flat except one condensation step
    mixed          : every increment has its own magnitude, log-uniform over 12 decades (and some exact zeros)
    plateau        : one or two condensation steps, NEARLY flat elsewhere (increments 1e-12 .. 1e-6 of the step)
    weak-then-step : tiny uptake (1e-10 .. 1e-5 of the step per point) in front of one large condensation step, nearly flat after it
    The whole curve is multiplied by an overall scale between 1e-6 and 100 in a third of the mixed-magnitude cases."""
    v = []
    cur = rnd.uniform(0, 0.2)
    if kind in ('mixed', 'plateau', 'weak-then-step'):
        cur = rnd.choice([0.0, cur, cur * 1e-6])
    second = rnd.randrange(1, n - 1) if (kind == 'plateau' and rnd.random() < 0.5) else None
    for i in range(n):
        if kind == 'random':
            cur += rnd.choice([0.0, rnd.uniform(0, 0.05), rnd.uniform(0, 0.01)])
        elif kind == 'step':
            if i == step_at:
                cur += rnd.uniform(0.1, 0.5)
        elif kind == 'mixed':
            cur += rnd.choice([0.0] + [10 ** rnd.uniform(-13, -0.5)] * 5)
        elif kind == 'plateau':
            cur += rnd.uniform(0.1, 0.5) if i in (step_at, second) else rnd.choice([0.0] + [10 ** rnd.uniform(-12, -6)] * 4)
        else:
            cur += rnd.uniform(0.1, 0.5) if i == step_at else (10 ** rnd.uniform(-10, -5) if i < step_at else rnd.choice([0.0, 10 ** rnd.uniform(-12, -7)]))
        v.append(cur)
    if kind in ('mixed', 'plateau', 'weak-then-step') and rnd.random() < 0.33:
        sc = 10 ** rnd.uniform(-6, 2)
        v = [x * sc for x in v]
    return v


def gen_grid(rnd, n, edge):
    """strictly increasing relative pressures in (0,1); edge: a fifth of the grids reach the ends of the domain
    (1 - 1e-3 ... 1 - 1e-7 at the top, 1e-7 ... 1e-3 at the bottom)"""
    p = c14.grid(rnd, n, 0.02, 0.995)
    if edge:
        if rnd.random() < 0.7:
            ks = sorted(rnd.sample([2.6, 3.0, 3.3, 3.7, 4.0, 4.5, 5.0, 6.0, 7.0], rnd.randint(1, 4)))
            p = [x for x in p if x < 0.99] + [1 - 10 ** (-k) for k in ks]
        if rnd.random() < 0.4:
            ks = sorted(rnd.sample([3.0, 4.0, 5.0, 6.0, 7.0], rnd.randint(1, 3)), reverse=True)
            p = [10 ** (-k) for k in ks] + [x for x in p if x > 2e-3]
    return sorted(set(float(x) for x in p))


def gen_cases(tier, seed):
    rnd = random.Random(seed)
    n_cases = 220 if tier == 'quick' else 4000
    nmax = 50 if tier == 'quick' else 80
    cases = []
    for k in range(n_cases):
        n = rnd.randint(5, nmax)
        kind = rnd.choice(VKINDS)
        edge = kind != 'step' and rnd.random() < 0.2
        p = gen_grid(rnd, n, edge)
        step_at = rnd.randrange(1, len(p) - 1)
        v = gen_volumes(rnd, kind, len(p), step_at)
        method = rnd.choice(METHODS)
        geom = rnd.choice(['slit', 'cylinder', 'sphere']) if method == 'pygaps-DH' else rnd.choice(['cylinder'] * 6 + ['slit'])
        branch = rnd.choice(['ads', 'des'])
        men = rnd.choice([None, None, None, 'hemicylindrical', 'cylindrical', 'hemispherical'])
        tm = rnd.choice(TMODELS + ['zero thickness'] * (1 if kind in ('random', 'step') else 3))
        km = 'Kelvin-KJS' if rnd.random() < 0.12 else 'Kelvin'
        if kind == 'step':
            limits, lk = (None, None), 'step'
        elif edge and rnd.random() < 0.6:
            limits, lk = rnd.choice([(None, None), (rnd.uniform(0.0, 0.5), None), (None, 1.0), (0, 0)]), 'edge'     # the points at the ends of the domain are used
        else:
            limits, lk = c14.pick_limits(rnd, p)
            if limits is None:
                lk = 'default'
        entry = rnd.choice(['iso', 'iso', 'raw'])
        if entry == 'raw':
            limits, lk = ((None, None), 'all') if kind != 'step' else (limits, lk)
        # "any adsorbate property set": every case carries its own molar mass / liquid density / surface tension. All the isotherms of one run
        # name the SAME adsorbate ('verif_c16'): either a fresh Adsorbate object per call or one shared object whose properties are edited
        # between the calls - so a value remembered from an earlier call (per name, per (name, temperature), per object) is a stale one
        r = rnd.random()
        T = rnd.choice([77.355, 87.3])
        carrier = rnd.choice(['fresh', 'fresh', 'edited'])
        if r < 0.12:
            # the shipped nitrogen (thermodynamic backend: density and surface tension depend on T) at several temperatures in one process; the
            # property values the Kelvin equation is judged with are read in a FRESH process (reference_props), one temperature per read
            T = rnd.choice(BACKEND_T)
            ads, props, carrier = 'N', dict(reference_props()[repr(T)], saturation_pressure=None, cross_sectional_area=0.162), 'backend'
        elif r < 0.3:
            ads, props = 'A', dict(ADS)
        elif r < 0.45:
            ads, props = 'B', dict(ADS2)
        else:
            ads, props = 'R', dict(molar_mass=round(rnd.uniform(2, 150), 4), liquid_density=round(10 ** rnd.uniform(-0.5, 0.5), 4),
                                   surface_tension=round(10 ** rnd.uniform(0, 1.9), 3), saturation_pressure=101325.0, cross_sectional_area=0.162)
        cases.append(dict(method=method, geom=geom, branch=branch, men=men, tm=tm, km=km, p=p, v=v, limits=limits, lkind=lk, kind=kind, entry=entry,
                          step_at=step_at, ads=ads, props=props, carrier=carrier, T=T))
    # numeric TYPE of the volumes handed to the raw entry points (own random stream: the cases above do not depend on it). The documented argument is
    # "array"; a caller may hand over an integer array, a list / tuple of Python ints, a float32 array or a pandas Series. The stored values are made
    # exactly representable in the type (integers: the curve is scaled to a top value of 20..5000 and rounded - rounding keeps it non-decreasing)
    rnd2 = random.Random(seed * 7919 + 16)
    for c in cases:
        if c['entry'] == 'iso' and rnd2.random() < 0.35:
            # stored representation of the isotherm's pressures: percent of the saturation pressure. The analysis works on the relative pressures the
            # isotherm reports (stored * 100**-1): those are the case's pressures (a limit lying on a data point moves with it)
            stored = [float(x * 100) for x in c['p']]
            seen = [float(x * 100 ** -1) for x in stored]
            if all(a < b for a, b in zip(seen, seen[1:])) and 0 < seen[0] and seen[-1] < 1:
                mp = dict(zip(c['p'], seen))
                if c['limits'] is not None:
                    c['limits'] = tuple(mp.get(x, x) for x in c['limits'])
                c['p'], c['p_stored'], c['pmode'] = seen, stored, 'relative%'
        if c['entry'] != 'raw':
            continue
        c['vtype'] = rnd2.choice(VTYPES) if rnd2.random() < 0.7 else 'float64 array'
        if c['vtype'] in INT_VTYPES:
            top = max(c['v']) or 1.0
            K = rnd2.uniform(20, 5000) / top
            c['v'] = [float(round(x * K)) for x in c['v']]
        elif c['vtype'] == 'float32 array':
            c['v'] = [float(np.float32(x)) for x in c['v']]
    return cases


INT_VTYPES = ['int64 array', 'int32 array', 'list of int', 'tuple of int', 'Series of int']
# (float32 arrays are left out: numpy.diff of a float32 array is rounded to float32, so the unchanged recurrences differ from the float64 ones by ~1e-7 of the top
# volume - the property does not state a precision for single-precision input, not judged)
VTYPES = INT_VTYPES + ['list of float', 'Series of float']


def typed_volumes(c):
    """the volumes of a raw case in the container / numeric type the case names"""
    import pandas
    vt, v = c.get('vtype', 'float64 array'), c['v']
    if vt == 'int64 array':
        return np.array([int(x) for x in v], dtype=np.int64)
    if vt == 'int32 array':
        return np.array([int(x) for x in v], dtype=np.int32)
    if vt == 'list of int':
        return [int(x) for x in v]
    if vt == 'tuple of int':
        return tuple(int(x) for x in v)
    if vt == 'Series of int':
        return pandas.Series([int(x) for x in v])
    if vt == 'list of float':
        return [float(x) for x in v]
    if vt == 'float32 array':
        return np.array(v, dtype=np.float32)
    if vt == 'Series of float':
        return pandas.Series(v, dtype=float)
    return np.array(v)


def ads_props(c):
    return c['props']


BACKEND_T = [70.0, 77.355, 87.3, 100.0, 110.0]
_REF = {}


def child_props():
    """(child process) nitrogen's properties, one fresh Adsorbate state per temperature"""
    import json
    import logging
    logging.disable(logging.CRITICAL)
    import pygaps
    out = {}
    for T in BACKEND_T:
        a = pygaps.Adsorbate('verif_c16_ref_%s' % T, backend_name='nitrogen')
        out[repr(T)] = dict(molar_mass=float(a.molar_mass()), liquid_density=float(a.liquid_density(T)), surface_tension=float(a.surface_tension(T)))
    print('C16REF ' + json.dumps(out))


def reference_props():
    """nitrogen's molar mass / liquid density / surface tension at the BACKEND_T temperatures, read in a fresh process"""
    if not _REF:
        import json
        import subprocess
        import sys
        r = subprocess.run([sys.executable, '-c', 'from props import c16; c16.child_props()'], capture_output=True, text=True, timeout=300)
        for line in r.stdout.split('\n'):
            if line.startswith('C16REF '):
                _REF.update(json.loads(line[7:]))
        if not _REF:
            raise RuntimeError('no reference properties from the child process: ' + (r.stderr or r.stdout)[-300:])
    return _REF


ADS_NAME = 'verif_c16'
_SHARED = {}


def ads_object(c):
    """the Adsorbate the isotherm of this case carries: always named ADS_NAME, never registered"""
    import pygaps
    if c.get('carrier') == 'edited':
        if 'obj' not in _SHARED:
            _SHARED['obj'] = pygaps.Adsorbate(ADS_NAME, **dict(c['props']))
        obj = _SHARED['obj']
        obj.properties.clear()
        obj.properties.update(c['props'])          # the user edits the stored properties between two analyses
        return obj
    return pygaps.Adsorbate(ADS_NAME, **dict(c['props']))


def meniscus_of(c):
    from pygaps.characterisation.models_kelvin import get_meniscus_geometry
    return c['men'] or get_meniscus_geometry(c['branch'], c['geom'])


def models(c):
    """the thickness and condensation callables exactly as psd_mesoporous builds them"""
    from pygaps.characterisation.models_kelvin import get_kelvin_model
    from pygaps.characterisation.models_thickness import get_thickness_model
    a = ads_props(c)
    t_model = get_thickness_model(custom_thickness if c['tm'] == 'callable' else c['tm'])
    k_model = get_kelvin_model(c['km'], meniscus_geometry=meniscus_of(c), temperature=c['T'], liquid_density=a['liquid_density'],
                               adsorbate_molar_mass=a['molar_mass'], adsorbate_surface_tension=a['surface_tension'])
    return t_model, k_model


def make_iso(c):
    import pygaps
    name = cl.adsorbate('c16_placeholder', **ADS)      # the constructor needs a registered name (GUIDE); replaced below
    p, v = c.get('p_stored', c['p']), c['v']
    if c['branch'] == 'ads':
        pp, vv = list(p), list(v)
    else:   # adsorption branch below the desorption branch; the analysed (desorption) data are (p, v)
        pp = list(p) + list(p[::-1])
        vv = [x * 0.9 for x in v] + list(v[::-1])
    iso = pygaps.PointIsotherm(pressure=pp, loading=vv, material='verif_c16', adsorbate=name, temperature=c['T'], pressure_mode=c.get('pmode', 'relative'),
                               loading_basis='volume_liquid', loading_unit='cm3', material_basis='mass', material_unit='g')
    if c.get('carrier') == 'backend':
        iso.adsorbate = pygaps.Adsorbate.find('nitrogen')       # the shared, registered object with its CoolProp state
    else:
        iso.adsorbate = ads_object(c)
    return iso


def run_impl(c):
    from pygaps.characterisation import psd_meso
    out = dict(oc='Ok')
    try:
        if c['entry'] == 'iso':
            iso = make_iso(c)
            lim = c['limits']
            r = psd_meso.psd_mesoporous(iso, psd_model=c['method'], pore_geometry=c['geom'], meniscus_geometry=c['men'], branch=c['branch'],
                                        thickness_model=custom_thickness if c['tm'] == 'callable' else c['tm'], kelvin_model=c['km'], p_limits=lim)
            out['win'] = tuple(int(x) for x in r['limits'])
            out['cumul'] = [float(x) for x in r['pore_volume_cumulative']]
        else:
            t_model, k_model = models(c)
            f = {'pygaps-DH': psd_meso.psd_pygapsdh, 'BJH': psd_meso.psd_bjh, 'DH': psd_meso.psd_dollimore_heal}[c['method']]
            r = f(typed_volumes(c), np.array(c['p']), c['geom'], t_model, k_model)
            out['win'] = (0, len(c['p']) - 1)
            out['cumul'] = []
            if c.get('vtype', 'float64 array') != 'float64 array':
                # the same numbers as a float64 array: the numeric type of the argument is not part of the recurrence
                r64 = f(np.array(c['v'], dtype=float), np.array(c['p']), c['geom'], t_model, k_model)
                td = []
                for k in ('pore_widths', 'pore_areas', 'pore_volumes', 'pore_distribution'):
                    a, b = np.asarray(r[k]), np.asarray(r64[k], dtype=float)
                    sc = float(np.max(np.abs(b))) if len(b) else 0.0
                    if a.shape != b.shape:
                        td.append('%s: shape %r, float64 input gives %r' % (k, a.shape, b.shape))
                    elif len(b) and not np.all(np.abs(a.astype(float) - b) <= 1e-12 * sc):
                        i = int(np.argmax(np.abs(a.astype(float) - b)))
                        td.append('%s[%d] = %r (dtype %s), the same volumes as a float64 array give %r' % (k, i, a[i].item() if hasattr(a[i], 'item') else a[i], a.dtype, float(b[i])))
                out['typed_diff'] = td
        for k in ('pore_widths', 'pore_areas', 'pore_volumes', 'pore_distribution'):
            out[k] = [float(x) for x in r[k]]
    except Exception as ex:  # noqa
        return dict(oc=vlib.exn_class(ex), msg=str(ex)[:200])
    return out


def arrays(c):
    """thickness and Kelvin radius at every pressure, from the implementation's own callables (None when they refuse)"""
    try:
        t_model, k_model = models(c)
        p = np.array(c['p'])
        return [float(x) for x in t_model(p)], [float(x) for x in k_model(p)]
    except Exception:  # noqa
        return None, None


def coq_term(c, o, t, k):
    oc = c14.oc_code(o['oc'])
    ok = o['oc'] == 'Ok'
    if t is None:
        t, k = [0.0] * len(c['p']), [1.0] * len(c['p'])
    # absolute slack beside the 1e-7 relative one: 1e-9 of the array scale (rounding of the recurrences); with the zero model the computation is
    # exact up to the rounding of one subtraction, so 1e-13 of the scale - a step of 1e-12 of the top volume must come out
    atol = 1e-13 if c['tm'] == 'zero thickness' else 1e-9
    sc = lambda xs: zpair(atol * max([abs(x) for x in xs] + [1e-300]))
    if c['entry'] == 'iso':
        return '(psd_case 1 10000000 "%s"%%string "%s"%%string %s %s %s %s %s %d %s %s %s %s %s %s %s %s)' % (
            c['method'], c['geom'], zlist(c['p']), zlist(c['v']), zlist(t), zlist(k), c14.lim_args(c['limits']), oc,
            zlist(o.get('pore_widths', [])), zlist(o.get('pore_areas', [])), zlist(o.get('pore_volumes', [])), zlist(o.get('pore_distribution', [])),
            zlist(o.get('cumul', [])), sc(o.get('pore_volumes', []) + c['v']), sc(o.get('pore_areas', [])), sc(o.get('pore_distribution', [])))
    # raw entry: the functions GENERATED from the source (Gen/PsdMesoGen.v; proved equal to the hand-written ones in Charact/PsdMesoTie.v)
    fn = {'pygaps-DH': 'psd_pygapsdh_gen', 'BJH': 'psd_bjh_gen', 'DH': 'psd_dollimore_heal_gen'}[c['method']]
    return ('(match %s DNum (mkfl %s) (mkfl %s) (mkfl %s) "%s"%%string with Err e => (exn_code e, b2z (%d =? exn_code e), 0, 0) | Ok r => '
            '(0, b2z ((%d =? 0) && all_close 1 10000000 (p_widths r) %s && all_close_ra 1 10000000 (flq %s) (p_areas r) %s && '
            'all_close_ra 1 10000000 (flq %s) (p_volumes r) %s && all_close_ra 1 10000000 (flq %s) (p_dist r) %s), 0, %d) end)') % (
        fn, zlist(c['v']), zlist(t), zlist(k), c['geom'], oc, oc, zlist(o.get('pore_widths', [])), sc(o.get('pore_areas', [])), zlist(o.get('pore_areas', [])),
        sc(o.get('pore_volumes', []) + c['v']), zlist(o.get('pore_volumes', [])), sc(o.get('pore_distribution', [])), zlist(o.get('pore_distribution', [])), len(c['p']) - 1)


def judge(c, o, t, k, fail):
    """the property's statements on the implementation's output"""
    p, v = c['p'], c['v']
    n = len(p)
    valid_args = (c['method'] == 'pygaps-DH' or c['geom'] == 'cylinder') and not (c['km'] == 'Kelvin-KJS' and meniscus_of(c) != 'cylindrical')
    if o['oc'] not in ('Ok', 'CalculationError', 'ParameterError'):
        fail('crash', 'raised %s: %s' % (o['oc'], o.get('msg')))
        return False
    lim = c['limits'] if c['entry'] == 'iso' else (None, None)
    if lim is None:
        lim = (0.1, 0.99)
    lo = lim[0] if lim[0] else None
    hi = lim[1] if lim[1] else None
    inside_open = [i for i, x in enumerate(p) if (lo is None or x > lo) and (hi is None or x < hi)]
    inside_closed = [i for i, x in enumerate(p) if (lo is None or x >= lo) and (hi is None or x <= hi)]
    if not valid_args:
        if o['oc'] == 'Ok':
            fail('arguments', 'invalid method/geometry/meniscus combination accepted')
        return False
    if o['oc'] == 'ParameterError':
        fail('arguments', 'valid arguments refused: %s' % o.get('msg'))
        return False
    if c['entry'] == 'iso':
        if len(inside_open) >= 3 and o['oc'] == 'CalculationError':
            fail('refusal', '%d points strictly inside the limits %r but refused' % (len(inside_open), lim))
        if len(inside_closed) < 3 and o['oc'] == 'Ok':
            fail('refusal', 'only %d points inside the limits %r but not refused' % (len(inside_closed), lim))
    if o['oc'] != 'Ok':
        return False
    if o.get('typed_diff'):
        fail('numeric-type', 'volumes given as %s: %s' % (c.get('vtype'), '; '.join(o['typed_diff'][:3])))
    a, b = o['win']
    sel = set(range(a, b + 1))
    if not set(inside_open) <= sel or not sel <= set(inside_closed):
        fail('window', 'points used %r are not the points inside the limits %r' % (o['win'], lim))
        return False
    pw, vw, tw, kw = p[a:b + 1], v[a:b + 1], t[a:b + 1], k[a:b + 1]
    W, PV, D = o['pore_widths'], o['pore_volumes'], o['pore_distribution']
    m = len(pw)
    scale = max(abs(x) for x in vw) + 1e-300
    if not (len(W) == len(PV) == len(D) == m - 1):
        fail('shape', 'result arrays have lengths %d/%d/%d for %d pressures' % (len(W), len(PV), len(D), m))
        return False
    wfull = [2 * (tw[i] + kw[i]) for i in range(m)]
    if any(rel(W[i], wfull[i]) > 1e-10 for i in range(m - 1)):
        fail('widths', 'pore widths are not 2 (r_K + t) at the measured pressures')
    incr_tk = all(tw[i] <= tw[i + 1] and kw[i] < kw[i + 1] for i in range(m - 1))
    if incr_tk and any(W[i] >= W[i + 1] for i in range(m - 2)):
        fail('widths', 'pore widths do not increase with pressure')
    # Kelvin equation for the radii used (built-in Kelvin model)
    ap = ads_props(c)
    g = GFAC[meniscus_of(c)]
    for i in range(m):
        if c['km'] == 'Kelvin':
            lhs = kw[i] * (-math.log(pw[i])) * g * RGAS * c['T']       # ln(1/p) = -ln p; 1/p would round away the last digits near p = 1
        else:
            lhs = (kw[i] - 0.3) * (-math.log(pw[i])) * RGAS * c['T']
        if rel(lhs, 2 * ap['surface_tension'] * ap['molar_mass'] / ap['liquid_density']) > 1e-9:
            fail('kelvin', 'Kelvin radius %r at p=%r violates the Kelvin equation (geometry factor %r)' % (kw[i], pw[i], g))
            break
    if c['tm'] == 'zero thickness':
        # "exactly the successive changes": with t = 0 every ratio factor is 1 and every thinning correction 0, so each pore volume is the
        # difference of two neighbouring volumes up to their rounding (1e-12 of the larger neighbour) - however small the step is beside the others
        dv = [vw[i + 1] - vw[i] for i in range(m - 1)]
        bad = [i for i in range(m - 1) if not abs(PV[i] - dv[i]) <= 1e-12 * max(abs(vw[i]), abs(vw[i + 1]))]
        if bad:
            i = bad[0]
            fail('conservation', 'zero-thickness pore volumes are not the successive changes of adsorbed volume: %d of %d steps differ, e.g. step %d: V goes %r -> %r '
                                 '(change %r, %.3g of the top volume) but the pore volume is %r' % (len(bad), m - 1, i, vw[i], vw[i + 1], dv[i], dv[i] / scale, PV[i]))
        elif not abs(math.fsum(PV) - (vw[-1] - vw[0])) <= 1e-12 * scale:
            fail('conservation', 'zero-thickness pore volumes sum to %r, the total change of adsorbed volume is %r' % (math.fsum(PV), vw[-1] - vw[0]))
    dscale = max(abs(x) for x in PV) + 1e-300
    if any(abs(D[i] * (wfull[i + 1] - wfull[i]) - PV[i]) > 1e-9 * dscale for i in range(m - 1)):
        fail('distribution', 'distribution x width increment differs from the pore volumes')
    if c['entry'] == 'iso' and abs(o['cumul'][-1] - vw[-1]) > 1e-9 * scale:
        fail('cumulative', 'cumulative curve ends at %r, adsorbed volume at the highest pressure used is %r' % (o['cumul'][-1], vw[-1]))
    if c['kind'] == 'step' and a <= c['step_at'] - 1 and c['step_at'] <= b:
        j = c['step_at'] - 1 - a      # the interval [p_j, p_j+1] holds the step
        nonzero = [i for i in range(m - 1) if abs(PV[i]) > 1e-9 * scale]
        step = vw[j + 1] - vw[j]
        # the recurrences run from the highest pressure down: above the step nothing has desorbed and no pore has been emptied, so those volumes
        # are zero and the first population is the one at the step, at least the step itself for pygaps-DH (ratio factor >= 1); with the zero model it
        # is the only one. BELOW the step the thinning corrections of a non-zero thickness model are not constrained by the property (for
        # Kelvin radii far below the layer thickness they oscillate and grow).
        if [i for i in nonzero if i > j] or not PV[j] > 0 or (c['method'] == 'pygaps-DH' and not PV[j] >= step * (1 - 1e-9)) or \
                (c['tm'] == 'zero thickness' and nonzero != [j]):
            fail('single-step', 'a single condensation step of %r between points %d and %d: pore volume there %r, non-zero pore volumes at intervals %r' % (
                step, j, j + 1, PV[j], nonzero[:6]))
        elif rel(W[j], wfull[j]) > 1e-10:
            fail('single-step', 'peak width is not the Kelvin-predicted width')
    return True


def classify(c, clause, o):
    return 'C16:unclassified:%s:%s:%s:%s:%s:%s' % (clause, c['method'], c['geom'], c['tm'], c['entry'], c['lkind'])


def formula_goals(c, t, k, rnd):
    """generated Kelvin / thickness formulas vs the implementation's values at one pressure"""
    r = cl.rlit
    i = rnd.randrange(len(c['p']))
    a = ads_props(c)
    gs = []
    fn = 'kelvin_radius' if c['km'] == 'Kelvin' else 'kelvin_radius_kjs'
    gs.append('match %s RNum ln %s "%s" %s %s %s %s with Ok x => Rabs (x - %s) <= %s | Err _ => False end' % (
        fn, r(c['p'][i]), meniscus_of(c), r(c['T']), r(a['liquid_density']), r(a['molar_mass']), r(a['surface_tension']), r(k[i]), r(abs(k[i]) * 1e-11)))
    if c['tm'] == 'Halsey':
        gs.append('Rabs (thickness_halsey RNum ln Rpower %s - %s) <= %s' % (r(c['p'][i]), r(t[i]), r(abs(t[i]) * 1e-11)))
    if c['tm'] == 'Harkins/Jura':
        gs.append('Rabs (thickness_harkins_jura RNum ln Rpower %s - %s) <= %s' % (r(c['p'][i]), r(t[i]), r(abs(t[i]) * 1e-11)))
    return gs


def run(rep, tier, seed):
    vlib.standard_proof_phase(rep, 'C16', extra_targets=EXTRA_TARGETS)
    explore(rep, tier, seed)
    if rep.broken and not rep.violations and tier != 'thorough':
        explore(rep, 'thorough', seed + 1)


def explore(rep, tier, seed):
    import time
    t0 = time.time()
    cases = gen_cases(tier, seed)
    outs = [run_impl(c) for c in cases]
    arrs = [arrays(c) for c in cases]
    t1 = time.time()
    model = None
    try:
        model = vlib.run_coq_cases('c16m', HEADER, 'fun x : Z * Z * Z * Z => x', [coq_term(c, o, t, k) for c, o, (t, k) in zip(cases, outs, arrs)], per_file=14, timeout=400)
    except RuntimeError as e:
        rep.broken_obligation('correspondence:PsdMeso-model-evaluation', str(e)[-800:])
    t2 = time.time()
    n_dis = 0
    hist = {}
    nontrivial = set()
    for ci, (c, o, (t, k)) in enumerate(zip(cases, outs, arrs)):
        key = '%s/%s/%s/%s/%s' % (c['method'], c['geom'], c['tm'], c['entry'], o['oc'])
        hist[key] = hist.get(key, 0) + 1

        def fail(clause, what, c=c, o=o, ci=ci):
            # the calls of one run share a process: an earlier call with the same adsorbate name and temperature but other properties is part of the input
            prior = next((cases[j] for j in range(ci) if cases[j]['entry'] == 'iso' and cases[j]['ads'] != 'N' and cases[j]['T'] == c['T'] and cases[j]['props'] != c['props']
                          and outs[j]['oc'] == 'Ok'), None) if (c['entry'] == 'iso' and c['ads'] != 'N' and clause in ('kelvin', 'widths')) else None
            if c['entry'] == 'iso' and c['ads'] == 'N' and clause in ('kelvin', 'widths'):
                what += ' [shipped nitrogen at %s K; earlier psd_mesoporous calls in this process used it at %s K; property values from a fresh process: %r]' % (
                    c['T'], sorted({cases[j]['T'] for j in range(ci) if cases[j]['entry'] == 'iso' and cases[j]['ads'] == 'N'}),
                    {k: c['props'][k] for k in ('molar_mass', 'liquid_density', 'surface_tension')})
            rep.failure(classify(c, clause, o), what + ('' if prior is None else ' [after an earlier psd_mesoporous call in this process with the same adsorbate name and '
                                                        'temperature but properties %r; this call: %r]' % (
                                                            {k: prior['props'][k] for k in ('molar_mass', 'liquid_density', 'surface_tension')},
                                                            {k: c['props'][k] for k in ('molar_mass', 'liquid_density', 'surface_tension')})),
                        {'case': dict(c), 'prior': prior, 'clause': clause,
                         'earlier_backend_temperatures': [cases[j]['T'] for j in range(ci) if cases[j]['entry'] == 'iso' and cases[j]['ads'] == 'N'] if c['ads'] == 'N' else [], 'outcome': {kk: (vv if not isinstance(vv, list) else vv[:6]) for kk, vv in o.items()}})
        if model is not None and t is not None:
            code, agree, mn, mx = model[ci]
            ok = agree == 1 and (o['oc'] != 'Ok' or (mn, mx) == tuple(o['win']))
            if not ok:
                n_dis += 1
                if n_dis <= 5:
                    rep.broken_obligation('correspondence:PsdMeso-model-vs-implementation',
                                          {'case': {kk: (vv if not isinstance(vv, list) else vv[:4] + ['...']) for kk, vv in c.items()},
                                           'implementation': {kk: (vv if not isinstance(vv, list) else vv[:4]) for kk, vv in o.items()},
                                           'model': {'outcome_code': code, 'arrays_agree': agree, 'window': (mn, mx)}})
        if t is not None and judge(c, o, t, k, fail):
            nontrivial.add((c['method'], c['geom'], c['tm'], c['km'], c['branch'], c['entry'], c['lkind'], len(c['p']), c.get('vtype')))
        elif t is None and o['oc'] == 'Ok':
            fail('arguments', 'the analysis succeeded although its Kelvin/thickness model refuses the arguments')
    goals = []
    rnd = random.Random(seed + 3)
    idx = [i for i, (t, k) in enumerate(arrs) if t is not None]
    for i in (idx if tier == 'thorough' else rnd.sample(idx, min(40, len(idx)))):
        goals += formula_goals(cases[i], arrs[i][0], arrs[i][1], rnd)
    ng_bad = 0
    if goals:
        for g, okk in zip(goals, cl.run_goals('c16i', goals)):
            if not okk:
                ng_bad += 1
                if ng_bad <= 3:
                    rep.broken_obligation('correspondence:generated-Kelvin/thickness-formulas-vs-implementation (interval goal)', {'goal': g[:400]})
    rep.cov['timing_s'] = {'implementation': round(t1 - t0, 1), 'coq_model_evaluation': round(t2 - t1, 1), 'oracle_and_interval_goals': round(time.time() - t2, 1)}
    rep.cov['evaluations'] = rep.cov.get('evaluations', 0) + len(cases)
    rep.cov['distinct_nontrivial'] = len(nontrivial)
    rep.cov['rule'] = ('cases = random strictly increasing grids of 5-80 relative pressures (a fifth of them reaching 1e-7 / 1 - 1e-7, with open limits so that those points are used) with '
                       'non-decreasing volumes of six shapes: increments of comparable size, one exact step, increments log-uniform over 12 decades, one or two steps on a NEARLY flat curve '
                       '(increments 1e-12..1e-6 of the step), weak uptake in front of one large step, each optionally at an overall scale 1e-6..100; zero-thickness conservation is judged '
                       'per step to 1e-12 of the neighbouring volumes, the model correspondence to 1e-13 of the array scale for the zero model; a tenth of the cases use the shipped nitrogen '
                       '(thermodynamic backend) at five temperatures in the one process, judged with property values read in a fresh process; method x pore geometry x meniscus x '
                       'thickness model (Halsey, Harkins/Jura, zero, a callable) x Kelvin / Kelvin-KJS x branch x limits (default, random, on data points, one-sided, narrow), isotherms stored with relative or relative% pressures, '
                       'isotherm and raw entry points (the raw volumes as float64 / int64 / int32 arrays, lists and tuples of ints or floats, pandas Series - the result must be the float64 one); every case has its own adsorbate property set (two fixed, else random molar mass 2-150, density 0.3-3.2, surface tension '
                       '1-80) carried under ONE adsorbate name by a fresh object or by one shared object edited between the calls, all calls in one process at two temperatures; non-trivial = distinct (method, geometry, thickness, kelvin, branch, entry, limit kind, size) that returned a '
                       'distribution and passed every clause of the oracle')
    rep.cov['input_distribution'] = dict(sorted(hist.items()))
    iso_cases = [c for c in cases if c['entry'] == 'iso']
    rep.cov['adsorbate_history'] = {'isotherm_calls_in_one_process': len(iso_cases), 'adsorbate_name': ADS_NAME,
                                    'distinct_property_sets': len({tuple(sorted(c['props'].items())) for c in iso_cases}),
                                    'fresh_object_calls': sum(1 for c in iso_cases if c['carrier'] == 'fresh'),
                                    'shared_object_edited_between_calls': sum(1 for c in iso_cases if c['carrier'] == 'edited'),
                                    'temperatures': sorted({c['T'] for c in iso_cases})}
    rep.cov['correspondence'] = {'cases': len(cases), 'disagreements': n_dis, 'tolerance': '1e-7 relative or 1e-9 of the array scale', 'interval_goals': len(goals),
                                 'interval_goals_failed': ng_bad,
                                 'what': 'psd_mesoporous / psd_pygapsdh / psd_bjh / psd_dollimore_heal vs Charact/PsdMeso.v: outcome class, limits exactly, widths, areas, '
                                         'volumes, distribution, cumulative'}
    for i in (0, len(cases) // 2, len(cases) - 1):
        c, o = cases[i], outs[i]
        rep.cov['samples'].append({'method': c['method'], 'geometry': c['geom'], 'thickness': c['tm'], 'n': len(c['p']), 'limits': c['limits'],
                                   'outcome': o['oc'], 'volumes': o.get('pore_volumes', [])[:3]})
    rep.cov['raw_volume_numeric_types'] = {}
    for c in cases:
        if c['entry'] == 'raw':
            kk = '%s / %s' % (c.get('vtype'), 'zero thickness' if c['tm'] == 'zero thickness' else 'non-zero thickness')
            rep.cov['raw_volume_numeric_types'][kk] = rep.cov['raw_volume_numeric_types'].get(kk, 0) + 1
    rep.cov['isotherm_pressure_modes'] = {'relative': sum(1 for c in cases if c['entry'] == 'iso' and 'pmode' not in c),
                                          'relative%': sum(1 for c in cases if c.get('pmode') == 'relative%')}
    rep.cov['volume_shapes'] = {}
    for c in cases:
        rep.cov['volume_shapes'][c['kind']] = rep.cov['volume_shapes'].get(c['kind'], 0) + 1
    rep.cov['trusted_base'] += ['translator tools/py2v_charact.py (interval goals against the implementation)',
                                'translator tools/py2v_psdmeso.py (numpy idioms read as stencils; generated functions executed against the raw entry points, proved equal to the list model)',
                                'hand-written recurrences Charact/PsdMeso.v (validated by the correspondence; 256-bit floating point inside Coq)',
                                'adsorbate property reads are oracles', 'carrier: theorems over RNum, execution over a 256-bit float record of the same Num interface']
    rep.assumptions += ['IEEE rounding excluded (tolerances above)', 'a data point exactly equal to a limit is not judged by the oracle',
                        'standard-isotherm thickness models (interpolated tables) are not covered; isotherm-as-thickness-model not covered']


def replay(d):
    import logging
    logging.disable(logging.CRITICAL)
    c = d['replay']['case']
    if c.get('limits') is not None:
        c['limits'] = tuple(c['limits'])
    prior = d['replay'].get('prior')
    if prior:
        if prior.get('limits') is not None:
            prior['limits'] = tuple(prior['limits'])
        print('earlier call in the same process (same adsorbate name and temperature, properties %r): %s' % (prior['props'], run_impl(prior)['oc']))
    for T in d['replay'].get('earlier_backend_temperatures', []):
        warm = dict(c, T=T, p=[0.2, 0.4, 0.6, 0.8, 0.9], v=[0.1, 0.2, 0.3, 0.4, 0.5], limits=(None, None), entry='iso', branch='ads')
        print('earlier call in the same process: psd_mesoporous on shipped nitrogen at %s K: %s' % (T, run_impl(warm)['oc']))
    o = run_impl(c)
    t, k = arrays(c)
    print('case:', {kk: (vv if not isinstance(vv, list) else '%d values' % len(vv)) for kk, vv in c.items()})
    print('implementation now returns:', {kk: (vv if not isinstance(vv, list) else vv[:5]) for kk, vv in o.items()})
    msgs = []
    if t is not None:
        judge(c, o, t, k, lambda clause, what: msgs.append((clause, what)))
    for m in msgs:
        print('FAILS:', m)
    print('clause recorded:', d['replay']['clause'])
    return 1 if msgs else 0
