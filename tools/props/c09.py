"""C09 - database operations are atomic under statement failures and process death.

proof phase   : Props/C09.v (Db/DbAtomic.v: for EVERY program run under with_connection, every statement position, every fault
                kind, every prior content: file afterwards = pre-state or un-faulted post-state; exceptions named and refuted)
fault enumeration on the implementation: `pygaps.parsing.sqlite.sqlite3` is replaced by a proxy that counts cursor.execute calls and
                raises at call k an IntegrityError / InterfaceError / OperationalError or an exception the wrapper does not translate
                (ProgrammingError, KeyError, TypeError, ValueError, AttributeError; KeyboardInterrupt / SystemExit, which are not
                Exceptions), makes COMMIT itself raise, or `os._exit`s a forked child at call k / just before / just after commit;
                every public write operation x every k x three prior contents. Afterwards - while the caller still holds the
                exception, as inside an `except ... as e:` block - the connection object must be closed, an independent connection
                must get the write lock at once, all tables are read through a fresh connection: pre-state or post-state, PRAGMA
                foreign_key_check empty, retrieval works, and the retry succeeds.
correspondence: the same faulted calls run on the model inside Coq (outcome, statements executed, pre/post, retry outcome, registry,
                the calls made on the connection: connect / commit / rollback / close, in order)
"""
import os
import shutil

import vlib
from props import c08

MANIFEST = dict(
    text="Machine-checked (Coq 8.16, axiom-free) atomicity of with_connection in the statement-level model of parsing/sqlite.py: for every "
         "program (hence every public function), every prior database content, every statement position k and every fault kind (IntegrityError, "
         "InterfaceError, OperationalError, any other Exception, BaseException-only exceptions such as KeyboardInterrupt, process death at k, death just "
         "before / after commit, COMMIT itself raising) the file afterwards is the pre-state or the "
         "complete post-state of the un-faulted call, a call that reports an error wrote nothing, and a retry from the restored state repeats the "
         "un-faulted call; NO ORPHANS: the invariant 'every property row has its owner and type, every isotherm its material / adsorbate / type, every "
         "isotherm property and data row its isotherm, keys unique' holds for a fresh file and is preserved by every statement program run under "
         "with_connection whatever fails or dies wherever - hence after ANY history of faulted calls (induction over program trees and histories); it is "
         "decided inside Coq for the prepared contents of the run. CONNECTION PROTOCOL: the try / except / else / finally statement of with_connection is "
         "transcribed from the source on every run by a fail-closed translator (Gen/DbShapeGen.v) and interpreted with the semantics of Python's try statement "
         "(Db/DbConn.v); proved: the model's with_conn IS that interpretation (same outcome, file, registries, statement count for all programs, faults, crash "
         "points), and on every path the process survives the connection is closed exactly once as the last call made on it, COMMIT iff normal return - no fault "
         "kind leaves a connection (and its write lock) behind; the calls connect / commit / rollback / close are compared with the implementation on every "
         "faulted call, and after every fault - while the exception is still referenced - an independent connection must get the write lock at once. Two exceptions are proved as refuted items: an IntegrityError raised inside the `try/except IntegrityError: pass` of "
         "adsorbate/material overwrite is swallowed (old AND new properties are committed), and the in-memory registries are not rolled back, so "
         "the retry of an isotherm upload whose auto-insert was rolled back is refused. The model's transaction semantics are tied to the code on "
         "every run by injecting the same faults into the implementation (module proxy, forked child with os._exit) and comparing with the model "
         "executed inside Coq. SQLite's journal (durability of commit, rollback of a hot journal) is trusted and exercised, not proved.",
    note="Trusted: Coq kernel; SQLite rollback journal and python sqlite3's implicit BEGIN before DML; os._exit as the model of process death (no power "
         "loss, no torn pages, no concurrent writers); the harness proxy counting cursor.execute calls.",
    technique="Coq proof by induction over program trees (all statements x all faults) + exhaustive fault injection on the implementation compared with the model")

EXTRA_TARGETS = ['Db/DbShow.vo']
EXC = {'IntegrityError': 'EIntegrity', 'InterfaceError': 'EInterface', 'OperationalError': 'EOperational',
       # kinds with_connection does not translate: other subclasses of Exception ...
       'ProgrammingError': '(EExc 1)', 'KeyError': '(EExc 2)', 'TypeError': '(EExc 3)', 'ValueError': '(EExc 4)', 'AttributeError': '(EExc 5)',
       # ... and exceptions that are not Exceptions
       'KeyboardInterrupt': '(EBase 1)', 'SystemExit': '(EBase 2)'}
TRANSLATED = ['IntegrityError', 'InterfaceError', 'OperationalError']       # the kinds of the property text: every position, every run
OTHER_KINDS = ['ProgrammingError', 'KeyError', 'TypeError', 'ValueError', 'AttributeError', 'KeyboardInterrupt', 'SystemExit']
COMMIT_KINDS = ['OperationalError', 'IntegrityError', 'KeyboardInterrupt']
OC = dict(c08.OC)
for _n, _t in EXC.items():
    if _t.startswith('(EExc'):
        OC[100 + int(_t.split()[1].rstrip(')'))] = 'other:' + _n
    if _t.startswith('(EBase'):
        OC[200 + int(_t.split()[1].rstrip(')'))] = 'other:' + _n
EV = {'connect': 1, 'commit': 2, 'rollback': 3, 'close': 4}
BUSY_TIMEOUT = 0.25      # s; busy timeout of the library's connections during the campaign (nothing ever waits on a tree where the property holds)


def lock_probe(path):
    """can an independent connection take the write lock NOW?  True, or the error text"""
    import sqlite3
    c = sqlite3.connect(path, timeout=0.05, isolation_level=None)
    try:
        c.execute('BEGIN EXCLUSIVE')
        c.execute('ROLLBACK')
        return True
    except sqlite3.OperationalError as e:
        return str(e)
    finally:
        c.close()


def prep_ops():
    """the three prior contents: fresh file; + the targets of overwrite/delete; + further unrelated content"""
    iso_t = dict(cls='point', mat='m_t', ads='ua_t', T=77.0, meta={'operator': 'alpha'}, p=[0.1, 0.2, 0.3], l=[0.5, 1.0, 1.5])
    target = [
        dict(k='TyUp', t='ads', ty='tt_a', unit='K', desc='d', ow=False), dict(k='TyUp', t='mat', ty='tt_m', unit=None, desc=None, ow=False),
        dict(k='TyUp', t='iso', ty='tt_i', desc='d', ow=False),
        dict(k='EntUp', e='mat', name='m_t', props={'density': 2.5, 'note': 'alpha'}, auto=True, ow=False),
        dict(k='EntUp', e='ads', name='ua_t', props={'molar_mass': 28.0, 'note': 'beta'}, auto=True, ow=False),
        dict(k='EntUp', e='mat', name='m_del', props={'density': 1.5}, auto=True, ow=False),
        dict(k='EntUp', e='ads', name='ua_del', props={'grade': 'gamma'}, auto=True, ow=False),
        dict(k='IsoUp', iso=iso_t, am=False, aa=False),
    ]
    more = [
        dict(k='EntUp', e='mat', name='m_p', props={'density': 3.5, 'tag': ['alpha', 'beta2']}, auto=True, ow=False),
        dict(k='IsoUp', iso=dict(cls='model', mat='m_p', ads='nitrogen', T=87.3, meta={}, K=2.5), am=False, aa=False),
        dict(k='IsoUp', iso=dict(cls='base', mat='m_q', ads='ua_q', T=298.15, meta={'batch': 2.5}), am=True, aa=True),
    ]
    return {'fresh': [], 'target': target, 'populated': target + more}, iso_t


def write_ops(iso_t):
    """every public write operation, with the prior contents it is run on"""
    up = ['fresh', 'populated']
    tg = ['target', 'populated']
    new_point = dict(cls='point', mat='m_new', ads='ua_new', T=77.0, meta={'operator': 'beta', 'flag': True}, p=[0.1, 0.2], l=[0.4, 0.9], extra=[5.0, 4.5])
    return [
        ('adsorbate_to_db', dict(k='EntUp', e='ads', name='ua_n', props={'molar_mass': 44.0, 'grade': 'alpha', 'alias': ['ua_n_al']}, auto=True, ow=False), up),
        ('adsorbate_to_db(no autoinsert)', dict(k='EntUp', e='ads', name='ua_n', props={'molar_mass': 44.0}, auto=False, ow=False), up),
        ('adsorbate_to_db(overwrite)', dict(k='EntUp', e='ads', name='ua_t', props={'molar_mass': 30.0, 'tag': 'ok'}, auto=True, ow=True), tg),
        ('material_to_db', dict(k='EntUp', e='mat', name='m_n', props={'density': 1.25, 'grade': ['alpha', 'beta2']}, auto=True, ow=False), up),
        ('material_to_db(overwrite)', dict(k='EntUp', e='mat', name='m_t', props={'density': 9.5, 'tag': 'ok'}, auto=True, ow=True), tg),
        ('adsorbate_delete_db', dict(k='EntDel', e='ads', name='ua_del'), tg),
        ('material_delete_db', dict(k='EntDel', e='mat', name='m_del'), tg),
        ('adsorbate_property_type_to_db', dict(k='TyUp', t='ads', ty='tt_new', unit='K', desc='x y', ow=False), up),
        ('adsorbate_property_type_to_db(overwrite)', dict(k='TyUp', t='ads', ty='tt_a', unit='g/cm3', desc=None, ow=True), tg),
        ('material_property_type_to_db', dict(k='TyUp', t='mat', ty='tt_new', unit=None, desc='x y', ow=False), up),
        ('material_property_type_to_db(overwrite)', dict(k='TyUp', t='mat', ty='tt_m', unit='K', desc='d2', ow=True), tg),
        ('isotherm_type_to_db', dict(k='TyUp', t='iso', ty='tt_new', desc='x y', ow=False), up),
        ('isotherm_type_to_db(overwrite)', dict(k='TyUp', t='iso', ty='tt_i', desc='d2', ow=True), tg),
        ('adsorbate_property_type_delete_db', dict(k='TyDel', t='ads', ty='tt_a'), tg),
        ('material_property_type_delete_db', dict(k='TyDel', t='mat', ty='tt_m'), tg),
        ('isotherm_type_delete_db', dict(k='TyDel', t='iso', ty='tt_i'), tg),
        ('isotherm_to_db(autoinsert material+adsorbate)', dict(k='IsoUp', iso=new_point, am=True, aa=True), up),
        ('isotherm_to_db(existing references)', dict(k='IsoUp', iso=dict(cls='model', mat='m_t', ads='ua_t', T=87.3, meta={'note': 'x y'}, K=1.5), am=True, aa=True), tg),
        ('isotherm_to_db(base, autoinsert material)', dict(k='IsoUp', iso=dict(cls='base', mat='m_new2', ads='nitrogen', T=77.0, meta={}), am=True, aa=False), up),
        ('isotherm_delete_db', dict(k='IsoDel', how='id', target=None, _iso=iso_t), tg),
    ]


def snap(raw, I=None):
    """the content of a file, for equality tests (pre-state / post-state): every row of every table and the AUTOINCREMENT counters"""
    return (tuple(tuple(raw[t]) for t in c08.TABLES), tuple(raw['_counters']))


def classify(name, op, fault, kind, ctx):
    if kind == 'neither-pre-nor-post' and op['k'] == 'EntUp' and op['ow'] and fault[0] == 'raise' and fault[2] == 'IntegrityError' and fault[1] in (3, 4):
        return 'C09:overwrite-swallows-IntegrityError'
    if kind == 'retry' and op['k'] == 'IsoUp' and (op['am'] or op['aa']) and ctx.get('retry_outcome') == 'ParsingError' and ctx.get('lock_free'):
        if fault[0] in ('raise', 'commit_raise') and ctx.get('registry_changed'):
            return 'C09:retry-after-rolled-back-autoinsert'
        if fault[0] not in ('raise', 'commit_raise') and ctx.get('in_file_not_in_fresh_registry'):
            return 'C09:registry-not-loaded-from-file'
    return 'C09:unclassified:%s:%s:%s' % (kind, op['k'], fault[2] if fault[0] == 'raise' else fault[0] + ':' + fault[1] if fault[0] == 'commit_raise' else fault[0])


def in_process(fault):
    return fault[0] in ('raise', 'commit_raise')


def faulted_call(im, op, path, I, fault):
    """one faulted call in this process. The exception stays referenced (returned as `held`), as in a caller's `except ... as e:` block"""
    im.keep_exc = True
    im.px.fault = fault
    try:
        oc, n = c08.apply_op(im, op, path, I)[:2]
    finally:
        im.px.fault = None
        im.keep_exc = False
    held = im.last_exc
    return oc, n, [EV[e] for e in im.px.events], all(c.closed for c in im.px.conns), held


def explore(rep, tier, seed):
    import random
    rnd = random.Random(seed)
    work = c08.scratch_dir('c09_%d' % os.getpid())
    im = c08.Impl(work)
    im.px.timeout = BUSY_TIMEOUT
    I = c08.Intern()
    cases = []
    try:
        raw0 = c08.raw_dump(im.template)
        preps, iso_t = prep_ops()
        ops = write_ops(iso_t)
        P = {}
        for pname, plist in preps.items():
            im.reset_registry()
            path = os.path.join(work, 'prep_%s.db' % pname)
            shutil.copyfile(im.template, path)
            for o in plist:
                oc = c08.apply_op(im, o, path, I)[0]
                if oc != 'Ok':   # a well-formed operation of the preparation is refused: a violation by itself (the store cannot be built)
                    rep.failure('C09:unclassified:well-formed-operation-refused:%s' % o['k'], 'preparing the %r content: %s is refused with %s' % (pname, c08._plain(o), oc),
                                {'operation': 'prepare', 'op': c08._plain(o), 'prior_content': pname, 'fault': ['none'], 'kind': 'well-formed-operation-refused'})
            P[pname] = dict(path=path, reg=(list(im.AL), list(im.ML)), raw=c08.raw_dump(path, ro=False))
            P[pname]['regset'] = ({x.name for x in im.AL}, {x.name for x in im.ML})
        iso_t_id = c08.make_iso(iso_t).iso_id

        def restore(pname):
            im.AL[:] = P[pname]['reg'][0]; im.ML[:] = P[pname]['reg'][1]

        def copy(pname):
            p = os.path.join(work, 'run.db')
            for ext in ('', '-journal', '-wal', '-shm'):
                if os.path.exists(p + ext):
                    os.remove(p + ext)
            shutil.copyfile(P[pname]['path'], p)
            return p
        for name, op, contents in ops:
            if op['k'] == 'IsoDel':
                op = dict(op); op['target'] = iso_t_id
            for pname in contents:
                # un-faulted run: number of statements, post-state, the calls made on the connection
                restore(pname); path = copy(pname)
                pre = snap(c08.raw_dump(path, ro=False), I)
                oc0, n0, term, _, _ = c08.apply_op(im, op, path, I)
                ev0, closed0 = [EV[e] for e in im.px.events], all(c.closed for c in im.px.conns)
                post = snap(c08.raw_dump(path, ro=False), I)
                if not (oc0 == 'Ok' and post != pre):
                    # the un-faulted call on a fresh copy of the prepared file fails although nothing was injected: only what EARLIER
                    # (faulted, rolled-back) calls of this process left behind outside the file can be the cause -> "the same operation
                    # can be repeated successfully afterwards" is violated
                    rep.failure('C09:unclassified:unfaulted-call-fails:%s' % op['k'], '%s on the %s content without any fault returns %s (file changed: %s) after the earlier faulted calls of this process'
                                % (name, pname, oc0, post != pre), {'operation': name, 'op': c08._plain(op), 'prior_content': pname, 'fault': ['none'], 'kind': 'unfaulted-call-fails'})
                    continue
                if ev0 != [1, 2, 4] or not closed0:
                    rep.failure('C09:unclassified:connection-protocol:%s' % op['k'], '%s on %s content without any fault: calls on the connection %s, closed=%s'
                                % (name, pname, ev0, closed0), {'operation': name, 'op': c08._plain(op), 'prior_content': pname, 'fault': ['none'], 'kind': 'connection-protocol'})
                # every position x the kinds of the property text; every position x further kinds the wrapper does not translate
                # (all of them in the thorough tier, two per operation and content otherwise); a failing COMMIT
                others = OTHER_KINDS if tier == 'thorough' else rnd.sample(OTHER_KINDS, 2)
                faults = [('raise', k, e) for k in range(1, n0 + 1) for e in TRANSLATED + list(others)]
                faults += [('commit_raise', e) for e in (COMMIT_KINDS if tier == 'thorough' else [COMMIT_KINDS[0], rnd.choice(COMMIT_KINDS[1:])])]
                ks = list(range(1, n0 + 1)) if tier == 'thorough' else sorted({1, 2, (n0 + 1) // 2, n0 - 1, n0} & set(range(1, n0 + 1)))
                faults += [('exit', k) for k in ks] + [('exit_before_commit',), ('exit_after_commit',)]
                for fault in faults:
                    restore(pname); path = copy(pname)
                    reg_before = ({x.name for x in im.AL}, {x.name for x in im.ML})
                    held = None
                    events, closed = None, None
                    if in_process(fault):
                        oc, n, events, closed, held = faulted_call(im, op, path, I, fault)
                    else:
                        pid = os.fork()
                        if pid == 0:                       # the process that dies
                            try:
                                im.px.fault = fault
                                c08.apply_op(im, op, path, I)
                            finally:
                                os._exit(0)
                        _, status = os.waitpid(pid, 0)
                        code = os.WEXITSTATUS(status)
                        oc, n = ('died' if code in (40, 41, 42) else 'survived:%d' % code), None
                    # `held` is still referenced here: we are where the caller's `except ... as e:` block would be
                    lock_free = lock_probe(path)
                    raw = c08.raw_dump(path, ro=False)            # a fresh connection: SQLite rolls a hot journal back here
                    now = snap(raw, I)
                    reg_after = ({x.name for x in im.AL}, {x.name for x in im.ML})
                    case = dict(name=name, op=op, prep=pname, fault=fault, term=term, oc=oc, n=n, oc0=oc0, n0=n0, events=events, closed=closed,
                                lock_free=lock_free, is_pre=now == pre, is_post=now == post, fk=raw['_fk'], reg_same=reg_after == reg_before, ctx={})
                    case['ctx']['registry_changed'] = reg_after != reg_before
                    case['ctx']['lock_free'] = lock_free is True
                    # everything stored before remains retrievable
                    try:
                        im.S.materials_from_db(db_path=path, verbose=False); im.S.isotherms_from_db(db_path=path, verbose=False)
                        case['retrievable'] = True
                    except Exception as e:  # noqa
                        case['retrievable'] = repr(e)[:200]
                    # retry (after process death: in a new process, i.e. with the import-time registries)
                    if case['is_pre']:
                        if not in_process(fault):
                            im.reset_registry()
                            if op['k'] == 'IsoUp':
                                mats = {r[1] for r in raw['materials']}; adsn = {r[1] for r in raw['adsorbates']}
                                aname = op['iso']['ads']
                                case['ctx']['in_file_not_in_fresh_registry'] = (
                                    (op['am'] and op['iso']['mat'] in mats and op['iso']['mat'] not in {x.name for x in im.ML}) or
                                    (op['aa'] and aname in adsn and aname not in {x.name for x in im.AL}))
                        oc2 = c08.apply_op(im, op, path, I)[0]
                        case['retry'] = oc2
                        case['ctx']['retry_outcome'] = oc2
                        case['retry_post'] = snap(c08.raw_dump(path, ro=False), I) == post
                    held = None                                   # the caller's handler ends here
                    im.last_exc = None
                    cases.append(case)
    finally:
        im.close()
    # ---- the same faulted calls on the model, inside Coq
    header = c08.HEADER
    for pname in P:
        header += 'Definition db_%s := %s.\nDefinition reg_%s := (mkReg %s %s).\n' % (
            pname, c08.db_literal(P[pname]['raw'], I), pname, c08.zl(sorted({I.atom(x) for x in P[pname]['regset'][0]})), c08.zl(sorted({I.atom(x) for x in P[pname]['regset'][1]})))
    header += 'Definition reg0 := (mkReg %s []).\n' % c08.zl(sorted({I.atom(x.name) for x in im.reg0[0]}))

    def flt(f):
        if f[0] == 'raise': return '(Some (%d%%nat, %s)) CNone' % (f[1], EXC[f[2]])
        if f[0] == 'exit': return '(Some (%d%%nat, ECrash)) CNone' % f[1]
        if f[0] == 'commit_raise': return 'None (CCommitRaises %s)' % EXC[f[1]]
        return 'None ' + ('CBeforeCommit' if f[0] == 'exit_before_commit' else 'CAfterCommit')
    terms = ['(show_fault %s reg0 %s db_%s reg_%s)' % (flt(c['fault']), c['term'], c['prep'], c['prep']) for c in cases]
    model = None
    try:
        model = vlib.run_coq_cases('c09m', header, 'fun x : list Z => x', terms, per_file=max(20, len(terms) // 16 + 1), nested=True, timeout=1500)
    except RuntimeError as e:
        rep.broken_obligation('correspondence:DbAtomic-evaluation', str(e)[-1200:])
    c08.check_wf(rep, header, ['db_%s' % pname for pname in P])
    n_dis = 0
    hist = {}
    nontrivial = set()
    for ci, c in enumerate(cases):
        f = c['fault']
        fk = f[2] if f[0] == 'raise' else 'commit raises ' + f[1] if f[0] == 'commit_raise' else f[0]
        hist[fk] = hist.get(fk, 0) + 1
        replay = {'operation': c['name'], 'op': c08._plain(c['op']), 'prior_content': c['prep'], 'fault': list(f)}

        def fail(kind, what):
            rep.failure(classify(c['name'], c['op'], f, kind, c['ctx']), '%s on %s content, fault %s: %s' % (c['name'], c['prep'], list(f), what), dict(replay, kind=kind))
        # property oracle on the implementation
        if not in_process(f) and c['oc'] != 'died':
            rep.broken_obligation('harness:child-did-not-die', replay)
        # the connection: closed when the call ends (also while the caller holds the exception), no lock left behind
        if in_process(f) and not c['closed']:
            fail('connection-not-closed', 'the call ended with %s but its connection object is not closed (calls made on it: %s)' % (c['oc'], c['events']))
        if c['lock_free'] is not True:
            fail('lock-held', 'right after the failed call (caller saw %s, exception still referenced) an independent connection cannot take the write lock: %s'
                 % (c['oc'], c['lock_free']))
        if not (c['is_pre'] or c['is_post']):
            fail('neither-pre-nor-post', 'the file afterwards is neither the state before the call nor the complete effect (caller saw %s)' % c['oc'])
        if c['oc'] not in ('Ok', 'died') and not c['is_pre']:
            fail('error-but-written', 'the caller saw %s but the file changed' % c['oc'])
        if f[0] in ('exit', 'exit_before_commit') and not c['is_pre']:
            fail('death-before-commit-written', 'process died before commit but the file changed')
        if f[0] == 'exit_after_commit' and not c['is_post']:
            fail('death-after-commit-lost', 'process died after commit returned but the file lacks the effect')
        if c['fk']:
            fail('orphans', 'PRAGMA foreign_key_check: %r' % (c['fk'][:3],))
        if c['retrievable'] is not True:
            fail('not-retrievable', 'retrieval after the fault raised %s' % c['retrievable'])
        if c['is_pre'] and (c.get('retry') != 'Ok' or not c.get('retry_post')):
            fail('retry', 'repeating the call after the failure -> %s (file %s the un-faulted effect)' % (c.get('retry'), 'has' if c.get('retry_post') else 'lacks'))
        elif c['is_pre']:
            nontrivial.add((c['name'], c['prep'], fk, f[1] if f[0] in ('raise', 'exit') else 0))
        # correspondence with the model
        if model is not None:
            m = model[ci]
            moc, mn, mpre, mpost, moc0, mn0, moc2, mretry_post, mreg, mclosed = m[:10]
            mev = m[10:]
            ok = (OC.get(moc) == c['oc'] and (c['n'] is None or mn == c['n']) and bool(mpre) == c['is_pre'] and bool(mpost) == c['is_post']
                  and OC.get(moc0) == c['oc0'] and mn0 == c['n0'])
            if c['is_pre'] and ok:
                ok = OC.get(moc2) == c.get('retry') and bool(mretry_post) == bool(c.get('retry_post'))
            if in_process(f) and ok:
                ok = bool(mreg) == c['reg_same'] and bool(mclosed) == c['closed'] and mev == c['events']
            if not ok:
                n_dis += 1
                if n_dis <= 5:
                    rep.broken_obligation('correspondence:DbAtomic-vs-implementation',
                                          dict(replay, model=m, implementation=[c['oc'], c['n'], c['is_pre'], c['is_post'], c['oc0'], c['n0'], c.get('retry'), c.get('retry_post'), c['reg_same'], c['closed'], c['events']]))
    rep.cov['evaluations'] += len(cases)
    rep.cov['distinct_nontrivial'] += len(nontrivial)
    rep.cov['rule'] = ('every public write operation (20 call shapes incl. overwrite / auto-insert / nested uploads) x prior content {fresh db_create file, '
                       'file holding the targets, populated file} x EVERY statement position k x {IntegrityError, InterfaceError, OperationalError, + %s exception kinds '
                       'with_connection does not translate (of ProgrammingError, KeyError, TypeError, ValueError, AttributeError, KeyboardInterrupt, SystemExit)}; COMMIT '
                       'itself raising; process death (forked child, os._exit) at %s positions, just before and just after commit. After every fault, with the exception '
                       'still referenced: connection closed, write lock free for an independent connection, file = pre- or post-state, retry. non-trivial = distinct '
                       '(operation, content, fault kind, k) whose file was the pre-state and whose retry then produced the complete un-faulted effect'
                       % (('all 7', 'all') if tier == 'thorough' else ('2 (drawn per operation and content) of the 7', 'up to 5')))
    rep.cov['input_distribution'] = hist
    rep.cov['correspondence'] = {'cases': len(cases), 'disagreements': n_dis,
                                 'what': 'Db/DbModel.v with_conn under the same fault (vm_compute) vs implementation: outcome class, statements executed, pre/post state, '
                                         'un-faulted outcome and statement count, retry outcome and effect, registry change, connection closed, calls made on the connection (connect / commit / rollback / close)'}
    rep.cov['samples'] += [{'operation': c['name'], 'content': c['prep'], 'fault': list(c['fault']), 'outcome': c['oc'], 'pre': c['is_pre'], 'post': c['is_post'], 'retry': c.get('retry')}
                           for c in cases[::max(1, len(cases) // 6)][:6]]
    return cases


def run(rep, tier, seed):
    vlib.standard_proof_phase(rep, 'C09', extra_targets=EXTRA_TARGETS)
    explore(rep, tier, seed)
    if rep.broken and not rep.violations and tier != 'thorough':
        explore(rep, 'thorough', seed + 1)
    rep.cov['trusted_base'] += ['SQLite rollback journal / durability of COMMIT and python sqlite3 implicit transactions: exercised by the fault enumeration, not proved',
                                'process death = os._exit of a forked child (no power loss, torn pages, concurrent writers)']
    rep.assumptions += ['theorem public_call_atomic excludes an IntegrityError raised inside the try/except of overwrite uploads (refuted item)',
                        'retry theorem needs the registries of the un-faulted start (refuted item: rolled-back auto-insert)']


def replay(d):
    import logging
    logging.disable(logging.CRITICAL)
    r = d['replay']
    work = c08.scratch_dir('c09_replay_%d' % os.getpid())
    im = c08.Impl(work)
    im.px.timeout = BUSY_TIMEOUT
    I = c08.Intern()
    try:
        preps, iso_t = prep_ops()
        path = os.path.join(work, 'x.db')
        shutil.copyfile(im.template, path)
        for o in preps[r['prior_content']]:
            c08.apply_op(im, o, path, I)
        op = [o for n, o, _ in write_ops(iso_t) if n == r['operation']][0]
        if op['k'] == 'IsoDel':
            op = dict(op); op['target'] = c08.make_iso(iso_t).iso_id
        pre = snap(c08.raw_dump(path, ro=False), I)
        f = tuple(r['fault'])
        held = None
        if f[0] == 'none':
            print('call ->', c08.apply_op(im, op, path, I)[:2], 'calls on the connection', im.px.events, 'closed', all(c.closed for c in im.px.conns))
        elif in_process(f):
            oc, n, events, closed, held = faulted_call(im, op, path, I, f)
            print('faulted call ->', (oc, n), '; calls made on the connection:', [k for e in events for k, v in EV.items() if v == e], '; connection closed:', closed)
        else:
            pid = os.fork()
            if pid == 0:
                try:
                    im.px.fault = f; c08.apply_op(im, op, path, I)
                finally:
                    os._exit(0)
            print('child exit status', os.WEXITSTATUS(os.waitpid(pid, 0)[1]))
            im.reset_registry()
        print('independent connection can take the write lock while the exception is referenced:', lock_probe(path))
        now = snap(c08.raw_dump(path, ro=False), I)
        print('file equals pre-state:', now == pre)
        for t, a, b in zip(c08.TABLES, pre[0], now[0]):
            if a != b:
                print(' table', t, 'removed', sorted(set(a) - set(b), key=repr)[:5], 'added', sorted(set(b) - set(a), key=repr)[:5])
        print('retry (exception still referenced) ->', c08.apply_op(im, op, path, I)[0])
        held = None
    finally:
        im.close()
    print('kind of failure recorded:', r.get('kind'))
    return 1
