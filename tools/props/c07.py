"""C07 - CSV, Excel and AIF round trips preserve the isotherm.

proof phase   : Props/C07.v over Codec/CastString.v (cast_string / _to_string on ASCII strings, Python float grammar as a recogniser),
                Codec/CsvDoc.v (the CSV document: writer and reader), Codec/XlDoc.v + Gen/XlGen.v (the Excel workbook as two abstract
                cell grids: writer and reader; the reader's cell tests, the header guard and the field table GENERATED from excel.py)
                and Codec/AifDoc.v (the AIF block as an abstract item list: writer and reader)
correspondence: cast_string on 20 000 structured ASCII strings vs the Gallina model executed in Coq (kind of result and integer value);
                the model's CSV document vs isotherm_to_csv's text line by line and the model's import of that text vs the state of
                isotherm_from_csv's result, on generated isotherms, inside Coq (oracles repr / float() / _from_list as per-case tables);
                the model's two worksheets vs the cells xlrd reads from the file isotherm_to_xl wrote, cell by cell, and the model's import
                of those cells vs the state of isotherm_from_xl's result (oracles dtype names / str / literal_eval as per-case tables);
                the model's AIF item list vs the items gemmi parses from isotherm_to_aif's text, item by item, and the model's import of
                those items vs the state of isotherm_from_aif's result (oracles repr / float() / _from_list / to_numeric as tables)
oracle/search : on the implementation: cast_string(_to_string(v)) == v (typed) on structured values of the documented domain;
                export + import through CSV / AIF / Excel of generated isotherms (three classes x unit configurations x data shapes x
                metadata drawn from the format's value domain, string and file targets): material and properties, adsorbate,
                temperature, unit labels, every cell to 8 decimals, branch marks and order, model dictionary, metadata values and
                types, == when the content is equal; a third of the isotherms carry falsy / special values (0, 0.0, -0.0, False, '', NaN,
                infinities, denormals, 1e-9, 1e22, 1e300, int zeros) at the first, a middle and the last row of the pressure, loading
                and extra columns, or in the model parameters / ranges; a separate malformed stream (separator / quote / newline / blanks in text) whose
                only oracle is "pyGAPS error or unchanged value"
"""
import math
import copy
import os
import random
import re

import numpy as np

import vlib
from props import codec_common as cc
from props import codec_hist as ch
from props import c06

MANIFEST = dict(
    text="PARTIAL. Machine-checked (Coq 8.16, axiom-free): (1) the string codec shared by the CSV and AIF parsers - a Gallina model of _is_none / "
         "_is_bool / isnumeric / _is_float (Python's float grammar as a recogniser) / _is_list / cast_string in the code's order - reads str(n) "
         "back as n for EVERY n >= 0 (induction over decimal numerals), None/True/False as themselves, every text outside the spellings of "
         "none/boolean/number/list unchanged, float-shaped strings through float(); (2) the CSV DOCUMENT (Codec/CsvDoc.v): writer (key<sep>value "
         "lines from to_dict, _material_ flattening, markers, table with 8-decimal texts and ads/des marks, model lines) and reader (rstrip, "
         "split, ParsingError, cast_string, version pop, _material_ regrouping with str.replace, table rows with the branch column rebuilt, "
         "model lines, constructors of the C06 model): by induction over the metadata list and the row list, the reader applied to the writer's "
         "document gives back the keyword dictionary (for keys without separator / leading blank / marker spelling and values in the domain "
         "cast_string(_to_string v) = v), the column names and every row in order with its mark and its cells through the cell codec; a value "
         "whose text contains the separator is refused with ParsingError whatever precedes or follows it. Refuted with witnesses: negative ints "
         "come back as floats, numeric/boolean/none-looking text changes type, tuples come back as text, trailing blanks are stripped, a key "
         "spelled like 'data...'/'model...' ends the metadata, a material property key containing '_material_' is mangled, the model rmse comes "
         "back as text. (3) the EXCEL WORKBOOK (Codec/XlDoc.v): the 'data' and 'otherdata' sheets as abstract cell grids; writer (header fields "
         "written only `if val:`, type cell, dtype row, column names, one row per point with the ads/des mark, model block, remaining items) and "
         "reader (EMPTY header cell -> None, the scans for the last data row / header column / model parameter / otherdata row, dtype cells + "
         "astype, branch column rebuilt, BOOLEAN / EMPTY otherdata values, version and iso_id pops, _material_ regrouping); the cell tests of the "
         "scans, the header guard and the field table are GENERATED from excel.py (Gen/XlGen.v, tools/py2v_xl.py, fail-closed). Proved: a NUMBER "
         "cell never ends a scan (so a pressure of exactly 0 does not end the table); by induction over the row list the reader's table on the "
         "writer's sheet returns the column names and EVERY row in order with its mark and its values through the library and the recorded "
         "dtype; by induction over the metadata list / parameter list the otherdata rows / parameter rows of a dictionary in the value domain "
         "are read back as that dictionary; the reader applied to the writer's workbook up to the constructor call for metadata-only and point "
         "isotherms; instances for the library as it behaves (any number is a valid pressure cell; floats, nan, inf, booleans, None, non-empty "
         "text are in the domain). Refuted with witnesses: ints come back as floats, empty text as None, a falsy header value is not written. "
         "(4) the AIF BLOCK (Codec/AifDoc.v): the document as an abstract item list (pairs, loops); writer (sample_ flattening, audit / named / "
         "unit / _pygaps_ pairs with set_pair semantics, one _adsorp_ then one _desorp_ loop with 8-decimal texts, model pairs) and reader "
         "(strip(\"'\"), named tags, _pygaps_ tags through cast_string, loops with to_numeric per column, sample_ regrouping, ads rows then des "
         "rows, model dictionary); gemmi is the identity on single-token values. Proved: by induction over the metadata list the _pygaps_ pairs "
         "the writer appends are read back as the dictionary for values with cast_string(str(v).strip(\"'\")) = v (instances: every non-negative "
         "int, booleans, None, plain text without outer quotes, floats under the oracles' contract); witness: a table starting and ending at "
         "pressure 0 with falsy metadata is read back. Refuted with witnesses: interleaved marks are regrouped, outer quotes are lost, negative "
         "ints come back as floats. The named tags, unit strings, loops and model pairs of AIF are covered by the per-run comparison and the "
         "witnesses, not by a general theorem. "
         "All four models are compared with the implementation inside Coq on every run (20 000 strings; ~110 generated CSV documents line by "
         "line; ~110 generated workbooks cell by cell; ~110 generated AIF blocks item by item; and their re-imported state). The theorems stop at "
         "the constructor call and take repr / float() / _from_list / pandas' cell reader / to_numeric / dtype names / astype / the xlwt+xlrd cell "
         "codec / gemmi through explicit premises or oracles. NOT modelled in Coq: pandas quoting, the .xls byte format, CIF text syntax: beyond the "
         "modelled fragments the round trips are judged on the implementation by a field-by-field oracle over generated isotherms (validation). Round 4: the parsers' "
         "results must be FRESH objects - for a third of the round trips of every format the imported copy is edited in place (list / dict valued "
         "metadata and material properties, model ranges and parameters, a cell, a new key) and the same text / file is imported again; the second "
         "import must equal the first (module-level caches or shared defaults in the parsers); this is judged on the implementation only: the Coq "
         "models take _from_list as a pure function and cannot express object sharing.",
    note="Trusted: Coq kernel; Python float()/repr()/int()/str()/ast.literal_eval as oracles (finite tables per case in the correspondences); pandas "
         "CSV reader/writer on homogeneous columns, pandas dtype names / astype, xlwt/xlrd (the model of their cell codec is compared cell by cell "
         "on every run), gemmi; numpy round(8) = exact rounding away from ties; the translators py2v_tables / py2v_xl; the harness.",
    technique="Coq proof (induction over numerals, metadata lists and row lists; evaluation) on hand models tied by per-run differentials executed in Coq, with the Excel reader's cell tests generated from the source; round-trip oracle on the implementation with special-value injection")

SCR = os.path.join(vlib.VERIF, '.scratch')
HEADER = """From Coq Require Import ZArith NArith String List Bool Ascii.
From PG Require Import Lib.Py Codec.CastString.
Import ListNotations. Open Scope string_scope.
Definition bs (l : list nat) : string := fold_right (fun n s => String (ascii_of_nat n) s) EmptyString l.
"""


# ------------------------------------------------------------------ A. cast_string differential
def gen_strings(rnd, n):
    out = set()
    digits = '0123456789'
    def num():
        k = rnd.random()
        s = rnd.choice(['', '', '-', '+'])
        ip = ''.join(rnd.choice(digits) for _ in range(rnd.randint(0, 5)))
        if rnd.random() < 0.15 and len(ip) > 1:
            j = rnd.randrange(1, len(ip)); ip = ip[:j] + rnd.choice(['_', '__']) + ip[j:]
        fp = ('.' + ''.join(rnd.choice(digits) for _ in range(rnd.randint(0, 4)))) if rnd.random() < 0.5 else ''
        ex = (rnd.choice('eE') + rnd.choice(['', '-', '+']) + ''.join(rnd.choice(digits) for _ in range(rnd.randint(0, 3)))) if rnd.random() < 0.4 else ''
        body = s + ip + fp + ex
        if k < 0.1: body = ' ' + body
        elif k < 0.2: body = body + rnd.choice([' ', '\t'])
        elif k < 0.25: body = body.replace('.', ',')
        elif k < 0.3: body = body + rnd.choice('xjfL_')
        return body
    def word():
        w = rnd.choice(['none', 'true', 'false', 'nan', 'inf', 'infinity', 'None', 'True', 'False', 'NaN', 'Inf', 'nul', 'null', 'yes', 'tru', 'nane', 'infinit'])
        w = ''.join(c.upper() if rnd.random() < 0.3 else c for c in w)
        k = rnd.random()
        if k < 0.15: w = rnd.choice('+-') + w
        elif k < 0.25: w = ' ' + w
        elif k < 0.3: w = w + ' '
        return w
    def bracket():
        inner = ' '.join(rnd.choice([num(), word(), 'a', 'Cu', '1', '2.5']) for _ in range(rnd.randint(0, 3)))
        o, c = rnd.choice([('[', ']'), ('[', ']'), ('(', ')'), ('[', ''), ('', ']'), ('[', '] ')])
        return o + inner + c
    alpha = '0123456789.eE+-_naifNtruUlso[]() ,\t'
    while len(out) < n:
        k = rnd.random()
        if k < 0.4: s = num()
        elif k < 0.6: s = word()
        elif k < 0.72: s = bracket()
        elif k < 0.8: s = rnd.choice(cc.TEXT + cc.NUMLIKE + cc.BOOLLIKE + cc.NONELIKE + cc.LISTLIKE + cc.BLANKS)
        elif k < 0.86: s = repr(rnd.choice(cc.FLOATS + [rnd.uniform(-1e6, 1e6), rnd.random() * 10 ** rnd.randint(-30, 30)]))
        else: s = ''.join(rnd.choice(alpha) for _ in range(rnd.randint(0, 7)))
        if all(ord(c) < 128 and (32 <= ord(c) or c == '\t') for c in s):
            out.add(s)
    return sorted(out)


def py_cast_code(s):
    from pygaps.utilities.string_utilities import cast_string
    try:
        v = cast_string(s)
    except Exception:  # noqa   only _from_list (ast.literal_eval) raises on ASCII input
        return [4, 0]
    if v is None: return [0, 0]
    if isinstance(v, bool): return [1, int(v)]
    if isinstance(v, int): return [2, v]
    if isinstance(v, float): return [3, 0]
    if isinstance(v, str): return [5, 0] if v == s else [99, 0]
    return [4, 0]


def cast_differential(rep, tier, seed):
    rnd = random.Random(seed + 11)
    strings = gen_strings(rnd, 20000 if tier == 'quick' else 100000)
    impl = [py_cast_code(s) for s in strings]
    model = None
    try:
        model = vlib.run_coq_cases('c07s', HEADER, 'cast_code', [cc.cstr(s) for s in strings], per_file=1000, nested=True)
    except RuntimeError as e:
        rep.broken_obligation('correspondence:CastString-evaluation', str(e)[-800:])
    n_dis = 0
    kinds = {}
    if model is not None:
        for s, a, b in zip(strings, impl, model):
            kinds[a[0]] = kinds.get(a[0], 0) + 1
            if list(a) != list(b):
                n_dis += 1
                if n_dis <= 5:
                    rep.broken_obligation('correspondence:CastString-vs-implementation', {'string': s, 'implementation [kind,int]': a, 'model [kind,int]': b})
    rep.cov['cast_string_differential'] = {'strings': len(strings), 'disagreements': n_dis,
                                           'kinds(0 None,1 bool,2 int,3 float,4 list,5 str)': dict(sorted(kinds.items()))}
    rep.cov['evaluations'] += len(strings)
    return len({(a[0], len(s)) for s, a in zip(strings, impl)})


# ------------------------------------------------------------------ B. cast_string(_to_string(v)) == v on the documented domain
def plain_text(s, sep=','):
    """text of the CSV/AIF value domain: not the spelling of none / boolean / number / list, no separator, quote, newline, outer blanks"""
    if not s or s != s.strip() or s.lower() in ('none', 'true', 'false') or s.isnumeric():
        return False
    try:
        float(s)
        return False
    except ValueError:
        pass
    if (s.startswith('[') and s.endswith(']')) or any(c in s for c in (sep, "'", '"', '\n', '\r', '#', '\t')):
        return False
    return True


def domain_value(rnd, fmt):
    """a metadata value of the format's value domain"""
    while True:
        v = cc.gen_value(rnd, 'scalar' if fmt == 'xl' else 'flat')
        if isinstance(v, str) and not plain_text(v):
            continue
        if isinstance(v, list) and (fmt == 'aif' or any(isinstance(x, str) for x in v)):
            continue      # AIF value domain: numbers, booleans, plain text (lists are written with str() and not read back)
        if isinstance(v, float) and (v != v or v in (float('inf'), float('-inf'))):
            continue
        return v


def to_string_oracle(rep, tier, seed):
    from pygaps.utilities.string_utilities import _to_string, cast_string
    rnd = random.Random(seed + 13)
    n = 20000 if tier == 'quick' else 100000
    bad = 0
    hist = {}
    seen = {}
    for _ in range(n):
        v = domain_value(rnd, 'csv')
        if rnd.random() < 0.3 and isinstance(v, float):
            v = rnd.choice([rnd.uniform(-1e9, 1e9), rnd.random() * 10.0 ** rnd.randint(-300, 300), float(rnd.randint(-10 ** 6, 10 ** 6))])
        if rnd.random() < 0.2 and isinstance(v, int) and not isinstance(v, bool):
            v = rnd.randint(0, 10 ** rnd.randint(1, 30))
        hist[type(v).__name__] = hist.get(type(v).__name__, 0) + 1
        try:
            w = cast_string(_to_string(v))
            ok = cc.same_value(v, w)
        except Exception as e:  # noqa
            w, ok = 'raised ' + type(e).__name__, False
        if not ok:
            neg = (isinstance(v, int) and not isinstance(v, bool) and v < 0) or (isinstance(v, list) and False)
            tag = 'C07:cast:negative-int-becomes-float' if neg and isinstance(w, float) and w == float(v) else 'C07:unclassified:cast:%s' % type(v).__name__
            seen[tag] = seen.get(tag, 0) + 1
            if seen[tag] <= 3:
                rep.failure(tag, 'cast_string(_to_string(%r)) = %r' % (v, w), {'kind': 'cast', 'value': repr(v)})
            bad += 1
    rep.cov['to_string_oracle'] = {'values': n, 'changed': bad, 'types': hist}
    rep.cov['evaluations'] += n


# ------------------------------------------------------------------ C. document round trips
# values that are falsy or otherwise special for Python / the containers: exact and signed zeros, magnitudes below the 8-decimal
# grid and denormals, magnitudes where str() switches to exponent notation, infinities, missing values
CELL_FLOATS = [0.0, 0.0, 0.0, 0.0, -0.0, 1e-9, -1e-9, 4e-9, 5e-324, 1e-300, 1e-8, 1e15, 1e16, 1e22, 1e300, float('inf'), float('-inf'), float('nan')]
CELL_INTS = [0, 0, 0, -1, 1, 2 ** 31, 10 ** 15]
PARAM_FLOATS = [0.0, 0.0, 0.0, 5e-324, 1e-300, 1e-16, 1e16, 1e22, 1e300]


def _positions(rnd, n):
    """FIRST / MIDDLE / LAST row (any non-empty subset)"""
    pos = [k for k in (0, n // 2, n - 1) if rnd.random() < 0.5] or [rnd.choice([0, n // 2, n - 1])]
    return sorted(set(pos))


def special_values(rnd, spec, fmt):
    """puts special values at the first / a middle / the last row of the pressure column, the loading column and the extra columns of a
    point isotherm (each column keeps its kind: floats in float columns, ints in int columns, booleans in boolean columns, text in
    text columns), and at the first / middle / last parameter and the range bounds of a model"""
    if spec['cls'] == 'point':
        d = spec['data']
        n = len(d['p'])
        targets = [('p', d['p']), ('l', d['l'])] + [(k, v) for k, v in d['cols'].items()]
        rnd.shuffle(targets)
        for name, col in targets[:rnd.choice([1, 1, 2, 3])]:
            isint = all(isinstance(x, int) and not isinstance(x, bool) for x in col)
            for k in _positions(rnd, n):
                x = col[k]
                if isinstance(x, bool):
                    col[k] = False
                elif isinstance(x, str):
                    if fmt == 'xl':            # CSV / AIF: an empty cell IS the missing value (outside the value domain of a text column)
                        col[k] = ''
                elif isint:
                    col[k] = rnd.choice(CELL_INTS)
                else:
                    col[k] = rnd.choice(CELL_FLOATS)
    elif spec['cls'] == 'model':
        m = spec['model']
        names = list(m['params'])
        for k in _positions(rnd, len(names)):
            m['params'][names[k]] = rnd.choice(PARAM_FLOATS)
        if rnd.random() < 0.5:
            m['prange'] = (0.0, m['prange'][1])
        if rnd.random() < 0.3:
            m['lrange'] = (0.0, rnd.choice([0.0, 1e-300, 1e22, m['lrange'][1]]))
    return spec


def gen_specs(rnd, fmt, n, special=0.35):
    specs = []
    for _ in range(n):
        s = cc.gen_spec(rnd, 'flat', blank_keys=False, mat_nested=False)
        # CIF tags are ASCII; the named AIF fields (user, date, instrument ...) are typed by the format itself
        s['meta'] = {k: domain_value(rnd, fmt) for k in s['meta'] if fmt != 'aif' or (k.isascii() and k not in AIF_TYPED)}
        s['mprops'] = {k: (v if k in ('density', 'molar_mass') else domain_value(rnd, fmt)) for k, v in s['mprops'].items() if fmt != 'aif' or k.isascii()}
        if not plain_text(s['material']):
            s['material'] = 'verif_m1'
        if rnd.random() < 0.04:
            s['temperature'] = 0
        if s['cls'] == 'point':
            d = s['data']
            d['cols'] = {k: v for k, v in d['cols'].items() if plain_text(k) and (fmt != 'aif' or (k.isascii() and ' ' not in k))}
            if fmt == 'aif':    # loop values are written unquoted: one ASCII token per cell; columns are renamed to the AIF names; no bool cells
                d['pk'], d['lk'] = 'pressure', 'loading'
                d['cols'] = {k: v for k, v in d['cols'].items() if not (v and isinstance(v[0], bool))}
                d['cols'] = {k: ([x if x.isascii() and ' ' not in x else 'tok' for x in v] if v and isinstance(v[0], str) else v) for k, v in d['cols'].items()}
            if (d['pk'], d['lk']) not in (('pressure', 'loading'), ('p', 'l')):
                d['pk'], d['lk'] = 'pressure', 'loading'
        if rnd.random() < special:
            special_values(rnd, s, fmt)
        specs.append(s)
    return specs


AIF_TYPED = ('user', 'date', 'instrument', 'material_mass', 'material_mass_unit', 'activation_temperature', 'material_batch')
MALFORMED = ['a,b', "it's", 'say "hi"', 'line1\nline2', ' lead', 'trail ', 'x;y', 'tab\there', 'a,b,c', 'k\n', '#hash', "'quoted'", [1, 2], ('Größe', 1.5)]


def do_roundtrip(fmt, iso, k, target):
    """-> (export outcome, import outcome, re-imported isotherm | None, message)"""
    import pygaps.parsing as pp
    os.makedirs(SCR, exist_ok=True)
    ext = {'csv': 'csv', 'aif': 'aif', 'xl': 'xls'}[fmt]
    path = os.path.join(SCR, 'c07_%d_%d.%s' % (os.getpid(), k, ext))
    try:
        try:
            if fmt == 'csv':
                doc = pp.isotherm_to_csv(iso, path if target == 'file' else None)
            elif fmt == 'aif':
                doc = pp.isotherm_to_aif(iso, path if target == 'file' else None)
            else:
                doc = pp.isotherm_to_xl(iso, path)
                target = 'file'
        except Exception as e:  # noqa
            return vlib.exn_class(e), None, None, str(e)[:200]
        try:
            src = path if target == 'file' else doc
            if fmt == 'csv':
                j = pp.isotherm_from_csv(src)
            elif fmt == 'aif':
                j = pp.isotherm_from_aif(src)
            else:
                j = pp.isotherm_from_xl(src)
        except Exception as e:  # noqa
            return 'Ok', vlib.exn_class(e), None, str(e)[:200]
        return 'Ok', 'Ok', j, ''
    finally:
        if os.path.exists(path):
            os.remove(path)


def do_reimport(fmt, iso, k, target, edit_seed):
    """export; import; edit IN PLACE every mutable object the imported copy holds; import the SAME text / file again
    -> (state of the first import before the edit, state of the second import, edits) or None when a step raises"""
    import pygaps.parsing as pp
    os.makedirs(SCR, exist_ok=True)
    ext = {'csv': 'csv', 'aif': 'aif', 'xl': 'xls'}[fmt]
    path = os.path.join(SCR, 'c07r_%d_%d.%s' % (os.getpid(), k, ext))
    to = {'csv': pp.isotherm_to_csv, 'aif': pp.isotherm_to_aif, 'xl': pp.isotherm_to_xl}[fmt]
    frm = {'csv': pp.isotherm_from_csv, 'aif': pp.isotherm_from_aif, 'xl': pp.isotherm_from_xl}[fmt]
    try:
        try:
            doc = to(iso, path if (target == 'file' or fmt == 'xl') else None)
            src = path if (target == 'file' or fmt == 'xl') else doc
            j = frm(src)
            snap = copy.deepcopy(cc.observe(j))
            edits = ch.edit_in_place(j, random.Random(edit_seed))
            j2 = frm(src)
        except Exception:  # noqa  (judged by the plain round trip)
            return None
        return snap, cc.observe(j2), edits
    finally:
        if os.path.exists(path):
            os.remove(path)


def close8(a, b):
    a, b = cc.py(a), cc.py(b)
    if isinstance(a, bool) or isinstance(b, bool) or isinstance(a, str) or isinstance(b, str):
        return type(a) is type(b) and a == b
    if isinstance(a, (int, float)) and isinstance(b, (int, float)):
        if a != a or b != b:
            return a != a and b != b
        if a == b:                       # infinities (inf - inf is nan)
            return True
        return abs(a - b) <= 5.0000001e-9 + 1e-15 * abs(a)
    return a == b


def content_diff(o0, o1):
    """as C06, but cells to the documented 8-decimal precision and the int/float type of a cell reported separately"""
    if o0['cls'] != o1['cls']:
        return ('class', o0['cls'], o1['cls'])
    for f in ('units', 'material', 'adsorbate'):
        if not cc.same_value(o0[f], o1[f]):
            return (f, o0[f], o1[f])
    if not close8(o0['temperature'], o1['temperature']):
        return ('temperature', o0['temperature'], o1['temperature'])
    d = cc.first_diff(o0['mprops'], o1['mprops'])
    if d:
        return ('material property',) + d
    d = cc.first_diff(o0['meta'], o1['meta'])
    if d:
        return ('metadata',) + d
    if o0['cls'] == 'point':
        if (o0['pk'], o0['lk']) != (o1['pk'], o1['lk']):
            return ('keys', (o0['pk'], o0['lk']), (o1['pk'], o1['lk']))
        if len(o0['rows']) != len(o1['rows']):
            return ('rows', len(o0['rows']), len(o1['rows']))
        for n, ((c0, b0), (c1, b1)) in enumerate(zip(o0['rows'], o1['rows'])):
            if b0 != b1:
                return ('branch', n, b0, b1)
            if set(c0) != set(c1):
                return ('columns', sorted(c0), sorted(c1))
            for c in c0:
                if not close8(c0[c], c1[c]):
                    return ('cell', n, c, c0[c], c1[c])
        for n, ((c0, _), (c1, _)) in enumerate(zip(o0['rows'], o1['rows'])):
            for c in c0:
                if type(cc.py(c0[c])) is not type(cc.py(c1[c])):
                    return ('cell type', n, c, c0[c], c1[c])
    if o0['cls'] == 'model':
        m0, m1 = o0['model'], o1['model']
        if m0['name'] != m1['name'] or cc.first_diff(m0['params'], m1['params']):      # the fit error is not named by the property text
            return ('model', m0, m1)
        if not cc.same_value(list(m0['prange']), list(m1['prange'])) or not cc.same_value(list(m0['lrange']), list(m1['lrange'])):
            return ('model range', (m0['prange'], m0['lrange']), (m1['prange'], m1['lrange']))
        if o0['mbranch'] != o1['mbranch']:
            return ('model branch', o0['mbranch'], o1['mbranch'])
    return None


def has_fine_cells(o0):
    """cells whose content beyond the documented 8 decimals (or the sign of a zero: xlwt stores -0.0 as 0.0) may legitimately change:
    == (a hash of the exact cells) is then not judged"""
    return any(isinstance(v, float) and (round(v, 8) != v or (v == 0.0 and math.copysign(1.0, v) < 0)) for c, _ in o0.get('rows', []) for v in c.values())


def dclass(d):
    """how hash_pandas_object sees a column dtype: all int widths and bool alike, floats, objects/text"""
    d = str(d)
    return 'i' if d.startswith(('int', 'uint', 'bool')) else 'f' if d.startswith('float') else 'o'


def classify(fmt, spec, o0, o1, kind, diff, msg, exp, imp):
    isint = lambda v: isinstance(v, int) and not isinstance(v, bool)
    if kind == 'export-raised' and fmt == 'aif' and exp == 'TypeError' and o0['cls'] == 'point' and \
            any(isinstance(v, float) and v != v for row, _ in o0['rows'] for v in row.values()):
        return 'C07:aif:uncarried-value-missing-cell-TypeError'
    if kind == 'import-raised' and fmt == 'aif' and imp == 'other:OSError' and 'File name too long' in msg:
        return 'C07:aif:string-import-OSError-file-name-too-long'
    if kind == 'content' and diff[0] in ('branch', 'cell') and fmt == 'aif' and o0['cls'] == 'point':
        marks = [b for _, b in o0['rows']]
        if marks != sorted(marks):
            return 'C07:aif:interleaved-branch-marks-regrouped'
    if kind == 'content' and diff[0] == 'branch' and fmt in ('csv', 'xl') and any(isinstance(b, bool) for b in o0.get('branch_raw', [])):
        return 'C07:%s:bool-branch-marks-all-become-desorption' % fmt
    if kind == 'import-raised' and fmt == 'aif' and imp == 'ValueError' and 'invalid error value' in msg:
        return 'C07:aif:import-ValueError-to_numeric-errors-ignore'
    if fmt == 'xl':
        if kind in ('import-raised', 'content') and spec['temperature'] == 0:
            return 'C07:xl:falsy-header-value-dropped'
        if kind == 'content' and diff[0] in ('metadata', 'material property') and isint(diff[2]) and isinstance(diff[3], float) and float(diff[2]) == diff[3]:
            return 'C07:xl:int-becomes-float'
        if kind == 'content' and diff[0] == 'cell type' and isint(diff[3]) and isinstance(diff[4], float):
            return 'C07:xl:int-becomes-float'
    if fmt in ('csv', 'aif') and kind == 'content' and diff[0] in ('metadata', 'material property'):
        if isint(diff[2]) and diff[2] < 0 and isinstance(diff[3], float) and float(diff[2]) == diff[3]:
            return 'C07:%s:negative-int-becomes-float' % fmt
    if kind == 'id' and fmt == 'csv' and o0['cls'] == 'model' and isinstance(o1['model']['rmse'], str):
        return 'C07:csv:model-rmse-read-as-text'
    if kind == 'id' and o0['cls'] == 'point' and o1 is not None:
        dt0, dt1 = {c: dclass(d) for c, d in o0['dtypes'].items()}, {c: dclass(d) for c, d in o1['dtypes'].items()}
        if dt0.get('branch') != dt1.get('branch') and all(dt0[c] == dt1.get(c) for c in dt0 if c != 'branch'):
            return 'C07:%s:id-differs:branch-column-dtype' % fmt
        oth = [c for c in dt0 if c != 'branch' and dt0[c] != dt1.get(c)]
        if oth:
            return 'C07:%s:id-differs:column-dtype:%s->%s' % (fmt, dt0[oth[0]], dt1.get(oth[0]))
        if o0['columns'] != o1['columns']:
            return 'C07:%s:id-differs:column-order' % fmt
    return 'C07:unclassified:%s:%s:%s' % (fmt, kind, (diff[0] if diff else (exp if kind == 'export-raised' else imp)))


class Limiter:
    """at most `cap` reported cases per tag (the Report keeps 50 failing inputs in all)"""

    def __init__(self, rep, cap=4):
        self.rep, self.cap, self.seen = rep, cap, {}

    def failure(self, tag, what, replay):
        self.seen[tag] = self.seen.get(tag, 0) + 1
        if self.seen[tag] <= self.cap:
            self.rep.failure(tag, what, replay)


def roundtrips(rep0, tier, seed):
    rep = Limiter(rep0)
    rnd = random.Random(seed + 17)
    n = 3000 if tier == 'thorough' else 200
    hist = {}
    nontrivial = set()
    for fmt in ('csv', 'aif', 'xl'):
        specs = gen_specs(rnd, fmt, n)
        for k, spec in enumerate(specs):
            again = (k % 3 == 0)
            if again and fmt == 'csv':        # list-valued metadata of the CSV value domain (numbers / booleans)
                r2 = random.Random('c07-re-list/%d/%d' % (seed, k))
                if r2.random() < 0.6:
                    spec['meta'][r2.choice(['cycles', 'steps', 'flags'])] = r2.choice([[1, 2, 3], [0.5, 1.5], [True, False], [7]])
            try:
                iso = cc.build(spec)
            except Exception:  # noqa
                hist[fmt + '/constructor-refused'] = hist.get(fmt + '/constructor-refused', 0) + 1
                continue
            o0 = cc.observe(iso)
            target = ('string' if k % 3 == 2 else 'file') if fmt == 'aif' else ('file' if k % 3 == 2 else 'string')
            if again:
                # import -> in-place edit of the imported copy -> second import of the same text: must equal the first import
                es = 'c07-re/%d/%s/%d' % (seed, fmt, k)
                tgt2 = target if fmt != 'aif' else 'file'      # (AIF text import: known finding C07-F2)
                ri = do_reimport(fmt, iso, k, tgt2, es)
                if ri is not None:
                    hist[fmt + '/second-import-after-edit'] = hist.get(fmt + '/second-import-after-edit', 0) + 1
                    d2 = content_diff(ri[0], ri[1])
                    if d2:
                        rep.failure('C07:unclassified:%s:second-import-after-in-place-edit:%s' % (fmt, d2[0]),
                                    '%s: the imported isotherm was edited in place (%s); importing the SAME %s again gives an isotherm that differs from the first import in %s' % (
                                        fmt, ri[2], 'file' if tgt2 == 'file' or fmt == 'xl' else 'text', d2),
                                    {'fmt': fmt, 'spec': c06_js(spec), 'target': tgt2, 'kind': 'reimport', 'edit_seed': es, 'detail': str(d2)[:300]})
                        continue
            exp, imp, j, msg = do_roundtrip(fmt, iso, k, target)
            rp = {'fmt': fmt, 'spec': c06_js(spec), 'target': target}
            key = '%s/%s' % (fmt, spec['cls'])
            if exp != 'Ok':
                hist[key + '/export-raised'] = hist.get(key + '/export-raised', 0) + 1
                rep.failure(classify(fmt, spec, o0, None, 'export-raised', None, msg, exp, imp), '%s export raised %s: %s' % (fmt, exp, msg), dict(rp, kind='export-raised'))
                continue
            if imp != 'Ok':
                hist[key + '/import-raised'] = hist.get(key + '/import-raised', 0) + 1
                rep.failure(classify(fmt, spec, o0, None, 'import-raised', None, msg, exp, imp), '%s import of the exported document raised %s: %s' % (fmt, imp, msg), dict(rp, kind='import-raised'))
                continue
            hist[key] = hist.get(key, 0) + 1
            o1 = cc.observe(j)
            d = content_diff(o0, o1)
            if d:
                rep.failure(classify(fmt, spec, o0, o1, 'content', d, '', exp, imp), '%s round trip changed %s' % (fmt, d), dict(rp, kind='content', detail=str(d)[:300]))
                continue
            if not has_fine_cells(o0) and not (j == iso):
                rep.failure(classify(fmt, spec, o0, o1, 'id', None, '', exp, imp), '%s round trip: content equal, identifier differs' % fmt,
                            dict(rp, kind='id', detail=str((o0.get('dtypes'), o1.get('dtypes'), o0.get('columns'), o1.get('columns')))[:400]))
            nontrivial.add((fmt, spec['cls'], tuple(sorted((a, type(b).__name__) for a, b in o0['meta'].items())), len(o0.get('rows', [])), tuple(o0['units'])))
        # directed: keys of the documented domain that collide with the CSV reader's own markers
        if fmt == 'csv':
            for k, (key, mp) in enumerate([('datafile', None), ('model_used', None), ('database_id', None), ('k1', 'raw_material_id'), ('k1', 'x_material_y')]):
                for cls in ('base', 'point', 'model'):
                    spec = cc.gen_spec(rnd, 'flat', cls=cls, blank_keys=False, mat_nested=False)
                    spec['meta'] = {key: 'x1'}
                    spec['mprops'] = {mp: 7} if mp else {}
                    if cls == 'point':
                        spec['data']['cols'] = {}
                        spec['data']['branch'] = 'guess'
                    try:
                        iso = cc.build(spec)
                    except Exception:  # noqa
                        continue
                    o0 = cc.observe(iso)
                    exp, imp, j, msg = do_roundtrip(fmt, iso, 8000 + k, 'string')
                    hist[fmt + '/directed-marker-keys'] = hist.get(fmt + '/directed-marker-keys', 0) + 1
                    o1 = cc.observe(j) if j is not None else None
                    d = content_diff(o0, o1) if o1 is not None else None
                    if exp == 'Ok' and imp in ('ParsingError', 'ParameterError'):
                        continue
                    if exp == 'Ok' and imp == 'Ok' and d is None:
                        continue
                    what = 'marker-like-key' if mp is None else 'material-property-key-containing-_material_'
                    tag = 'C07:csv:%s-%s' % (what, 'raw-error' if imp != 'Ok' else 'silently-changed')
                    rep.failure(tag, 'csv: metadata key %r / material property %r: import %s %s' % (key, mp, imp, msg if imp != 'Ok' else 'changed %s' % (d,)),
                                {'fmt': fmt, 'spec': c06_js(spec), 'target': 'string', 'kind': 'directed-marker-keys'})
        # malformed stream: only oracle = pyGAPS error or unchanged value
        if fmt != 'xl':
            for k, txt in enumerate(MALFORMED):
                spec = cc.gen_spec(rnd, 'flat', cls='base', blank_keys=False, mat_nested=False)
                spec['meta'] = {'comment': txt} if not isinstance(txt, tuple) else {txt[0]: txt[1]}
                spec['mprops'] = {}
                mkey = 'comment' if not isinstance(txt, tuple) else txt[0]
                mval = txt if not isinstance(txt, tuple) else txt[1]
                if fmt == 'csv' and not isinstance(txt, str):
                    continue
                try:
                    iso = cc.build(spec)
                except Exception:  # noqa
                    continue
                exp, imp, j, msg = do_roundtrip(fmt, iso, 9000 + k, 'file' if fmt == 'aif' else 'string')
                hist[fmt + '/malformed'] = hist.get(fmt + '/malformed', 0) + 1
                outcome = exp if exp != 'Ok' else imp
                if outcome in ('ParsingError', 'ParameterError'):
                    continue
                if outcome == 'Ok' and cc.same_value(j.properties.get(mkey), mval):
                    continue
                cls = ('list' if isinstance(mval, list) else 'non-ascii-key' if isinstance(txt, tuple) else 'separator' if ',' in txt
                       else 'quote' if ("'" in txt or '"' in txt) else 'outer-whitespace' if txt != txt.strip() else 'inner-control-char' if ('\n' in txt or '\t' in txt) else 'other')
                got = j.properties.get(mkey, '<missing>') if outcome == 'Ok' else 'raised ' + outcome
                rep.failure('C07:%s:uncarried-value-%s-%s' % (fmt, cls, 'changed' if outcome == 'Ok' else outcome.replace('other:', '')), '%s: value %r neither refused with a pyGAPS error nor preserved: %r' % (fmt, txt, got),
                            {'fmt': fmt, 'spec': c06_js(spec), 'target': 'file' if fmt == 'aif' else 'string', 'kind': 'malformed'})
    directed_named_and_labels(rep, seed, hist)
    rep0.cov['evaluations'] += sum(v for k, v in hist.items())
    rep0.cov['failing_cases_per_tag'] = dict(sorted(rep.seen.items()))
    return hist, nontrivial


# ------------------------------------------------------------------ directed: named metadata fields of the formats, row labels of the data frame
def named_fields():
    """metadata keys for which a format has a NAMED tag / field of its own (read from the implementation's tables: the AIF tag table;
    the named Excel fields are the core fields every isotherm carries) -> {key: declared type}"""
    from pygaps.parsing import aif
    core = ('temperature', 'adsorbate', 'material')
    return {v['text']: v['type'] for v in aif._META_DICT.values() if v['text'] not in core}


NAMED_VALUES = {float: [12.25, 393.15, 0.0431], str: ['tok1', 'mg', 'ASAP-2020', '2024-05-17']}
LABEL_KINDS = ('gap', 'offset', 'shuffled', 'text', 'negative')


def row_labels(kind, n, r):
    if kind == 'gap':         # what is left of 0..m-1 after rows were filtered out
        keep = sorted(r.sample(range(n + 3), n))
        return keep if keep != list(range(n)) else [x + (2 if x >= n // 2 else 0) for x in keep]
    if kind == 'offset':      # a slice
        return list(range(3, 3 + n))
    if kind == 'shuffled':
        lab = list(range(n))
        r.shuffle(lab)
        return lab
    if kind == 'negative':
        return list(range(-n, 0))
    return ['r%d' % k for k in range(n)]


def directed_named_and_labels(rep, seed, hist):
    """(1) every metadata key a format has a named field for, alone and all together, typed as the format declares, on every class;
    (2) point isotherms whose frame has non-default row labels (gaps, offset, shuffled, negative, text), columns compared value by value.
    Own random streams (the main stream of the round trips is not consumed)."""
    named = named_fields()
    for fmt in ('csv', 'aif', 'xl'):
        r = random.Random('c07-named/%d/%s' % (seed, fmt))
        combos = [[k] for k in named] + [list(named)] * 3
        base = [s for s in gen_specs(r, fmt, 3 * len(combos), special=0.0)]
        for k, keys in enumerate(combos):
            for cls in ('base', 'point', 'model'):
                spec = next((s for s in base if s['cls'] == cls), None)
                if spec is None:
                    continue
                base.remove(spec)
                spec['meta'] = {kk: vv for kk, vv in list(spec['meta'].items())[:2] if not isinstance(vv, list) and kk not in named}
                if fmt != 'xl':
                    spec['meta'] = {kk: vv for kk, vv in spec['meta'].items() if not (isinstance(vv, int) and not isinstance(vv, bool) and vv < 0)}
                for key in keys:
                    spec['meta'][key] = r.choice(NAMED_VALUES[named[key]])
                if spec['temperature'] == 0:
                    spec['temperature'] = 77
                if cls == 'point':
                    spec['data']['branch'] = 'guess'
                    spec['data']['cols'] = {c: v for c, v in spec['data']['cols'].items() if v and isinstance(v[0], float) and all(x == x for x in v)}
                try:
                    iso = cc.build(spec)
                except Exception:  # noqa
                    continue
                o0 = cc.observe(iso)
                target = 'file' if (fmt != 'csv' or k % 2) else 'string'
                exp, imp, j, msg = do_roundtrip(fmt, iso, 7000 + k, target)
                hist[fmt + '/directed-named-fields'] = hist.get(fmt + '/directed-named-fields', 0) + 1
                rp = {'fmt': fmt, 'spec': c06_js(spec), 'target': target}
                if exp != 'Ok' or imp != 'Ok':
                    kind = 'export-raised' if exp != 'Ok' else 'import-raised'
                    rep.failure(classify(fmt, spec, o0, None, kind, None, msg, exp, imp), '%s with the named fields %s: %s %s %s' % (fmt, keys, kind, exp if exp != 'Ok' else imp, msg), dict(rp, kind=kind))
                    continue
                o1 = cc.observe(j)
                d = content_diff(o0, o1)
                if d:
                    if d[0] == 'metadata' and d[1] in named:
                        tag = 'C07:unclassified:%s:named-field-not-carried:%s' % (fmt, d[1])
                    else:
                        tag = classify(fmt, spec, o0, o1, 'content', d, '', exp, imp)
                    rep.failure(tag, '%s round trip of an isotherm carrying the named fields %s changed %s' % (fmt, keys, d), dict(rp, kind='content', detail=str(d)[:300]))
        # row labels
        r = random.Random('c07-labels/%d/%s' % (seed, fmt))
        pts = [s for s in gen_specs(r, fmt, 60, special=0.0) if s['cls'] == 'point' and len(s['data']['p']) >= 3][:3 * len(LABEL_KINDS)]
        for k, spec in enumerate(pts):
            kind = LABEL_KINDS[k % len(LABEL_KINDS)]
            d = spec['data']
            d['via'] = 'frame'
            d['index'] = row_labels(kind, len(d['p']), r)
            if fmt == 'aif' and not isinstance(d['branch'], str):
                d['branch'] = 'guess'       # (interleaved marks: known finding C07-F21)
            if any(isinstance(b, bool) for b in (d['branch'] if not isinstance(d['branch'], str) else [])):
                d['branch'] = 'guess'
            d['cols'] = {c: v for c, v in d['cols'].items() if not (fmt == 'aif' and v and isinstance(v[0], float) and any(x != x for x in v))}
            if spec['temperature'] == 0:
                spec['temperature'] = 77
            try:
                iso = cc.build(spec)
            except Exception:  # noqa
                continue
            o0 = cc.observe(iso)
            target = 'file' if (fmt != 'csv' or k % 2) else 'string'
            exp, imp, j, msg = do_roundtrip(fmt, iso, 7500 + k, target)
            hist[fmt + '/directed-row-labels'] = hist.get(fmt + '/directed-row-labels', 0) + 1
            rp = {'fmt': fmt, 'spec': c06_js(spec), 'target': target}
            if exp != 'Ok' or imp != 'Ok':
                kind2 = 'export-raised' if exp != 'Ok' else 'import-raised'
                rep.failure('C07:unclassified:%s:row-labels-%s:%s' % (fmt, kind, kind2), '%s, frame with %s row labels %s: %s %s %s' % (fmt, kind, d['index'][:8], kind2, exp if exp != 'Ok' else imp, msg), dict(rp, kind=kind2))
                continue
            o1 = cc.observe(j)
            df = content_diff(o0, o1)
            if df:
                tag = classify(fmt, spec, o0, o1, 'content', df, '', exp, imp)
                if tag.startswith('C07:unclassified') and df[0] in ('rows', 'cell', 'branch', 'columns'):
                    tag = 'C07:unclassified:%s:row-labels-%s:%s' % (fmt, kind, df[0])
                rep.failure(tag, '%s round trip of a point isotherm whose frame has %s row labels %s changed %s' % (fmt, kind, d['index'][:8], df), dict(rp, kind='content', detail=str(df)[:300]))


# ------------------------------------------------------------------ D. CSV document model (Codec/CsvDoc.v) vs the implementation
CSV_HEADER = cc.HEADER + 'From PG Require Import Codec.JsonShow Codec.CastString Codec.CsvDoc Codec.CsvShow.\n'
CSV_FIELDS = ['units', 'material name', 'material properties', 'adsorbate', 'temperature', 'metadata', 'class', 'cells', 'branch marks', 'model', 'keys']


def _walk_floats(v, out):
    v = cc.py(v)
    if isinstance(v, float):
        if v == v and v not in (float('inf'), float('-inf')):
            out.add(v)
    elif isinstance(v, (list, tuple)):
        for x in v:
            _walk_floats(x, out)
    elif isinstance(v, dict):
        for x in v.values():
            _walk_floats(x, out)


def csv_oracle_tables(o0, text, sep=','):
    """the oracles of CsvDoc.v as finite tables read off the implementation / Python for THIS case:
    repr(float) of the floats of the isotherm state, float(s) and _from_list(s) of the fields of the document"""
    from pygaps.utilities.string_utilities import _from_list
    fl = set()
    for part in (o0['temperature'], o0['meta'], o0['mprops']):
        _walk_floats(part, fl)
    if o0['cls'] == 'model':
        m = o0['model']
        for part in (m['rmse'], m['params'], list(m['prange']), list(m['lrange'])):
            _walk_floats(part, fl)
    rt = '[%s]' % '; '.join('(%s, %s)' % (vlib.flit(x), cc.cstr(repr(x))) for x in sorted(fl))
    cands = set()
    for line in text.split('\n'):
        for ln in (line, line.rstrip(), line.strip()):
            for f in ln.split(sep):
                cands.add(f)
    ft, lt = [], []
    for f in sorted(cands):
        try:
            ft.append('(%s, %s)' % (cc.cstr(f), cc.cval(float(f))))
        except ValueError:
            pass
        if f[:1] in '[(' and f[-1:] in '])':
            try:
                lt.append('(%s, %s)' % (cc.cstr(f), cc.cval(_from_list(f))))
            except Exception:  # noqa  the oracle raises: the table has no entry, the model maps that to the reader's error
                pass
    return rt, '[%s]' % '; '.join(ft), '[%s]' % '; '.join(lt)


def away_from_ties(x):
    """numpy.round(x, 8) is rint(x * 1e8) / 1e8 in binary arithmetic; the model rounds exactly: keep cells off the .5 boundary
    (and -0.0 -> 0.0). Only for the cases submitted to the Coq model; the round-trip oracle keeps the raw values."""
    if isinstance(x, float) and x == 0.0:
        return 0.0                      # the model's cells are rationals: the sign of a zero is not part of the abstraction
    if isinstance(x, float) and x == x and abs(x) < 1e15:
        f = (abs(x) * 1e8) % 1.0
        if abs(f - 0.5) < 1e-3:
            return round(x, 7)
    return x


def csv_correspondence(rep, tier, seed):
    import pygaps.parsing as pp
    rnd = random.Random(seed + 29)
    n = 1200 if tier == 'thorough' else 110
    specs = gen_specs(rnd, 'csv', n)
    for txt in ['a,b', 'trail ', ' lead', 'a,b,c', 'x;y', 'tab\there', [1, 2], ['a', 'b'], (1, 2), -5, 'data point', 'modelled', '']:
        s0 = cc.gen_spec(rnd, 'flat', cls='base', blank_keys=False, mat_nested=False)
        s0['meta'] = {'comment': txt, 'k2': 1.5}
        specs.append(s0)
    for key in ['datafile', 'model_used', 'data', 'raw_material_batch']:
        s0 = cc.gen_spec(rnd, 'flat', cls=rnd.choice(['base', 'point']), blank_keys=False, mat_nested=False)
        s0['meta'] = {'k1': 2, key: 'x1'}
        s0['mprops'] = {'raw_material_id': 7} if key == 'raw_material_batch' else s0['mprops']
        specs.append(s0)
    tbl = cc.ads_canon_table()
    terms, cases = [], []
    skipped = {}
    for k, spec in enumerate(specs):
        if spec['cls'] == 'point':
            d = spec['data']
            if not isinstance(d['branch'], str) and any(isinstance(b, bool) for b in d['branch']):
                skipped['bool marks (known finding C07-F6, judged by the oracle)'] = skipped.get('bool marks (known finding C07-F6, judged by the oracle)', 0) + 1
                continue
            d['p'], d['l'] = [away_from_ties(x) for x in d['p']], [away_from_ties(x) for x in d['l']]
            d['cols'] = {c: [away_from_ties(x) for x in v] for c, v in d['cols'].items()}
        try:
            iso = cc.build(spec)
        except Exception:  # noqa
            continue
        o0 = cc.observe(iso)
        try:
            text = pp.isotherm_to_csv(iso)
        except Exception:  # noqa  (judged by the round-trip oracle)
            continue
        try:
            j = pp.isotherm_from_csv(text)
            imp, o1 = 'Ok', cc.observe(j)
        except Exception as e:  # noqa
            imp, o1 = vlib.exn_class(e), o0
        rt, ft, lt = csv_oracle_tables(o0, text)
        terms.append('(chk_csv (ascii_of_nat 44) %s %s %s %s %s %s (%d)%%Z %s)' % (
            rt, ft, lt, tbl, cc.coq_iso(o0), cc.cstr(text), vlib.EXN.index(imp) if imp in vlib.EXN else 99, cc.coq_iso(o1)))
        cases.append(dict(spec=spec, text=text, imp=imp))
    model = None
    try:
        model = vlib.run_coq_cases('c07d', CSV_HEADER, 'fun x : list Z => x', terms, per_file=10, nested=True)
    except RuntimeError as e:
        rep.broken_obligation('correspondence:CsvDoc-evaluation', str(e)[-800:])
    n_dis = n_out = n_doc = n_imp = 0
    kinds = {}
    if model is not None:
        for c, mz in zip(cases, model):
            bad = None
            lines = c['text'].split('\n')
            if mz[0] == 9:
                n_out += 1                       # the writer model is fail-closed outside its fragment (quoting, nested containers)
            elif mz[0] != 0:
                bad = 'export: the model raises %s, the implementation wrote a document' % vlib.EXN[mz[0]]
            elif mz[1] != -1:
                bad = 'line %d of the document differs from the model: implementation wrote %r' % (mz[1], lines[mz[1]] if 0 <= mz[1] < len(lines) else '<end>')
            else:
                n_doc += 1
            if bad is None:
                if mz[2] == 9 and c['imp'] != 'FellOffEnd':
                    n_out += 1 if mz[0] != 9 else 0
                elif mz[2] == 7 and c['imp'] in ('ValueError', 'other:SyntaxError'):
                    n_imp += 1                   # _from_list (ast.literal_eval) is an oracle: the class of ITS error is not modelled
                    kinds['raw error of the _from_list oracle'] = kinds.get('raw error of the _from_list oracle', 0) + 1
                elif mz[3] != 1:
                    bad = 'import outcome: model %s, implementation %s' % (vlib.EXN[mz[2]] if mz[2] < len(vlib.EXN) else mz[2], c['imp'])
                elif mz[2] == 0:
                    wrong = [CSV_FIELDS[i] for i, v in enumerate(mz[4:]) if v != 1]
                    if wrong:
                        bad = 'state of the re-imported isotherm differs from the model in: ' + ', '.join(wrong)
                    else:
                        n_imp += 1
                else:
                    n_imp += 1
                    kinds[c['imp']] = kinds.get(c['imp'], 0) + 1
            if bad:
                n_dis += 1
                if n_dis <= 5:
                    rep.broken_obligation('correspondence:CsvDoc-vs-implementation', {'what': bad, 'spec': c['spec']})
        if len(cases) and n_doc < 0.6 * len(cases):
            rep.broken_obligation('correspondence:CsvDoc-coverage', 'only %d of %d documents are inside the modelled fragment' % (n_doc, len(cases)))
    rep.cov['csv_document_correspondence'] = {'cases': len(cases), 'documents_equal_line_by_line': n_doc, 'imports_agree': n_imp, 'refused_alike': kinds,
                                              'outside_modelled_fragment': n_out, 'disagreements': n_dis, 'not_submitted': skipped}
    rep.cov['evaluations'] += len(cases)
    return n_doc


# ------------------------------------------------------------------ E. Excel document model (Codec/XlDoc.v) vs the implementation
XL_HEADER = CSV_HEADER + 'From PG Require Import Codec.XlCell Gen.XlGen Codec.XlDoc Codec.XlShow.\n'


def xl_cell(c):
    """a cell as xlrd presents it -> Coq term of type XlCell.xcell"""
    import xlrd
    if c.ctype in (xlrd.XL_CELL_EMPTY, xlrd.XL_CELL_BLANK):
        return 'XEmpty'
    if c.ctype == xlrd.XL_CELL_TEXT:
        return '(XText %s)' % cc.cstr(c.value)
    if c.ctype == xlrd.XL_CELL_NUMBER:
        return '(XNum %s)' % cc.cval(float(c.value))
    if c.ctype == xlrd.XL_CELL_BOOLEAN:
        return '(XBool %s)' % ('true' if c.value else 'false')
    return '(XText "<ctype %d>")' % c.ctype


def xl_grid(path):
    """the two worksheets of the file as xlrd reads them: every cell of nrows x ncols"""
    import xlrd
    wb = xlrd.open_workbook(path)
    out = []
    for name in ('data', 'otherdata'):
        if name not in wb.sheet_names():
            out.append('[]')
            continue
        sh = wb.sheet_by_name(name)
        out.append('[%s]' % '; '.join('[%s]' % '; '.join(xl_cell(sh.cell(r, c)) for c in range(sh.ncols)) for r in range(sh.nrows)))
    return '(%s, %s)' % tuple(out), wb


def _walk_ints(v, out):
    v = cc.py(v)
    if isinstance(v, int) and not isinstance(v, bool):
        if abs(v) > 2 ** 53:
            out.add(v)
    elif isinstance(v, (list, tuple)):
        for x in v:
            _walk_ints(x, out)
    elif isinstance(v, dict):
        for x in v.values():
            _walk_ints(x, out)


def xl_oracle_tables(iso, o0, wb):
    """the oracles of XlDoc.v other than the library, as finite tables for THIS case: float(int) beyond 2^53, pandas' dtype names,
    str() of the model ranges, ast.literal_eval of the range cells of the file"""
    import ast
    big = set()
    for part in (o0['temperature'], o0['meta'], o0['mprops'], [c for c, _ in o0.get('rows', [])]):
        _walk_ints(part, big)
    bt = '[%s]' % '; '.join('((%d)%%Z, %s)' % (z, vlib.flit(float(z))) for z in sorted(big))
    dt = '[]'
    if o0['cls'] == 'point':
        dt = '[%s]' % '; '.join('(%s, %s)' % (cc.cstr(c), cc.cstr(iso.data_raw[c].dtype.name)) for c in iso.data_raw.columns)
    st, lt = [], []
    if o0['cls'] == 'model':
        for rng, obs in ((iso.model.pressure_range, o0['model']['prange']), (iso.model.loading_range, o0['model']['lrange'])):
            st.append('(%s, %s)' % (cc.cval(obs), cc.cstr(str(rng))))
        sh = wb.sheet_by_name('data')
        for r in range(sh.nrows):
            for c in range(sh.ncols):
                v = sh.cell(r, c).value
                if isinstance(v, str) and v[:1] in '[(':
                    try:
                        lt.append('(%s, %s)' % (cc.cstr(v), cc.cval(ast.literal_eval(v))))
                    except Exception:  # noqa  the oracle raises: no entry, the model maps that to ValueError
                        pass
    return bt, dt, '[%s]' % '; '.join(st), '[%s]' % '; '.join(lt)


def xl_correspondence(rep, tier, seed):
    import pygaps.parsing as pp
    rnd = random.Random(seed + 31)
    n = 1200 if tier == 'thorough' else 110
    specs = gen_specs(rnd, 'xl', n, special=0.5)
    for txt in ['', 0, 0.0, False, None, 'x', 1e-300, -7, 2 ** 53 + 1]:          # falsy / special metadata and material properties
        s0 = cc.gen_spec(rnd, 'flat', cls=rnd.choice(['base', 'point', 'model']), blank_keys=False, mat_nested=False)
        s0['meta'] = {'k1': txt, 'k2': 1.5}
        s0['mprops'] = {'density': txt} if not isinstance(txt, str) else {}
        s0['temperature'] = rnd.choice([0, 0.0, 77.0])
        specs.append(s0)
    tbl = cc.ads_canon_table()
    os.makedirs(SCR, exist_ok=True)
    path = os.path.join(SCR, 'c07x_%d.xls' % os.getpid())
    terms, cases = [], []
    skipped = {}
    for k, spec in enumerate(specs):
        if spec['cls'] == 'point':
            d = spec['data']
            if not isinstance(d['branch'], str) and any(isinstance(b, bool) for b in d['branch']):
                skipped['bool marks (known finding C07-F7, judged by the oracle)'] = skipped.get('bool marks (known finding C07-F7, judged by the oracle)', 0) + 1
                continue
        try:
            iso = cc.build(spec)
        except Exception:  # noqa
            continue
        o0 = cc.observe(iso)
        try:
            pp.isotherm_to_xl(iso, path)
        except Exception:  # noqa  (judged by the round-trip oracle)
            continue
        try:
            j = pp.isotherm_from_xl(path)
            imp, o1 = 'Ok', cc.observe(j)
        except Exception as e:  # noqa
            imp, o1 = vlib.exn_class(e), o0
        book, wb = xl_grid(path)
        bt, dt, st, lt = xl_oracle_tables(iso, o0, wb)
        terms.append('(chk_xl %s %s %s %s %s %s %s (%d)%%Z %s)' % (bt, dt, st, lt, tbl, cc.coq_iso(o0), book,
                                                              vlib.EXN.index(imp) if imp in vlib.EXN else 99, cc.coq_iso(o1)))
        cases.append(dict(spec=spec, imp=imp))
    if os.path.exists(path):
        os.remove(path)
    model = None
    try:
        model = vlib.run_coq_cases('c07x', XL_HEADER, 'fun x : list Z => x', terms, per_file=10, nested=True)
    except RuntimeError as e:
        rep.broken_obligation('correspondence:XlDoc-evaluation', str(e)[-800:])
    n_dis = n_out = n_doc = n_imp = 0
    kinds = {}
    if model is not None:
        for c, mz in zip(cases, model):
            bad = None
            if mz[0] == 9:
                n_out += 1                       # the writer model is fail-closed outside its fragment
            elif mz[0] != 0:
                bad = 'export: the model raises %s, the implementation wrote a file' % vlib.EXN[mz[0]]
            elif mz[1:5] != [-1, -1, -1, -1]:
                bad = "the file differs from the model at cell (row %d, column %d) of sheet 'data' / (row %d, column %d) of sheet 'otherdata' (-1: no difference)" % tuple(mz[1:5])
            else:
                n_doc += 1
            if bad is None:
                if mz[5] == 9 and c['imp'] != 'FellOffEnd':
                    n_out += 1 if mz[0] != 9 else 0
                elif mz[6] != 1:
                    bad = 'import outcome: model %s, implementation %s' % (vlib.EXN[mz[5]] if mz[5] < len(vlib.EXN) else mz[5], c['imp'])
                elif mz[5] == 0:
                    wrong = [CSV_FIELDS[i] for i, v in enumerate(mz[7:]) if v != 1]
                    if wrong:
                        bad = 'state of the re-imported isotherm differs from the model in: ' + ', '.join(wrong)
                    else:
                        n_imp += 1
                else:
                    n_imp += 1
                    kinds[c['imp']] = kinds.get(c['imp'], 0) + 1
            if bad:
                n_dis += 1
                if n_dis <= 5:
                    rep.broken_obligation('correspondence:XlDoc-vs-implementation', {'what': bad, 'spec': c['spec']})
        if len(cases) and n_doc < 0.6 * len(cases):
            rep.broken_obligation('correspondence:XlDoc-coverage', 'only %d of %d workbooks are inside the modelled fragment' % (n_doc, len(cases)))
    rep.cov['xl_document_correspondence'] = {'cases': len(cases), 'workbooks_equal_cell_by_cell': n_doc, 'imports_agree': n_imp, 'refused_alike': kinds,
                                             'outside_modelled_fragment': n_out, 'disagreements': n_dis, 'not_submitted': skipped}
    rep.cov['evaluations'] += len(cases)
    return n_doc


# ------------------------------------------------------------------ F. AIF document model (Codec/AifDoc.v) vs the implementation
AIF_HEADER = CSV_HEADER + 'From PG Require Import Codec.AifDoc Codec.AifShow.\n'


def aif_items(text):
    """the block gemmi parses from the document: pairs (tag, raw value) and loops (tags, rows of raw values)"""
    from gemmi import cif
    block = cif.read_string(text).sole_block()
    items, cells, columns = [], set(), []
    for it in block:
        if it.pair is not None:
            items.append('(IPair %s %s)' % (cc.cstr(it.pair[0]), cc.cstr(it.pair[1])))
            cells.add(it.pair[1].strip("'"))
        elif it.loop is not None:
            w = it.loop.width()
            vals = list(it.loop.values)
            rows = [vals[k:k + w] for k in range(0, len(vals), w)]
            items.append('(ILoop [%s] [%s])' % ('; '.join(cc.cstr(t) for t in it.loop.tags),
                                               '; '.join('[%s]' % '; '.join(cc.cstr(v) for v in r) for r in rows)))
            for j in range(w):
                columns.append([r[j] for r in rows])
    return '[%s]' % '; '.join(items), cells, columns


def aif_oracle_tables(o0, cells, columns):
    """the oracles of AifDoc.v as finite tables for THIS case: repr(float) of the floats of the isotherm state, float(s) / _from_list(s)
    of the stripped pair values, pandas.to_numeric of every loop column"""
    import pandas
    from pygaps.utilities.string_utilities import _from_list
    fl = set()
    for part in (o0['temperature'], o0['meta'], o0['mprops']):
        _walk_floats(part, fl)
    if o0['cls'] == 'model':
        m = o0['model']
        for part in (m['rmse'], m['params'], list(m['prange']), list(m['lrange'])):
            _walk_floats(part, fl)
    rt = '[%s]' % '; '.join('(%s, %s)' % (vlib.flit(x), cc.cstr(repr(x))) for x in sorted(fl))
    ft, lt, nt = [], [], []
    for f in sorted(cells):
        try:
            ft.append('(%s, %s)' % (cc.cstr(f), cc.cval(float(f))))
        except ValueError:
            pass
        if f[:1] == '[' and f[-1:] == ']':
            try:
                lt.append('(%s, %s)' % (cc.cstr(f), cc.cval(_from_list(f))))
            except Exception:  # noqa
                pass
    for col in columns:
        try:
            num = [cc.py(x) for x in pandas.to_numeric(pandas.Series(col))]
        except (ValueError, TypeError):
            num = list(col)
        nt.append('([%s], [%s])' % ('; '.join(cc.cstr(x) for x in col), '; '.join(cc.cval(x) for x in num)))
    return rt, '[%s]' % '; '.join(ft), '[%s]' % '; '.join(lt), '[%s]' % '; '.join(nt)


def aif_correspondence(rep, tier, seed):
    import pygaps.parsing as pp
    rnd = random.Random(seed + 37)
    n = 1200 if tier == 'thorough' else 110
    specs = gen_specs(rnd, 'aif', n, special=0.5)
    for txt in ["it's", "'quoted'", 'two words', 0, 0.0, False, None, -5, 1e22, 1e-300, 'a b  c']:
        s0 = cc.gen_spec(rnd, 'flat', cls=rnd.choice(['base', 'point', 'model']), blank_keys=False, mat_nested=False)
        s0['meta'] = {'comment': txt, 'k2': 1.5}
        s0['mprops'] = {'density': txt} if not isinstance(txt, str) else {}
        specs.append(fix_aif(s0))
    tbl = cc.ads_canon_table()
    terms, cases = [], []
    skipped = {}
    for k, spec in enumerate(specs):
        if spec['cls'] == 'point':
            d = spec['data']
            d['p'], d['l'] = [away_from_ties(x) for x in d['p']], [away_from_ties(x) for x in d['l']]
            d['cols'] = {c: [away_from_ties(x) for x in v] for c, v in d['cols'].items()}
        try:
            iso = cc.build(spec)
        except Exception:  # noqa
            continue
        o0 = cc.observe(iso)
        try:
            text = pp.isotherm_to_aif(iso)
        except Exception:  # noqa  (judged by the round-trip oracle)
            skipped['export refused'] = skipped.get('export refused', 0) + 1
            continue
        try:
            items, cells, columns = aif_items(text)
        except Exception:  # noqa  gemmi cannot parse what it wrote (known findings C07-F15/F17/F18, judged by the oracle)
            skipped['unparsable document'] = skipped.get('unparsable document', 0) + 1
            continue
        path = os.path.join(SCR, 'c07a_%d.aif' % os.getpid())
        try:
            open(path, 'w', encoding='utf8').write(text)
            j = pp.isotherm_from_aif(path)
            imp, o1 = 'Ok', cc.observe(j)
        except Exception as e:  # noqa
            imp, o1 = vlib.exn_class(e), o0
        finally:
            if os.path.exists(path):
                os.remove(path)
        rt, ft, lt, nt = aif_oracle_tables(o0, cells, columns)
        terms.append('(chk_aif %s %s %s %s %s %s %s (%d)%%Z %s)' % (rt, ft, lt, nt, tbl, cc.coq_iso(o0), items,
                                                                 vlib.EXN.index(imp) if imp in vlib.EXN else 99, cc.coq_iso(o1)))
        cases.append(dict(spec=spec, imp=imp))
    model = None
    try:
        model = vlib.run_coq_cases('c07a', AIF_HEADER, 'fun x : list Z => x', terms, per_file=10, nested=True)
    except RuntimeError as e:
        rep.broken_obligation('correspondence:AifDoc-evaluation', str(e)[-800:])
    n_dis = n_out = n_doc = n_imp = 0
    kinds = {}
    if model is not None:
        for c, mz in zip(cases, model):
            bad = None
            if mz[0] == 9:
                n_out += 1                       # the writer model is fail-closed outside its fragment (values that are not one CIF token)
            elif mz[0] != 0:
                bad = 'export: the model raises %s, the implementation wrote a document' % vlib.EXN[mz[0]]
            elif mz[1] != -1:
                bad = 'item %d of the block differs from the model' % mz[1]
            else:
                n_doc += 1
            if bad is None:
                if mz[2] == 9 and c['imp'] != 'FellOffEnd':
                    n_out += 1 if mz[0] != 9 else 0
                elif mz[2] == 3 and c['imp'] in ('ValueError', 'other:SyntaxError'):
                    n_imp += 1                   # _from_list (ast.literal_eval) is an oracle: the class of ITS error is not modelled
                    kinds['raw error of the _from_list oracle'] = kinds.get('raw error of the _from_list oracle', 0) + 1
                elif mz[3] != 1:
                    bad = 'import outcome: model %s, implementation %s' % (vlib.EXN[mz[2]] if mz[2] < len(vlib.EXN) else mz[2], c['imp'])
                elif mz[2] == 0:
                    wrong = [CSV_FIELDS[i] for i, v in enumerate(mz[4:]) if v != 1]
                    if wrong:
                        bad = 'state of the re-imported isotherm differs from the model in: ' + ', '.join(wrong)
                    else:
                        n_imp += 1
                else:
                    n_imp += 1
                    kinds[c['imp']] = kinds.get(c['imp'], 0) + 1
            if bad:
                n_dis += 1
                if n_dis <= 5:
                    rep.broken_obligation('correspondence:AifDoc-vs-implementation', {'what': bad, 'spec': c['spec']})
        if len(cases) and n_doc < 0.6 * len(cases):
            rep.broken_obligation('correspondence:AifDoc-coverage', 'only %d of %d documents are inside the modelled fragment' % (n_doc, len(cases)))
    rep.cov['aif_document_correspondence'] = {'cases': len(cases), 'blocks_equal_item_by_item': n_doc, 'imports_agree': n_imp, 'refused_alike': kinds,
                                              'outside_modelled_fragment': n_out, 'disagreements': n_dis, 'not_submitted': skipped}
    rep.cov['evaluations'] += len(cases)
    return n_doc


def fix_aif(s):
    """the AIF restrictions of gen_specs on a directed spec (ASCII one-token cells, AIF column names)"""
    s['meta'] = {k: v for k, v in s['meta'].items() if k.isascii() and k not in AIF_TYPED}
    s['mprops'] = {k: v for k, v in s['mprops'].items() if k.isascii()}
    if s['cls'] == 'point':
        d = s['data']
        d['pk'], d['lk'] = 'pressure', 'loading'
        d['cols'] = {k: v for k, v in d['cols'].items() if k.isascii() and ' ' not in k and not (v and isinstance(v[0], bool))}
        d['cols'] = {k: ([x if x.isascii() and ' ' not in x else 'tok' for x in v] if v and isinstance(v[0], str) else v) for k, v in d['cols'].items()}
    return s



def c06_js(spec):
    return spec


EXTRA_TARGETS = ['Codec/CsvShow.vo', 'Codec/XlShow.vo', 'Codec/AifShow.vo']


def run(rep, tier, seed):
    vlib.standard_proof_phase(rep, 'C07', extra_targets=EXTRA_TARGETS)
    explore(rep, tier, seed)
    if rep.broken and not rep.violations and tier != 'thorough':
        explore(rep, 'thorough', seed + 1)


def explore(rep, tier, seed):
    nk = cast_differential(rep, tier, seed)
    to_string_oracle(rep, tier, seed)
    hist, nontrivial = roundtrips(rep, tier, seed)
    nk += csv_correspondence(rep, tier, seed)
    nk += xl_correspondence(rep, tier, seed)
    nk += aif_correspondence(rep, tier, seed)
    rep.cov['distinct_nontrivial'] = len(nontrivial) + nk
    rep.cov['rule'] = ('(a) 20 000 distinct structured ASCII strings (numerals in every Python spelling incl. underscores/exponents/blanks, case variants of '
                       'none/true/false/nan/inf, brackets, random strings over a small alphabet, repr of floats) through cast_string vs the Coq model; '
                       '(b) 20 000 values of the documented domain through cast_string(_to_string(v)); (c) per format 200 generated isotherms (as C06, metadata '
                       'restricted to the format value domain) exported and re-imported, string and file targets, plus a malformed-text stream and directed '
                       'marker-like keys; a third of them with falsy / special values (0, 0.0, -0.0, False, empty text, NaN, inf, denormal, 1e-9, 1e22, 1e300) '
                       'at the first / a middle / the last row of the pressure, loading and extra columns or in the model parameters and ranges; '
                       '(d) ~110 generated isotherms + directed texts through the Coq model of the CSV document; (e) ~110 generated isotherms (half with '
                       'special values) + directed falsy metadata through the Coq model of the Excel workbook, cell by cell; (f) ~110 generated isotherms + '
                       'directed texts through the Coq model of the AIF block, item by item; (g) for a third of the round trips of every format: import, '
                       'in-place edit of every mutable object the imported copy holds (list / dict valued metadata and material properties, model ranges and '
                       'parameters, a table cell, a new metadata key), second import of the same text / file: must equal the first import; (h) per format ~22 isotherms of every class '
                       'carrying the metadata keys for which the AIF tag table has a named tag (each alone and all together, typed as declared) and 15 point '
                       'isotherms whose frame has non-default row labels (gaps, offset, shuffled, negative, text), compared value by value. non-trivial = '
                       'distinct (format, class, typed metadata shape, rows, unit labels) preserved by the round trip + distinct (result kind, length) of (a)')
    rep.cov['input_distribution'] = dict(sorted(hist.items()))
    rep.cov['trusted_base'] += ['oracles: Python float()/repr()/int()/str()/ast.literal_eval; pandas to_csv/read_csv/dtype/astype; xlwt/xlrd; gemmi.cif',
                                'the AIF round trip (and CSV / Excel beyond the modelled fragments) is validated on the implementation, not proved']
    rep.assumptions += ['metadata keys without separator/blank; text values outside the spellings of none/boolean/number/list (property text)',
                        'cells compared to the documented 8-decimal precision']


def replay(d):
    import logging
    logging.disable(logging.CRITICAL)
    r = d['replay']
    if r.get('kind') == 'cast':
        from pygaps.utilities.string_utilities import _to_string, cast_string
        v = eval(r['value'])  # noqa  (a literal written by this harness)
        print(repr(v), '->', repr(_to_string(v)), '->', repr(cast_string(_to_string(v))))
        return 1
    iso = cc.build(r['spec'])
    o0 = cc.observe(iso)
    if r.get('kind') == 'reimport':
        ri = do_reimport(r['fmt'], iso, 0, r.get('target', 'string'), r['edit_seed'])
        print('format', r['fmt'], '| in-place edits of the first import:', ri[2] if ri else None)
        if ri:
            print('first import (before the edit) vs second import of the same text:', content_diff(ri[0], ri[1]))
            print('metadata:', ri[0]['meta'], '->', ri[1]['meta'])
            if ri[0]['cls'] == 'model':
                print('model:', ri[0]['model'], '->', ri[1]['model'])
        return 1
    exp, imp, j, msg = do_roundtrip(r['fmt'], iso, 0, r.get('target', 'string'))
    print('format', r['fmt'], 'export:', exp, 'import:', imp, msg)
    if j is not None:
        o1 = cc.observe(j)
        print('content difference:', content_diff(o0, o1))
        print('dtypes:', o0.get('dtypes'), '->', o1.get('dtypes'))
        print('==:', j == iso)
        if r.get('kind') == 'malformed':
            print('metadata:', o0['meta'], '->', o1['meta'])
    print('kind of failure recorded:', r.get('kind'))
    return 1
