"""C08 - the SQLite store behaves as a keyed collection over any operation history.

proof phase   : Props/C08.v (Db/DbModel.v tables+statements+registries, Db/DbSpec.v dictionary, Db/DbRefine.v refinement)
correspondence: random operation histories over 1-3 fresh database files (db_create) on the implementation vs the model executed
                inside Coq: after EVERY call the outcome class, the number of SQL statements issued, the row-level change of every
                table (read through an independent sqlite3 connection), the AUTOINCREMENT counters, the registries, the result of
                *_from_db
oracle        : (i) inside Coq the PLAIN dictionary model judges every step from the abstraction of the state before the call
                (accepted/refused, content afterwards); (ii) on the implementation: an accepted upload comes back equal through
                *_from_db (isotherms: `==` and deletable through the retrieved object), a refused call leaves every table of every
                file unchanged, a call never changes another file
"""
import json
import os
import random
import shutil
import sqlite3

import vlib

MANIFEST = dict(
    text="Machine-checked (Coq 8.16, axiom-free) theorems about a statement-level model of parsing/sqlite.py (ten tables as lists with the UNIQUE / "
         "NOT NULL / FOREIGN KEY constraints of sqlite_db_pragmas.py, every public function as the sequence of statements it issues, "
         "ADSORBATE_LIST/MATERIAL_LIST as state, with_connection as one transaction) and a plain dictionary model: a refused operation leaves the "
         "file unchanged (all operations, all contents); retrievals change nothing; a well-formedness invariant of the tables (unique names / ids / "
         "type names, no property without owner and type, no isotherm without material / adsorbate / type, no isotherm property or data row without "
         "isotherm) is preserved by EVERY operation under every fault and over every history (induction), and under it adsorbate / material upload "
         "(new and overwrite, with and without auto-insert of property types), adsorbate / material deletion, property-type and isotherm-type upload / "
         "overwrite / deletion, isotherm upload without auto-insert and isotherm deletion REFINE the "
         "dictionary (absent / duplicate / unknown type / null value -> parsing error and nothing changes; otherwise exactly that item is added, "
         "replaced or removed), composed over arbitrary histories of these operations and retrievals (history_refines_partial); outcome and content afterwards depend on the target file only, and by induction "
         "over ARBITRARY histories over several files the final content of a file is what its own operations produce on it alone - for every "
         "operation except isotherm uploads with auto-insert, which read the per-process registries (refuted witnesses: cross-file upload, "
         "numeric-looking text through REAL affinity, iso_type leaking into retrieved isotherms, missing isotherm_properties_type table, list-valued "
         "material properties). PARTIAL: the refinement tables -> dictionary for isotherm uploads WITH auto-insert (they read the registries) is "
         "not proved; it is evaluated inside Coq (dictionary model vs abstraction of the tables) on every step of every history of the run; the "
         "invariant is decided inside Coq for the content db_create ships. The "
         "hand-written model is tied to the code on every run by executing it inside Coq against the implementation on random histories (outcome, "
         "statement count, every table row, counters, registries, retrieval results after every call).",
    note="Trusted: Coq kernel; SQLite/sqlite3 behaving as the constraint model says (validated by the table-level comparison after every call); "
         "the harness (interning of strings/numbers to integers, independent dump connection); isotherm construction / iso_id (C05) as oracle.",
    technique="Coq proofs over a statement-tree model (induction over programs and histories) + dictionary model and table model executed in Coq against real histories")

HEADER = """From Coq Require Import ZArith List Bool.
From PG Require Import Db.DbModel Db.DbSpec Db.DbShow.
Import ListNotations. Open Scope Z_scope.
"""
TABLES = ['adsorbates', 'adsorbate_properties', 'adsorbate_properties_type', 'materials', 'material_properties',
          'material_properties_type', 'isotherm_type', 'isotherms', 'isotherm_properties', 'isotherm_data']
SEQ = ['adsorbates', 'adsorbate_properties', 'adsorbate_properties_type', 'materials', 'material_properties', 'material_properties_type',
       'isotherm_type', 'isotherm_properties', 'isotherm_data']
NUMPOOL = {'1e5': 100000.0, '12': 12.0, '0.5': 0.5, '-3': -3.0}
OC = {0: 'Ok', 3: 'ParsingError', 10: 'OperationalError', 11: 'other', 12: 'died'}
UNITS = dict(pressure_mode='absolute', pressure_unit='bar', loading_basis='molar', loading_unit='mmol', material_basis='mass',
             material_unit='g', temperature_unit='K')


# ------------------------------------------------------------------ interning
class Intern:
    def __init__(self):
        self.atoms, self.nums = {}, {}
        for s in ['FALSE', 'TRUE', 'iso_type', 'pointisotherm', 'modelisotherm', 'isotherm']:
            self.atom(s)
        self.num(0.0); self.num(1.0)

    def atom(self, s):
        if isinstance(s, bytes):
            s = s.decode('utf8', 'replace')
        return self.atoms.setdefault(str(s), len(self.atoms))

    def num(self, x):
        return self.nums.setdefault(float(x), len(self.nums))

    def vcode(self, v):
        if v is None: return 0
        if isinstance(v, bool): return 7 if v else 3
        if isinstance(v, (int, float)): return 4 * self.num(v) + 1
        return 4 * self.atom(v) + 2

    def vlit(self, v):
        """a Python value handed to the store -> Coq `val`"""
        if v is None: return 'VNull'
        if isinstance(v, bool): return '(VBool %s)' % ('true' if v else 'false')
        if isinstance(v, (int, float)): return '(VNum %d)' % self.num(v)
        if v in NUMPOOL: return '(VNumText %d %d)' % (self.atom(v), self.num(NUMPOOL[v]))
        return '(VText %d)' % self.atom(v)

    def slit(self, v):
        """a value as found IN a table"""
        if v is None: return 'VNull'
        if isinstance(v, (int, float)): return '(VNum %d)' % self.num(v)
        return '(VText %d)' % self.atom(v)


def zl(xs):
    return '[' + '; '.join(str(x) for x in xs) + ']'


# ------------------------------------------------------------------ reading a database file through an independent connection
def raw_dump(path, ro=True):
    c = sqlite3.connect('file:%s?mode=ro' % path, uri=True) if ro else sqlite3.connect(path)
    try:
        out = {t: c.execute('SELECT * FROM "%s" ORDER BY rowid' % t).fetchall() for t in TABLES}
        seq = dict(c.execute('SELECT name, seq FROM sqlite_sequence').fetchall())
        out['_fk'] = c.execute('PRAGMA foreign_key_check').fetchall()
    finally:
        c.close()
    out['_counters'] = [seq.get(t, 0) + 1 for t in SEQ]
    return out


def encode(raw, I):
    """tables as lists of integer rows, in the layout of Db/DbShow.v `tables`"""
    a, v = I.atom, I.vcode
    T = []
    for pre in ('adsorbate', 'material'):
        T.append([[r[0], a(r[1])] for r in raw[pre + 's']])
        T.append([[r[0], r[1], a(r[2]), v(r[3])] for r in raw[pre + '_properties']])
        T.append([[r[0], a(r[1]), v(r[2]), v(r[3])] for r in raw[pre + '_properties_type']])
    T.append([[r[0], a(r[1]), 0, v(r[2])] for r in raw['isotherm_type']])
    T.append([[a(r[0]), a(r[1]), a(r[2]), a(r[3]), v(r[4])] for r in raw['isotherms']])
    T.append([[r[0], a(r[1]), a(r[2]), v(r[3])] for r in raw['isotherm_properties']])
    T.append([[r[0], a(r[1]), a(r[2]), a(r[3]), a(r[4])] for r in raw['isotherm_data']])
    return T


def db_literal(raw, I):
    a, s = I.atom, I.slit
    cn = raw['_counters']

    def store(pre, c0):
        rows = '; '.join('(%d, %d)' % (r[0], a(r[1])) for r in raw[pre + 's'])
        props = '; '.join('mkP %d %d %d %s' % (r[0], r[1], a(r[2]), s(r[3])) for r in raw[pre + '_properties'])
        types = '; '.join('mkT %d %d %s %s' % (r[0], a(r[1]), s(r[2]), s(r[3])) for r in raw[pre + '_properties_type'])
        return '(mkS [%s] %d [%s] %d [%s] %d)' % (rows, cn[c0], props, cn[c0 + 1], types, cn[c0 + 2])
    it = '; '.join('mkT %d %d VNull %s' % (r[0], a(r[1]), s(r[2])) for r in raw['isotherm_type'])
    isos = '; '.join('mkI %d %d %d %d %s' % (a(r[0]), a(r[1]), a(r[2]), a(r[3]), s(r[4])) for r in raw['isotherms'])
    ip = '; '.join('mkP %d %d %d %s' % (r[0], a(r[1]), a(r[2]), s(r[3])) for r in raw['isotherm_properties'])
    idt = '; '.join('mkD %d %d %d %d %d' % (r[0], a(r[1]), a(r[2]), a(r[3]), a(r[4])) for r in raw['isotherm_data'])
    return '(mkDb %s %s [%s] %d [%s] [%s] %d [%s] %d)' % (store('adsorbate', 0), store('material', 3), it, cn[6], isos, ip, cn[7], idt, cn[8])


def table_diff(old, new):
    """row-level difference in the format of Db/DbShow.v diff_tables: per table (removed keys, added rows), as sorted lists"""
    out = []
    for o, n in zip(old, new):
        so, sn = {tuple(r) for r in o}, {tuple(r) for r in n}
        out.append((sorted(r[0] for r in so - sn), sorted(sn - so)))
    return out


# ------------------------------------------------------------------ the implementation side
class SqlProxy:
    """stands for the module `sqlite3` inside pygaps.parsing.sqlite: counts cursor.execute calls, can fail / exit at call k"""

    def __init__(self):
        self.n = 0
        self.fault = None          # ('raise', k, exception class name) | ('exit', k) | ('exit_before_commit',) | ('exit_after_commit',)
        self.log = None

    def __getattr__(self, name):
        return getattr(sqlite3, name)

    def connect(self, *a, **k):
        return _Conn(sqlite3.connect(*a, **k), self)


class _Conn:
    def __init__(self, real, px):
        object.__setattr__(self, '_r', real); object.__setattr__(self, '_px', px)

    def __setattr__(self, k, v):
        setattr(self._r, k, v)

    def __getattr__(self, k):
        return getattr(self._r, k)

    def cursor(self):
        return _Cur(self._r.cursor(), self._px)

    def commit(self):
        f = self._px.fault
        if f and f[0] == 'exit_before_commit':
            os._exit(41)
        self._r.commit()
        if f and f[0] == 'exit_after_commit':
            os._exit(42)


class _Cur:
    def __init__(self, real, px):
        self._r, self._px = real, px

    def execute(self, sql, *a):
        px = self._px
        px.n += 1
        if px.log is not None:
            px.log.append(sql.split()[0].upper())
        f = px.fault
        if f and f[0] == 'raise' and f[1] == px.n:
            raise getattr(sqlite3, f[2])('injected fault at statement %d' % px.n)
        if f and f[0] == 'exit' and f[1] == px.n:
            os._exit(40)
        return self._r.execute(sql, *a)

    def __iter__(self):
        return iter(self._r)

    def __getattr__(self, k):
        return getattr(self._r, k)


class Impl:
    """pyGAPS with the counting proxy installed and the registries restorable"""

    def __init__(self, workdir):
        import pygaps  # noqa
        import pygaps.parsing.sqlite as S
        from pygaps.data import ADSORBATE_LIST, MATERIAL_LIST
        from pygaps.utilities.sqlite_db_creator import db_create
        self.S, self.AL, self.ML = S, ADSORBATE_LIST, MATERIAL_LIST
        self.reg0 = (list(ADSORBATE_LIST), list(MATERIAL_LIST))
        self.props0 = {id(x): dict(x.properties) for x in self.reg0[0]}
        self.px = SqlProxy()
        self.workdir = workdir
        os.makedirs(workdir, exist_ok=True)
        self.template = os.path.join(workdir, 'template.db')
        if os.path.exists(self.template):
            os.remove(self.template)
        db_create(self.template)                      # pygaps.utilities.sqlite_db_creator.db_create: schema + shipped adsorbates + types
        self.reset_registry()
        S.sqlite3 = self.px

    def close(self):
        self.S.sqlite3 = sqlite3
        self.reset_registry()
        shutil.rmtree(self.workdir, ignore_errors=True)

    def reset_registry(self):
        self.AL[:] = self.reg0[0]
        self.ML[:] = self.reg0[1]
        for x in self.reg0[0]:
            x.properties.clear(); x.properties.update(self.props0[id(x)])

    def fresh(self, k):
        p = os.path.join(self.workdir, 'f%d.db' % k)
        shutil.copyfile(self.template, p)
        for ext in ('-journal', '-wal', '-shm'):
            if os.path.exists(p + ext):
                os.remove(p + ext)
        return p

    def registry(self, I):
        return [[[n] for n in sorted({I.atom(x.name) for x in self.AL})], [[n] for n in sorted({I.atom(x.name) for x in self.ML})]]


def flat_props(d, skip=('name',)):
    """properties.items() as the upload loops see them: [(type, [values])]"""
    out = []
    for k, v in d.items():
        if k in skip:
            continue
        out.append((k, list(v) if isinstance(v, (list, set, tuple)) else [v]))
    return out


def plist_lit(ps, I):
    return '[' + '; '.join('(%d, [%s])' % (I.atom(k), '; '.join(I.vlit(v) for v in vs)) for k, vs in ps) + ']'


def make_iso(spec):
    """build the isotherm object an op describes (at call time: Material.find / Adsorbate.find read the registries)"""
    import pandas as pd
    import pygaps
    from pygaps.core.baseisotherm import BaseIsotherm
    from pygaps.modelling import model_from_dict
    kw = dict(UNITS); kw.update(spec['meta'])
    kw.update(material=spec['mat'], adsorbate=spec['ads'], temperature=spec['T'])
    if spec['cls'] == 'point':
        df = pd.DataFrame({'pressure': spec['p'], 'loading': spec['l']})
        if spec.get('extra'):
            df['enthalpy'] = spec['extra']
        return pygaps.PointIsotherm(isotherm_data=df, pressure_key='pressure', loading_key='loading', **kw)
    if spec['cls'] == 'model':
        m = model_from_dict({'name': 'Henry', 'parameters': {'K': spec['K']}, 'rmse': 0.1, 'pressure_range': [0.0, 1.0], 'loading_range': [0.0, 2.0]})
        return pygaps.ModelIsotherm(model=m, **kw)
    return BaseIsotherm(**kw)


def iso_model_input(iso, I):
    """what isotherm_to_db reads from the object -> the model's `isoin`"""
    import pygaps
    S_find = __import__('pygaps.utilities.sqlite_utilities', fromlist=['x']).find_SQL_python_type
    ty = 'pointisotherm' if isinstance(iso, pygaps.PointIsotherm) else 'modelisotherm' if isinstance(iso, pygaps.ModelIsotherm) else 'isotherm'
    d = iso.to_dict()
    for k in ('material', 'temperature', 'adsorbate'):
        d.pop(k, None)
    data = []
    if ty == 'pointisotherm':
        data.append(('pressure', 'float', json.dumps(iso.pressure().tolist())))
        data.append(('loading', 'float', json.dumps(iso.loading().tolist())))
        for key in iso.other_keys:
            data.append((key, S_find(iso.other_data(key)[0]), json.dumps(iso.other_data(key).tolist())))
    elif ty == 'modelisotherm':
        data.append(('model', 'dict', json.dumps(iso.model.to_dict())))
    a = I.atom
    return '(mkIn %d %d %d %s %d %s %s [%s] [%s])' % (
        a(iso.iso_id), a(ty), a(iso.material.name), plist_lit(flat_props(iso.material.to_dict()), I),
        a(iso.adsorbate.name), plist_lit(flat_props(iso.adsorbate.to_dict()), I), I.vlit(iso._temperature),
        '; '.join('(%d, %s)' % (a(k), I.vlit(v)) for k, v in d.items()),
        '; '.join('(%d, %d, %d)' % (a(t), a(dt), a(js)) for t, dt, js in data))


TSEL = {'ads': 'TAds', 'mat': 'TMat', 'iso': 'TIso', 'isoprop': 'TIsoProp'}
ENT = {'ads': 'EAds', 'mat': 'EMat'}


def apply_op(im, op, path, I):
    """run one operation on the implementation. Returns (outcome class, statements, coq op term, python result, object)"""
    import pygaps
    S = im.S
    k = op['k']
    obj = None
    res = None
    im.px.n = 0
    try:
        if k == 'EntUp':
            cls = pygaps.Adsorbate if op['e'] == 'ads' else pygaps.Material
            obj = cls(op['name'], **{kk: (list(v) if isinstance(v, list) else v) for kk, v in op['props'].items()})
            term = '(EntUp %s %d %s %s %s)' % (ENT[op['e']], I.atom(obj.name), plist_lit(flat_props(obj.to_dict()), I),
                                              'true' if op['auto'] else 'false', 'true' if op['ow'] else 'false')
            f = S.adsorbate_to_db if op['e'] == 'ads' else S.material_to_db
            call = lambda: f(obj, db_path=path, autoinsert_properties=op['auto'], overwrite=op['ow'], verbose=False)
        elif k == 'EntGet':
            term = '(EntGet %s)' % ENT[op['e']]
            call = lambda: (S.adsorbates_from_db if op['e'] == 'ads' else S.materials_from_db)(db_path=path, verbose=False)
        elif k == 'EntDel':
            term = '(EntDel %s %d)' % (ENT[op['e']], I.atom(op['name']))
            arg = op['name'] if op.get('bystr') else (pygaps.Adsorbate(op['name']) if op['e'] == 'ads' else pygaps.Material(op['name']))
            call = lambda: (S.adsorbate_delete_db if op['e'] == 'ads' else S.material_delete_db)(arg, db_path=path, verbose=False)
        elif k == 'TyUp':
            d = {'type': op['ty']}
            if op['t'] != 'iso' and op.get('unit') is not None:
                d['unit'] = op['unit']
            if op.get('desc') is not None:
                d['description'] = op['desc']
            term = '(TyUp %s %d %s %s %s)' % (TSEL[op['t']], I.atom(op['ty']), I.vlit(d.get('unit')), I.vlit(d.get('description')), 'true' if op['ow'] else 'false')
            f = {'ads': S.adsorbate_property_type_to_db, 'mat': S.material_property_type_to_db, 'iso': S.isotherm_type_to_db, 'isoprop': S.isotherm_property_type_to_db}[op['t']]
            call = lambda: f(d, db_path=path, overwrite=op['ow'], verbose=False)
        elif k == 'TyGet':
            term = '(TyGet %s)' % TSEL[op['t']]
            f = {'ads': S.adsorbate_property_types_from_db, 'mat': S.material_property_types_from_db, 'iso': S.isotherm_types_from_db, 'isoprop': S.isotherm_property_types_from_db}[op['t']]
            call = lambda: f(db_path=path, verbose=False)
        elif k == 'TyDel':
            term = '(TyDel %s %d)' % (TSEL[op['t']], I.atom(op['ty']))
            f = {'ads': S.adsorbate_property_type_delete_db, 'mat': S.material_property_type_delete_db, 'iso': S.isotherm_type_delete_db, 'isoprop': S.isotherm_property_type_delete_db}[op['t']]
            call = lambda: f(op['ty'], db_path=path, verbose=False)
        elif k == 'IsoUp':
            obj = make_iso(op['iso'])
            term = '(IsoUp %s %s %s)' % (iso_model_input(obj, I), 'true' if op['am'] else 'false', 'true' if op['aa'] else 'false')
            call = lambda: S.isotherm_to_db(obj, db_path=path, autoinsert_material=op['am'], autoinsert_adsorbate=op['aa'], verbose=False)
        elif k == 'IsoGet':
            c = op['crit']
            term = '(IsoGet (mkC %s %s %s %s))' % tuple(
                ('(Some %s)' % (I.vlit(c[key]) if key == 'temperature' else I.atom(c[key]))) if key in c else 'None'
                for key in ('material', 'adsorbate', 'iso_type', 'temperature'))
            call = lambda: S.isotherms_from_db(dict(c) if c else None, db_path=path, verbose=False)
        elif k == 'IsoDel':
            # delete by id / through the uploaded object / through the object retrieved from the file
            target = op['target']          # an iso_id string, decided by the driver
            term = '(IsoDel %d)' % I.atom(target)
            call = lambda: S.isotherm_delete_db(op.get('through', target), db_path=path, verbose=False)
        else:
            raise AssertionError(k)
        res = call()
        oc = 'Ok'
    except Exception as e:  # noqa
        n = type(e).__name__
        oc = n if n in ('ParsingError', 'OperationalError') else 'other:' + n
    return oc, im.px.n, term, res, obj


def norm_ret(op, res, I, base_names):
    """a *_from_db result in the layout of Db/DbShow.v enc_ret (rows sorted where the order is not part of the result)"""
    k = op['k']
    if res is None:
        return []
    if k == 'EntGet':
        rows = []
        for x in res:
            if I.atom(x.name) in base_names:
                continue
            pairs = sorted((I.atom(t), I.vcode(v)) for t, vs in flat_props(x.to_dict()) for v in vs)
            rows.append([I.atom(x.name)] + [z for p in pairs for z in p])
        return [[len(res)]] + sorted(rows)
    if k == 'TyGet':
        return sorted([I.atom(d['type']), I.vcode(d.get('unit')), I.vcode(d.get('description'))] for d in res)
    if k == 'IsoGet':
        import pygaps
        out = []
        for x in res:
            d = x.to_dict()
            mat = d.pop('material'); mat = mat['name'] if isinstance(mat, dict) else mat
            ads = d.pop('adsorbate'); T = d.pop('temperature')
            ty = d.get('iso_type')
            pairs = sorted((I.atom(t), I.vcode(v)) for t, v in d.items())
            data = []
            if isinstance(x, pygaps.PointIsotherm):
                data = [('pressure', json.dumps(x.pressure().tolist())), ('loading', json.dumps(x.loading().tolist()))]
                data += [(kk, json.dumps(x.other_data(kk).tolist())) for kk in x.other_keys]
            elif isinstance(x, pygaps.ModelIsotherm):
                data = [('model', json.dumps(x.model.to_dict()))]
            out.append([[I.atom(ty), I.atom(mat), I.atom(ads), I.vcode(T)], [z for p in pairs for z in p],
                        sorted([I.atom(t), I.atom(js)] for t, js in data)])
        return sorted(out)
    return []


def norm_model_ret(op, sec):
    k = op['k']
    if k == 'EntGet' and sec:
        rows = []
        for r in sec[1:]:
            pairs = sorted(zip(r[1::2], r[2::2]))
            rows.append([r[0]] + [z for p in pairs for z in p])
        return [sec[0]] + sorted(rows)
    if k == 'TyGet':
        return sorted(sec)
    if k == 'IsoGet':
        out = []
        for i in range(0, len(sec), 3):
            head, pr, dt = sec[i], sec[i + 1], sec[i + 2]
            pairs = sorted(zip(pr[0::2], pr[1::2]))
            out.append([[head[1], head[2], head[3], head[4]], [z for p in pairs for z in p],
                        sorted([dt[j], dt[j + 2]] for j in range(0, len(dt), 3))])
        return sorted(out)
    return sec


# ------------------------------------------------------------------ history generation
MATS = ['m_a', 'm_b', 'm_c', 'm_d']
UADS = ['ua_x', 'ua_y', 'ua_z']
SHIPPED = ['nitrogen', 'argon']
PTYPES = ['density', 'note', 'tag', 'molar_mass', 'grade']
WORDS = ['alpha', 'beta', 'gamma', 'x y', 'ok']


def gen_value(rnd, numeric_text=0.08, none=0.03, lists=0.06):
    r = rnd.random()
    if r < numeric_text: return rnd.choice(sorted(NUMPOOL))
    r -= numeric_text
    if r < none: return None
    r -= none
    if r < lists: return [rnd.choice(WORDS), rnd.choice(WORDS) + '2']
    return rnd.choice([rnd.choice(WORDS), round(rnd.uniform(0.5, 9.5), 2), float(rnd.randint(1, 5)), rnd.randint(1, 9)])


def gen_iso(rnd):
    cls = rnd.choice(['point', 'point', 'model', 'base'])
    meta = {}
    for key in rnd.sample(['operator', 'batch', 'note', 'flag', 'run'], rnd.randint(0, 3)):
        r = rnd.random()
        meta[key] = (rnd.choice(WORDS) if r < 0.5 else rnd.choice(sorted(NUMPOOL)) if r < 0.6 else rnd.randint(1, 9) if r < 0.7
                     else rnd.choice([True, False]) if r < 0.8 else round(rnd.uniform(1, 5), 3))
    if rnd.random() < 0.05:
        meta['pressure_mode'] = 'relative'        # the constructor sets pressure_unit None: NOT NULL refuses the upload
    spec = dict(cls=cls, mat=rnd.choice(MATS), ads=rnd.choice(UADS + SHIPPED + SHIPPED), T=rnd.choice([77.0, 87.3, 298.15, 77]), meta=meta)
    if cls == 'point':
        n = rnd.randint(2, 4)
        spec['p'] = [round(0.1 * (i + 1) + rnd.random() / 50, 4) for i in range(n)]
        spec['l'] = [round(0.5 * (i + 1) + rnd.random() / 10, 4) for i in range(n)]
        if rnd.random() < 0.3:
            spec['extra'] = [round(5.0 - 0.3 * i, 2) for i in range(n)]
    if cls == 'model':
        spec['K'] = round(rnd.uniform(0.5, 5), 3)
    return spec


def gen_history(rnd, nfiles, maxlen):
    """op descriptors; targets of deletions/retrievals are chosen by the driver from what was uploaded so far"""
    H = []
    for _ in range(rnd.randint(3, maxlen)):
        f = rnd.randrange(nfiles)
        r = rnd.random()
        if r < 0.20:
            e = rnd.choice(['ads', 'mat'])
            name = rnd.choice(UADS + ['nitrogen'] if e == 'ads' else MATS)
            props = {t: gen_value(rnd) for t in rnd.sample(PTYPES, rnd.randint(0, 3))}
            if e == 'ads' and rnd.random() < 0.3:
                props['alias'] = [name + '_al']
            H.append(dict(k='EntUp', f=f, e=e, name=name, props=props, auto=rnd.random() < 0.8, ow=rnd.random() < 0.25))
        elif r < 0.30:
            e = rnd.choice(['ads', 'mat'])
            H.append(dict(k='EntDel', f=f, e=e, name=rnd.choice((UADS + ['argon']) if e == 'ads' else MATS), bystr=rnd.random() < 0.4))
        elif r < 0.37:
            H.append(dict(k='EntGet', f=f, e=rnd.choice(['ads', 'mat'])))
        elif r < 0.47:
            t = rnd.choice(['ads', 'mat', 'iso', 'ads', 'mat', 'iso', 'isoprop'])
            ty = rnd.choice(PTYPES + (['isotherm', 'pointisotherm', 'special'] if t == 'iso' else []))
            H.append(dict(k='TyUp', f=f, t=t, ty=ty, unit=rnd.choice([None, 'g/cm3', 'K']), desc=rnd.choice([None, 'some text']), ow=rnd.random() < 0.25))
        elif r < 0.53:
            t = rnd.choice(['ads', 'mat', 'iso', 'ads', 'mat', 'iso', 'isoprop'])
            H.append(dict(k='TyDel', f=f, t=t, ty=rnd.choice(PTYPES + (['modelisotherm', 'special'] if t == 'iso' else []))))
        elif r < 0.57:
            H.append(dict(k='TyGet', f=f, t=rnd.choice(['ads', 'mat', 'iso', 'isoprop'])))
        elif r < 0.80:
            H.append(dict(k='IsoUp', f=f, iso=gen_iso(rnd), am=rnd.random() < 0.8, aa=rnd.random() < 0.8, again=rnd.random() < 0.15))
        elif r < 0.90:
            H.append(dict(k='IsoDel', f=f, how=rnd.choice(['id', 'object', 'retrieved', 'absent'])))
        else:
            c = {}
            if rnd.random() < 0.5: c['material'] = rnd.choice(MATS)
            if rnd.random() < 0.3: c['adsorbate'] = rnd.choice(UADS + SHIPPED)
            if rnd.random() < 0.2: c['iso_type'] = rnd.choice(['pointisotherm', 'modelisotherm', 'isotherm'])
            if rnd.random() < 0.2: c['temperature'] = rnd.choice([77.0, 87.3])
            H.append(dict(k='IsoGet', f=f, crit=c))
    return H


# ------------------------------------------------------------------ classification of failing steps (input pattern -> tag)
def has_numtext(op):
    vals = []
    if op['k'] == 'EntUp':
        vals = list(op['props'].values())
    if op['k'] == 'IsoUp':
        vals = list(op['iso']['meta'].values())
    return any(isinstance(v, str) and v in NUMPOOL for v in vals)


def classify(op, kind, ctx):
    k = op['k']
    if op.get('t') == 'isoprop':
        return 'C08:isotherm-property-type-table-missing'
    if kind in ('outcome', 'refused-changed-registry') and k == 'IsoUp' and (op['am'] or op['aa']):
        if ctx.get('leaked'):
            return 'C08:registry-keeps-rolled-back-autoinsert'
        if ctx.get('reg_vs_file'):
            return 'C08:registry-not-per-file'
    if kind in ('content', 'roundtrip') and has_numtext(op):
        return 'C08:numeric-text-real-affinity'
    if kind == 'roundtrip' and k == 'EntUp' and op['e'] == 'mat' and any(isinstance(v, list) and len(v) > 1 for v in op['props'].values()):
        return 'C08:material-list-property-collapsed'
    if kind in ('roundtrip', 'delete-through-retrieved') and k in ('IsoUp', 'IsoDel'):
        meta = ctx.get('meta', {})
        if any(isinstance(v, str) and v in NUMPOOL for v in meta.values()):
            return 'C08:numeric-text-real-affinity'
        if any(isinstance(v, int) and not isinstance(v, bool) for v in meta.values()):
            return 'C08:int-metadata-real-affinity'
        return 'C08:retrieved-isotherm-iso_type-leak'
    return 'C08:unclassified:%s:%s' % (kind, k)


# ------------------------------------------------------------------ one campaign
def explore(rep, tier, seed, nh=None, maxlen=None):
    rnd = random.Random(seed)
    nh = nh or (600 if tier == "thorough" else 110)
    maxlen = maxlen or (40 if tier == "thorough" else 22)
    work = os.path.join(vlib.SCRATCH, 'c08_%d' % os.getpid())
    im = Impl(work)
    I = Intern()
    try:
        raw0 = raw_dump(im.template)
        base_names = {I.atom(r[1]) for r in raw0['adsorbates']}
        db0 = db_literal(raw0, I)
        reg0 = '(mkReg %s [])' % zl(sorted(I.atom(x.name) for x in im.reg0[0]))
        runs = []
        for hi in range(nh):
            nfiles = rnd.choice([1, 1, 2, 3])
            H = gen_history(rnd, nfiles, maxlen)
            runs.append(run_history(im, I, H, nfiles, raw0))
    finally:
        im.close()
    header = HEADER + 'Definition db0 := %s.\nDefinition reg0 := %s.\nDefinition base := %s.\n' % (db0, reg0, zl(sorted(base_names)))
    terms = ['(show_hist base %s reg0 [%s])' % ('[' + '; '.join(['db0'] * r['nfiles']) + ']',
                                                '; '.join('(%d%%nat, %s)' % (s['f'], s['term']) for s in r['steps'])) for r in runs]
    model = None
    try:
        model = vlib.run_coq_cases('c08m', header, 'fun x : list (list (list (list Z))) => x', terms, per_file=10, nested=True, timeout=1500)
    except RuntimeError as e:
        rep.broken_obligation('correspondence:DbModel-evaluation', str(e)[-1200:])
    judge(rep, runs, model, I)
    check_wf(rep, header, ['db0'])
    return runs


def check_wf(rep, header, names):
    """the hypothesis `wf d` of the refinement / invariant theorems, DECIDED inside Coq (DbInv.wfb, sound by well_formedness_check_is_sound) for
    the concrete contents the histories of this run start from (what db_create ships / the prepared files of C09)"""
    try:
        res = vlib.run_coq_cases('c08w', header.replace('Db.DbShow.', 'Db.DbShow Db.DbInv.'), 'fun b : bool => (if b then 1 else 0, 0)',
                                 ['(wfb %s)' % n for n in names], per_file=50, timeout=600)
        bad = [n for n, v in zip(names, res) if v[0] != 1]
        rep.cov['initial_contents_well_formed'] = '%d of %d (DbInv.wfb evaluated inside Coq on %s)' % (len(names) - len(bad), len(names), ', '.join(names))
        rep.cov['evaluations'] += len(names)
        for n in bad:
            rep.broken_obligation('hypothesis:wf(%s)' % n, 'the initial table content %s violates the well-formedness invariant of Db/DbInv.v (wfb = false)' % n)
    except RuntimeError as e:
        rep.broken_obligation('hypothesis:wf-evaluation', str(e)[-800:])


def run_history(im, I, H, nfiles, raw0):
    im.reset_registry()
    paths = [im.fresh(i) for i in range(nfiles)]
    enc0 = encode(raw0, I)
    cur = [dict(tabs=[list(t) for t in enc0], counters=list(raw0['_counters'])) for _ in range(nfiles)]
    reg = im.registry(I)
    uploaded = [[] for _ in range(nfiles)]      # (iso_id, object, meta) accepted per file
    steps = []
    leaked = set()
    for op in H:
        f = op['f']
        path = paths[f]
        ctx = {}
        if op['k'] == 'IsoUp' and op.get('again') and uploaded[f]:
            op = dict(op); op['iso'] = uploaded[f][-1][3]          # a duplicate of something stored
        if op['k'] == 'IsoDel':
            op = dict(op)
            pool = uploaded[f]
            if op['how'] == 'absent' or not pool:
                op['target'] = 'feedbeef' * 4; op['how'] = 'absent'
            else:
                iid, obj, meta, spec = pool[-1] if len(pool) == 1 else pool[len(steps) % len(pool)]
                op['target'] = iid
                ctx['meta'] = meta
                if op['how'] == 'object':
                    op['through'] = obj
                elif op['how'] == 'retrieved':
                    im.px.n = 0
                    got = [x for x in im.S.isotherms_from_db(db_path=path, verbose=False)]
                    same = [x for x in got if x.iso_id == iid]
                    # the retrieved twin of the stored isotherm: same id if the property holds; else the one built from the same row
                    cand = same or [x for x in got if str(x.material) == str(obj.material) and str(x.adsorbate) == str(obj.adsorbate)
                                    and type(x) is type(obj) and {k: v for k, v in x.to_dict().items() if k != 'iso_type'}.keys() == obj.to_dict().keys()]
                    if cand:
                        op['through'] = cand[0]; op['target'] = cand[0].iso_id; ctx['retrieved_same_id'] = bool(same); ctx['stored_id'] = iid
                    else:
                        op['how'] = 'id'
        # registry vs file membership before the call (for the classifier only)
        if op['k'] == 'IsoUp':
            mats_in_file = {r[1] for r in cur[f]['tabs'][3]}
            ads_in_file = {r[1] for r in cur[f]['tabs'][0]}
            regm = {r[0] for r in reg[1]}; rega = {r[0] for r in reg[0]}
            ma, aa_ = I.atom(op['iso']['mat']), None
            try:
                import pygaps
                aa_ = I.atom(pygaps.Adsorbate.find(op['iso']['ads']).name)
            except Exception:  # noqa
                aa_ = I.atom(op['iso']['ads'])
            ctx['reg_vs_file'] = (op['am'] and ((ma in regm) != (ma in mats_in_file))) or (op['aa'] and ((aa_ in rega) != (aa_ in ads_in_file)))
            ctx['leaked'] = (op['am'] and ma in leaked and ma not in mats_in_file) or (op['aa'] and aa_ in leaked and aa_ not in ads_in_file)
            ctx['meta'] = op['iso']['meta']
        oc, nst, term, res, obj = apply_op(im, op, path, I)
        # state afterwards: every file, through an independent connection
        after = []
        for i, p in enumerate(paths):
            raw = raw_dump(p)
            after.append(dict(tabs=encode(raw, I), counters=raw['_counters'], fk=raw['_fk']))
        reg2 = im.registry(I)
        st = dict(f=f, op=op, oc=oc, n=nst, term=term, ctx=ctx,
                  diff=table_diff(cur[f]['tabs'] + reg, after[f]['tabs'] + reg2), counters=after[f]['counters'],
                  others_changed=[i for i in range(nfiles) if i != f and (after[i]['tabs'] != cur[i]['tabs'] or after[i]['counters'] != cur[i]['counters'])],
                  fk=after[f]['fk'], ret=norm_ret(op, res, I, {I.atom(r[1]) for r in raw0['adsorbates']}), checks=[])
        changed_file = after[f]['tabs'] != cur[f]['tabs']
        if oc != 'Ok' and changed_file:
            st['checks'].append(('refused-changed-file', 'refused call changed the database file'))
        if oc != 'Ok' and reg2 != reg:
            new = {r[0] for r in reg2[0]} - {r[0] for r in reg[0]} | {r[0] for r in reg2[1]} - {r[0] for r in reg[1]}
            leaked |= new
        # round trip of accepted uploads, on the implementation
        if oc == 'Ok' and op['k'] == 'EntUp':
            im.px.n = 0
            got = (im.S.adsorbates_from_db if op['e'] == 'ads' else im.S.materials_from_db)(db_path=path, verbose=False)
            back = [x for x in got if x.name == obj.name]
            want = _pairs(obj)
            have = _pairs(back[0]) if len(back) == 1 else None
            same = have is not None and len(want) == len(have) and all(a[0] == b[0] and _veq(a[1], b[1]) for a, b in zip(want, have))
            if not same:
                st['checks'].append(('roundtrip', 'uploaded %s %r comes back as %r, stored %r' % (op['e'], obj.name, have, want)))
        if oc == 'Ok' and op['k'] == 'IsoUp':
            uploaded[f].append((obj.iso_id, obj, op['iso']['meta'], op['iso']))
            im.px.n = 0
            got = im.S.isotherms_from_db(db_path=path, verbose=False)
            if not any(x.iso_id == obj.iso_id for x in got):
                st['checks'].append(('roundtrip', 'stored isotherm %s is not among the retrieved ones (ids %s)' % (obj.iso_id, [x.iso_id for x in got][:4])))
        if op['k'] == 'IsoDel' and op['how'] == 'retrieved' and not ctx.get('retrieved_same_id', True):
            st['checks'].append(('delete-through-retrieved', 'isotherm %s retrieved from the file has id %s; deleting through it -> %s' % (ctx['stored_id'], op['target'], oc)))
        if oc == 'Ok' and op['k'] == 'IsoDel':
            uploaded[f] = [u for u in uploaded[f] if u[0] != op['target']]
        if oc == 'Ok' and op['k'] == 'EntDel':
            pass
        steps.append(st)
        cur = [dict(tabs=a['tabs'], counters=a['counters']) for a in after]
        reg = reg2
    return dict(nfiles=nfiles, steps=steps)


def _pairs(o):
    ps = [(t, v) for t, vs in flat_props(o.to_dict()) for v in vs]
    return sorted(ps, key=lambda p: (p[0], isinstance(p[1], str), p[1] if isinstance(p[1], str) else float(p[1] or 0)))


def _veq(a, b):
    if isinstance(a, str) != isinstance(b, str):
        return False
    return a == b


def judge(rep, runs, model, I):
    n_steps = n_dis = 0
    hist = {}
    nontrivial = set()
    for hi, r in enumerate(runs):
        for si, st in enumerate(r['steps']):
            n_steps += 1
            op = st['op']
            key = '%s/%s' % (op['k'] + (':' + op.get('e', op.get('t', '')) if op.get('e') or op.get('t') else ''), st['oc'])
            hist[key] = hist.get(key, 0) + 1
            replay = {'nfiles': r['nfiles'], 'ops': [_plain(s['op']) for s in r['steps'][:si + 1]], 'failing_step': si, 'outcome': st['oc']}

            def fail(kind, what):
                rep.failure(classify(op, kind, st['ctx']), what, dict(replay, kind=kind))
            for kind, what in st['checks']:
                fail(kind, what)
            if st['others_changed']:
                fail('other-file-changed', 'call on file %d changed file(s) %s' % (st['f'], st['others_changed']))
            if st['fk']:
                fail('orphans', 'PRAGMA foreign_key_check reports %r' % (st['fk'][:3],))
            if model is None:
                continue
            ms = model[hi][si]
            moc, mn = ms[0][0]
            mcount = ms[0][1]
            spec_ok, spec_diff = ms[0][2]
            mdiff = [(sorted(ms[1 + 2 * i][0]) if ms[1 + 2 * i] else [], sorted(tuple(x) for x in ms[2 + 2 * i])) for i in range(12)]
            mret = norm_model_ret(op, ms[25])
            agree = (OC.get(moc) == st['oc'] and mn == st['n'] and mcount == st['counters'] and mdiff == [(a, b) for a, b in st['diff']]
                     and (st['oc'] != 'Ok' or mret == st['ret']))
            if not agree:
                n_dis += 1
                if n_dis <= 5:
                    what = [('outcome', OC.get(moc), st['oc']), ('statements', mn, st['n']), ('counters', mcount, st['counters'])]
                    what += [('table %d' % i, mdiff[i], st['diff'][i]) for i in range(12)]
                    if st['oc'] == 'Ok' and mret != st['ret']:
                        what.append(('result', mret, st['ret']))
                    rep.broken_obligation('correspondence:DbModel-vs-implementation',
                                          {'history': hi, 'step': si, 'op': _plain(op), '(what, model, implementation)': [w for w in what if w[1] != w[2]][:4], 'replay': replay})
                continue
            # the dictionary model's verdict on this step (valid for the implementation because the tables agree)
            accepted = st['oc'] == 'Ok'
            if accepted != bool(spec_ok):
                fail('outcome', '%s: implementation %s, dictionary model %s' % (_plain(op), st['oc'], 'accepts' if spec_ok else 'refuses'))
            elif spec_diff:
                fail('content', '%s: content after the call differs from the dictionary model (collections mask %d)' % (_plain(op), spec_diff))
            elif accepted and any(a or b for a, b in st['diff'][:10]):
                nontrivial.add(json.dumps(_plain(op), sort_keys=True, default=str))
    rep.cov['evaluations'] += n_steps
    rep.cov['distinct_nontrivial'] += len(nontrivial)
    rep.cov['rule'] = ('random histories of the 22 public functions over 1-3 fresh db_create files (uploads with/without overwrite and auto-insert, '
                       'deletions by name/object/id/retrieved object, retrievals with/without criteria, duplicates, absent items, None / numeric-looking '
                       'text / list values); non-trivial = distinct accepted operations that changed a table, agreed with the model on every row and '
                       'were accepted with equal content by the dictionary model')
    d = rep.cov.setdefault('input_distribution', {})
    for k, v in hist.items():
        d[k] = d.get(k, 0) + v
    rep.cov['histories'] = rep.cov.get('histories', 0) + len(runs)
    rep.cov['correspondence'] = {'steps': n_steps, 'disagreements': n_dis,
                                 'what': 'Db/DbModel.v executed by vm_compute vs pygaps.parsing.sqlite: outcome class, number of execute calls, '
                                         'row-level change of all 10 tables + 2 registries, AUTOINCREMENT counters, *_from_db results, after every call'}
    for r in runs[:3]:
        rep.cov['samples'].append({'files': r['nfiles'], 'ops': ['%s->%s' % (s['op']['k'], s['oc']) for s in r['steps']][:12]})


def _plain(op):
    return {k: (v if not hasattr(v, 'iso_id') else '<isotherm %s>' % v.iso_id) for k, v in op.items()}


def run(rep, tier, seed):
    vlib.standard_proof_phase(rep, 'C08', extra_targets=['Db/DbShow.vo'])
    explore(rep, tier, seed)
    if rep.broken and not rep.violations and tier != 'thorough':
        explore(rep, 'thorough', seed + 1, nh=400)
    rep.cov['trusted_base'] += ['SQLite / python sqlite3 (constraint enforcement, AUTOINCREMENT, transactions): modelled, compared row by row on every call',
                                'harness interning of strings and numbers; isotherm construction and iso_id (hash) are oracles']
    rep.assumptions += ['values are interned: numbers by their float value (3 and 3.0 are the same stored value)',
                        'theorems outcome_depends_on_target_file_only_partial / history_files_independent_partial exclude auto-inserting isotherm uploads (they read the registries)', ('refinement to the dictionary is PROVED for adsorbate / material upload, overwrite and deletion, type upload / overwrite / deletion, isotherm upload without auto-insert, isotherm deletion and the retrievals (under the invariant wf, '
                         'proved preserved by every operation and decided by evaluation for the initial content of this run); for isotherm uploads with auto-insert '
                         'it is checked per step inside Coq at run time'), 'the property names of one upload are distinct (keys of a Python dict)']


def replay(d):
    import logging
    logging.disable(logging.CRITICAL)
    r = d['replay']
    work = os.path.join(vlib.SCRATCH, 'c08_replay_%d' % os.getpid())
    im = Impl(work)
    I = Intern()
    try:
        raw0 = raw_dump(im.template)
        H = r['ops']
        for op in H:
            op.pop('through', None)
        out = run_history(im, I, H, r['nfiles'], raw0)
        for st in out['steps']:
            print(_plain(st['op']), '->', st['oc'], 'statements', st['n'], 'checks', st['checks'])
    finally:
        im.close()
    print('kind of failure recorded:', r.get('kind'))
    return 1
