"""C08 - the SQLite store behaves as a keyed collection over any operation history.

proof phase   : Props/C08.v (Db/DbModel.v tables+statements+registries, Db/DbSpec.v dictionary, Db/DbRefine.v refinement, Db/DbBatch.v batching of
                isotherms_from_db over the batch size generated from the source, Gen/DbShapeGen.v)
correspondence: random operation histories over 1-3 fresh database files (db_create) on the implementation vs the model executed
                inside Coq: after EVERY call the outcome class, the number of SQL statements issued, the row-level change of every
                table (read through an independent sqlite3 connection), the AUTOINCREMENT counters, the registries, the result of
                *_from_db
oracle        : (i) inside Coq the PLAIN dictionary model judges every step from the abstraction of the state before the call
                (accepted/refused, content afterwards); (ii) on the implementation: an accepted upload comes back equal through
                *_from_db (isotherms: `==` and deletable through the retrieved object), a refused call leaves every table of every
                file unchanged, a call never changes another file
"""
import json
import os
import random
import shutil
import sqlite3

import vlib

MANIFEST = dict(
    text="Machine-checked (Coq 8.16, axiom-free) theorems about a statement-level model of parsing/sqlite.py (ten tables as lists with the UNIQUE / "
         "NOT NULL / FOREIGN KEY constraints of sqlite_db_pragmas.py, every public function as the sequence of statements it issues, "
         "ADSORBATE_LIST/MATERIAL_LIST as state, with_connection as one transaction) and a plain dictionary model: a refused operation leaves the "
         "file unchanged (all operations, all contents); retrievals change nothing; a well-formedness invariant of the tables (unique names / ids / "
         "type names, no property without owner and type, no isotherm without material / adsorbate / type, no isotherm property or data row without "
         "isotherm) is preserved by EVERY operation under every fault and over every history (induction), and under it adsorbate / material upload "
         "(new and overwrite, with and without auto-insert of property types), adsorbate / material deletion, property-type and isotherm-type upload / "
         "overwrite / deletion, isotherm upload without auto-insert and isotherm deletion REFINE the "
         "dictionary (absent / duplicate / unknown type / null value -> parsing error and nothing changes; otherwise exactly that item is added, "
         "replaced or removed), composed over arbitrary histories of these operations and retrievals (history_refines_partial); outcome and content afterwards depend on the target file only, and by induction "
         "over ARBITRARY histories over several files the final content of a file is what its own operations produce on it alone - for every "
         "operation except isotherm uploads with auto-insert, which read the per-process registries (refuted witnesses: cross-file upload, "
         "numeric-looking text through REAL affinity, iso_type leaking into retrieved isotherms, missing isotherm_properties_type table, list-valued "
         "material properties). PARTIAL: the refinement tables -> dictionary for isotherm uploads WITH auto-insert (they read the registries) is "
         "not proved; it is evaluated inside Coq (dictionary model vs abstraction of the tables) on every step of every history of the run; the "
         "invariant is decided inside Coq for the content db_create ships. BATCHING: the model of isotherms_from_db has the structure of the code (one "
         "SELECT, then two per batch of `grouped(alldata, n)`, n = the batch size a fail-closed translator reads from the source on every run); for EVERY "
         "batch size >= 1, every content and every number of matching rows the batched retrieval is proved equal to the plain retrieval = the dictionary's "
         "isotherms satisfying the criteria (induction over the batches), with 1 + 2 * ceil(rows / n) statements - the count compared with the "
         "cursor.execute calls of every retrieval, on stores larger than the batch size too (every run builds stores of more than one and more than two "
         "batches and retrieves them with and without criteria, comparing with rows read through an independent connection). The "
         "PYTHON-LEVEL REFUSALS: Db/DbPy.v extends the program trees with the refusals raised by code that runs BETWEEN the statements of one call, "
         "after its first writes (a property / metadata value sqlite3 cannot bind: dict, nested list, object -> ProgrammingError, integer beyond 64 bits -> "
         "OverflowError, lone surrogate -> UnicodeEncodeError; an extra data column whose element type find_SQL_python_type has no name for -> ParsingError "
         "raised by the body; an argument that is no isotherm; an unbindable argument of a deletion / retrieval) - exceptions with_connection has no handler "
         "for.  Proved: such a call, under every fault, leaves the file as it was, is all-or-nothing and preserves the invariant; on storable input the "
         "extended programs ARE the programs of Db/DbModel.v (program trees equal, functional extensionality); and for the try / except / else / finally "
         "skeleton of with_connection GENERATED from the source on every run, interpreted with Python's semantics over a transaction that holds what the "
         "body wrote before it raised, no path on which the caller gets no result publishes anything (a commit in a handler or in `finally` breaks this "
         "theorem; witness commit_in_finally_half_commits_refuted).  Every upload of every history goes through the extended programs; histories contain "
         "uploads refused part-way at every such place (new / overwrite / inside an auto-inserting isotherm upload / metadata / data columns), each followed "
         "by retrievals and the corrected upload; a refused call that changed any table row is reported with the call as failing input; so is a refused "
         "call that left the file unchanged but lost an entry of the session registries.  VALUE KINDS: what an isotherm property comes back as is "
         "conv_iso (check_SQL_bool after REAL affinity after the TRUE/FALSE encoding): proved - text comes back as the same text IF AND ONLY IF it is "
         "not one of the two storage tokens (refuted witness 'TRUE', finding C08-F8), booleans come back as booleans; histories carry text that looks "
         "like booleans / None / special floats / other literals in every spelling, compared with the model's decoding on every retrieval. The "
         "hand-written model is tied to the code on every run by executing it inside Coq against the implementation on random histories (outcome, "
         "statement count, every table row, counters, registries, retrieval results after every call).",
    note="Trusted: Coq kernel; SQLite/sqlite3 behaving as the constraint model says (validated by the table-level comparison after every call); "
         "the harness (interning of strings/numbers to integers, independent dump connection); isotherm construction / iso_id (C05) as oracle.",
    technique="Coq proofs over a statement-tree model (induction over programs and histories) + dictionary model and table model executed in Coq against real histories")

EXTRA_TARGETS = ['Db/DbShow.vo', 'Db/DbPyShow.vo']
HEADER = """From Coq Require Import ZArith List Bool.
From PG Require Import Db.DbModel Db.DbSpec Db.DbShow.
Import ListNotations. Open Scope Z_scope.
"""
# c08's own evaluations go through the programs of Db/DbPy.v (operations as Python hands them over: values that may be unbindable)
HEADER_PY = HEADER.replace('Db.DbShow.', 'Db.DbShow Db.DbPy Db.DbPyShow.')
TABLES = ['adsorbates', 'adsorbate_properties', 'adsorbate_properties_type', 'materials', 'material_properties',
          'material_properties_type', 'isotherm_type', 'isotherms', 'isotherm_properties', 'isotherm_data']
SEQ = ['adsorbates', 'adsorbate_properties', 'adsorbate_properties_type', 'materials', 'material_properties', 'material_properties_type',
       'isotherm_type', 'isotherm_properties', 'isotherm_data']
NUMPOOL = {'1e5': 100000.0, '12': 12.0, '0.5': 0.5, '-3': -3.0, '0': 0.0}
OC = {0: 'Ok', 3: 'ParsingError', 10: 'OperationalError', 11: 'other', 12: 'died', 13: 'other:IntegrityError', 14: 'other:InterfaceError',
      # Db/DbPy.v: exceptions raised by Python-level code between two statements (EExc k -> 100 + k); 108 = a ParsingError raised by the body itself
      101: 'other:ProgrammingError', 106: 'other:OverflowError', 107: 'other:UnicodeEncodeError', 108: 'ParsingError'}
K_PROGRAMMING, K_OVERFLOW, K_UNICODE, K_PARSING = 1, 6, 7, 8


def pykind(v):
    """None: sqlite3 can bind this Python value; else the class (Db/DbPy.v K_*) of the exception binding raises - decided from the TYPE of the
    value (the sqlite3 documentation: None, int within 64 bits, float, str that encodes as UTF-8, bytes-like)"""
    if v is None or isinstance(v, (bool, float, bytes, bytearray, memoryview)):
        return None
    if isinstance(v, int):
        return None if -2 ** 63 <= v < 2 ** 63 else K_OVERFLOW
    if isinstance(v, str):
        try:
            v.encode('utf8')
            return None
        except UnicodeEncodeError:
            return K_UNICODE
    return K_PROGRAMMING
UNITS = dict(pressure_mode='absolute', pressure_unit='bar', loading_basis='molar', loading_unit='mmol', material_basis='mass',
             material_unit='g', temperature_unit='K')


# ------------------------------------------------------------------ interning
class Intern:
    def __init__(self):
        self.atoms, self.nums = {}, {}
        for s in ['FALSE', 'TRUE', 'iso_type', 'pointisotherm', 'modelisotherm', 'isotherm']:
            self.atom(s)
        self.num(0.0); self.num(1.0)

    def atom(self, s):
        if isinstance(s, bytes):
            s = s.decode('utf8', 'replace')
        return self.atoms.setdefault(str(s), len(self.atoms))

    def num(self, x):
        return self.nums.setdefault(float(x), len(self.nums))

    def vcode(self, v):
        if v is None: return 0
        if isinstance(v, bool): return 7 if v else 3
        if isinstance(v, (int, float)): return 4 * self.num(v) + 1
        return 4 * self.atom(v) + 2

    def vlit(self, v):
        """a Python value handed to the store -> Coq `val`"""
        if v is None: return 'VNull'
        if isinstance(v, bool): return '(VBool %s)' % ('true' if v else 'false')
        if isinstance(v, (int, float)): return '(VNum %d)' % self.num(v)
        if v in NUMPOOL: return '(VNumText %d %d)' % (self.atom(v), self.num(NUMPOOL[v]))
        return '(VText %d)' % self.atom(v)

    def pvlit(self, v):
        """a Python value handed to cursor.execute -> Coq `pyval` (Db/DbPy.v)"""
        k = pykind(v)
        return '(PV %s)' % self.vlit(v) if k is None else '(PBad %d)' % k

    def slit(self, v):
        """a value as found IN a table"""
        if v is None: return 'VNull'
        if isinstance(v, (int, float)): return '(VNum %d)' % self.num(v)
        return '(VText %d)' % self.atom(v)


def zl(xs):
    return '[' + '; '.join(str(x) for x in xs) + ']'


# ------------------------------------------------------------------ reading a database file through an independent connection
def raw_dump(path, ro=True):
    c = sqlite3.connect('file:%s?mode=ro' % path, uri=True) if ro else sqlite3.connect(path)
    try:
        out = {t: c.execute('SELECT * FROM "%s" ORDER BY rowid' % t).fetchall() for t in TABLES}
        seq = dict(c.execute('SELECT name, seq FROM sqlite_sequence').fetchall())
        out['_fk'] = c.execute('PRAGMA foreign_key_check').fetchall()
    finally:
        c.close()
    out['_counters'] = [seq.get(t, 0) + 1 for t in SEQ]
    return out


def encode(raw, I):
    """tables as lists of integer rows, in the layout of Db/DbShow.v `tables`"""
    a, v = I.atom, I.vcode
    T = []
    for pre in ('adsorbate', 'material'):
        T.append([[r[0], a(r[1])] for r in raw[pre + 's']])
        T.append([[r[0], r[1], a(r[2]), v(r[3])] for r in raw[pre + '_properties']])
        T.append([[r[0], a(r[1]), v(r[2]), v(r[3])] for r in raw[pre + '_properties_type']])
    T.append([[r[0], a(r[1]), 0, v(r[2])] for r in raw['isotherm_type']])
    T.append([[a(r[0]), a(r[1]), a(r[2]), a(r[3]), v(r[4])] for r in raw['isotherms']])
    T.append([[r[0], a(r[1]), a(r[2]), v(r[3])] for r in raw['isotherm_properties']])
    T.append([[r[0], a(r[1]), a(r[2]), a(r[3]), a(r[4])] for r in raw['isotherm_data']])
    return T


def db_literal(raw, I):
    a, s = I.atom, I.slit
    cn = raw['_counters']

    def store(pre, c0):
        rows = '; '.join('(%d, %d)' % (r[0], a(r[1])) for r in raw[pre + 's'])
        props = '; '.join('mkP %d %d %d %s' % (r[0], r[1], a(r[2]), s(r[3])) for r in raw[pre + '_properties'])
        types = '; '.join('mkT %d %d %s %s' % (r[0], a(r[1]), s(r[2]), s(r[3])) for r in raw[pre + '_properties_type'])
        return '(mkS [%s] %d [%s] %d [%s] %d)' % (rows, cn[c0], props, cn[c0 + 1], types, cn[c0 + 2])
    it = '; '.join('mkT %d %d VNull %s' % (r[0], a(r[1]), s(r[2])) for r in raw['isotherm_type'])
    isos = '; '.join('mkI %d %d %d %d %s' % (a(r[0]), a(r[1]), a(r[2]), a(r[3]), s(r[4])) for r in raw['isotherms'])
    ip = '; '.join('mkP %d %d %d %s' % (r[0], a(r[1]), a(r[2]), s(r[3])) for r in raw['isotherm_properties'])
    idt = '; '.join('mkD %d %d %d %d %d' % (r[0], a(r[1]), a(r[2]), a(r[3]), a(r[4])) for r in raw['isotherm_data'])
    return '(mkDb %s %s [%s] %d [%s] [%s] %d [%s] %d)' % (store('adsorbate', 0), store('material', 3), it, cn[6], isos, ip, cn[7], idt, cn[8])


def table_diff(old, new):
    """row-level difference in the format of Db/DbShow.v diff_tables: per table (removed keys, added rows), as sorted lists"""
    out = []
    for o, n in zip(old, new):
        so, sn = {tuple(r) for r in o}, {tuple(r) for r in n}
        out.append((sorted(r[0] for r in so - sn), sorted(sn - so)))
    return out


# ------------------------------------------------------------------ the implementation side
class InjectedInterrupt(KeyboardInterrupt):
    """a KeyboardInterrupt raised by the harness (told apart from a real Ctrl-C)"""


def fault_exception(name, where):
    """the exception object of an injected fault: the sqlite3 classes, builtin Exception classes, BaseException-only classes"""
    msg = 'injected fault at %s' % where
    if hasattr(sqlite3, name) and isinstance(getattr(sqlite3, name), type) and issubclass(getattr(sqlite3, name), Exception):
        return getattr(sqlite3, name)(msg)
    if name == 'KeyboardInterrupt':
        return InjectedInterrupt(msg)
    import builtins
    return getattr(builtins, name)(msg)


class SqlProxy:
    """stands for the module `sqlite3` inside pygaps.parsing.sqlite: counts cursor.execute calls, records the calls made on every
    connection (connect / commit / rollback / close), can fail / exit at execute call k and at commit"""

    def __init__(self):
        self.n = 0
        self.fault = None          # ('raise', k, class name) | ('commit_raise', class name) | ('exit', k) | ('exit_before_commit',) | ('exit_after_commit',)
        self.log = None
        self.events = []           # calls made on the connections opened since the last reset, in order
        self.conns = []
        self.timeout = None        # busy timeout handed to sqlite3.connect (None: the library's own)

    def __getattr__(self, name):
        return getattr(sqlite3, name)

    def reset(self):
        self.n = 0
        self.events = []
        self.conns = []

    def connect(self, *a, **k):
        if self.timeout is not None:
            k.setdefault('timeout', self.timeout)
        c = _Conn(sqlite3.connect(*a, **k), self)
        self.events.append('connect')
        self.conns.append(c)
        return c


class _Conn:
    def __init__(self, real, px):
        object.__setattr__(self, '_r', real); object.__setattr__(self, '_px', px); object.__setattr__(self, 'closed', False)

    def __setattr__(self, k, v):
        setattr(self._r, k, v)

    def __getattr__(self, k):
        return getattr(self._r, k)

    def cursor(self):
        return _Cur(self._r.cursor(), self._px)

    def commit(self):
        f = self._px.fault
        self._px.events.append('commit')
        if f and f[0] == 'exit_before_commit':
            os._exit(41)
        if f and f[0] == 'commit_raise':
            raise fault_exception(f[1], 'commit')
        self._r.commit()
        if f and f[0] == 'exit_after_commit':
            os._exit(42)

    def rollback(self):
        self._px.events.append('rollback')
        return self._r.rollback()

    def close(self):
        self._px.events.append('close')
        object.__setattr__(self, 'closed', True)
        return self._r.close()


class _Cur:
    def __init__(self, real, px):
        self._r, self._px = real, px

    def execute(self, sql, *a):
        px = self._px
        px.n += 1
        if px.log is not None:
            px.log.append(sql.split()[0].upper())
        f = px.fault
        if f and f[0] == 'raise' and f[1] == px.n:
            # "statement k raises e": like the real Cursor.execute, which first resets the statement still pending on this cursor (a SELECT
            # that was only partly fetched) and then fails while preparing / binding / stepping the new one
            try:
                self._r.fetchall()
            except sqlite3.Error:
                pass
            raise fault_exception(f[2], 'statement %d' % px.n)
        if f and f[0] == 'exit' and f[1] == px.n:
            os._exit(40)
        return self._r.execute(sql, *a)

    def __iter__(self):
        return iter(self._r)

    def __next__(self):
        return next(self._r)

    def __getattr__(self, k):
        return getattr(self._r, k)


def scratch_dir(name):
    """directory for the database files of a campaign: memory-backed when the machine has /dev/shm (commits need no disk sync; process death is
    modelled by os._exit, which loses no written page either way), else under vlib.SCRATCH"""
    base = '/dev/shm' if os.path.isdir('/dev/shm') and os.access('/dev/shm', os.W_OK) else vlib.SCRATCH
    return os.path.join(base, 'verif_%s' % name if base == '/dev/shm' else name)


class Impl:
    """pyGAPS with the counting proxy installed and the registries restorable"""

    def __init__(self, workdir):
        import pygaps  # noqa
        import pygaps.parsing.sqlite as S
        from pygaps.data import ADSORBATE_LIST, MATERIAL_LIST
        from pygaps.utilities.sqlite_db_creator import db_create
        self.S, self.AL, self.ML = S, ADSORBATE_LIST, MATERIAL_LIST
        self.reg0 = (list(ADSORBATE_LIST), list(MATERIAL_LIST))
        self.props0 = {id(x): dict(x.properties) for x in self.reg0[0]}
        self.px = SqlProxy()
        self.keep_exc = False      # keep the exception of the last call referenced (im.last_exc), as a caller's `except ... as e:` block does
        self.last_exc = None
        self.workdir = workdir
        os.makedirs(workdir, exist_ok=True)
        self.template = os.path.join(workdir, 'template.db')
        if os.path.exists(self.template):
            os.remove(self.template)
        db_create(self.template)                      # pygaps.utilities.sqlite_db_creator.db_create: schema + shipped adsorbates + types
        # a second kind of freshly created file, for the stores with hundreds of isotherms: the same schema (PRAGMAS) and isotherm types, but only
        # two of the shipped adsorbates - created through the same public functions db_create uses
        from pygaps.utilities.sqlite_db_pragmas import PRAGMAS
        from pygaps.utilities.sqlite_utilities import db_execute_general
        self.lean = os.path.join(workdir, 'lean.db')
        if os.path.exists(self.lean):
            os.remove(self.lean)
        for pragma in PRAGMAS:
            db_execute_general(pragma, self.lean, verbose=False)
        self.lean_error = None
        try:
            for name in SHIPPED:
                S.adsorbate_to_db(pygaps.Adsorbate.find(name), db_path=self.lean, autoinsert_properties=True, verbose=False)
            for t in ('isotherm', 'pointisotherm', 'modelisotherm'):
                S.isotherm_type_to_db({'type': t}, db_path=self.lean, verbose=False)
        except Exception as e:  # noqa
            # a well-formed upload into a freshly created file is refused right after the same uploads went into ANOTHER file of this
            # process (db_create above): reported by explore() as a violation; the campaign goes on with a copy of the template
            self.lean_error = '%s: %s' % (type(e).__name__, str(e)[:200])
            shutil.copyfile(self.template, self.lean)
        self.reset_registry()
        S.sqlite3 = self.px

    def close(self):
        self.S.sqlite3 = sqlite3
        self.reset_registry()
        shutil.rmtree(self.workdir, ignore_errors=True)

    def reset_registry(self):
        self.AL[:] = self.reg0[0]
        self.ML[:] = self.reg0[1]
        for x in self.reg0[0]:
            x.properties.clear(); x.properties.update(self.props0[id(x)])

    def fresh(self, k, lean=False):
        p = os.path.join(self.workdir, 'f%d.db' % k)
        shutil.copyfile(self.lean if lean else self.template, p)
        for ext in ('-journal', '-wal', '-shm'):
            if os.path.exists(p + ext):
                os.remove(p + ext)
        return p

    def registry(self, I):
        return [[[n] for n in sorted({I.atom(x.name) for x in self.AL})], [[n] for n in sorted({I.atom(x.name) for x in self.ML})]]


def flat_props(d, skip=('name',)):
    """properties.items() as the upload loops see them: [(type, [values])]"""
    out = []
    for k, v in d.items():
        if k in skip:
            continue
        out.append((k, list(v) if isinstance(v, (list, set, tuple)) else [v]))
    return out


def plist_lit(ps, I):
    return '[' + '; '.join('(%d, [%s])' % (I.atom(k), '; '.join(I.vlit(v) for v in vs)) for k, vs in ps) + ']'


def pplist_lit(ps, I):
    return '[' + '; '.join('(%d, [%s])' % (I.atom(k), '; '.join(I.pvlit(v) for v in vs)) for k, vs in ps) + ']'


def make_iso(spec):
    """build the isotherm object an op describes (at call time: Material.find / Adsorbate.find read the registries)"""
    import pandas as pd
    import pygaps
    from pygaps.core.baseisotherm import BaseIsotherm
    from pygaps.modelling import model_from_dict
    kw = dict(UNITS); kw.update(spec['meta'])
    mat = spec['mat']
    if spec.get('matprops') is not None:
        # the material as an object with its own properties (what an auto-inserting upload writes); a registered material of that name wins,
        # as in Material.find
        try:
            mat = pygaps.Material.find(spec['mat'])
        except Exception:  # noqa
            mat = pygaps.Material(spec['mat'], **{k: (list(v) if isinstance(v, list) else v) for k, v in spec['matprops'].items()})
    kw.update(material=mat, adsorbate=spec['ads'], temperature=spec['T'])
    if spec['cls'] == 'duck':
        # an argument that is no isotherm but has what isotherm_to_db reads before it looks at the type
        import types
        m = mat if not isinstance(mat, str) else None
        if m is None:
            try:
                m = pygaps.Material.find(mat)
            except Exception:  # noqa
                m = pygaps.Material(mat)
        try:
            ads = pygaps.Adsorbate.find(spec['ads'])
        except Exception:  # noqa
            ads = pygaps.Adsorbate(spec['ads'])
        return types.SimpleNamespace(material=m, adsorbate=ads, iso_id='d0c0' * 7 + '%04d' % spec.get('n', 0))
    if spec['cls'] == 'point':
        df = pd.DataFrame({'pressure': spec['p'], 'loading': spec['l']})
        if spec.get('extra'):
            df['enthalpy'] = spec['extra']
        for name, col in (spec.get('extras') or []):
            df[name] = col
        return pygaps.PointIsotherm(isotherm_data=df, pressure_key='pressure', loading_key='loading', **kw)
    if spec['cls'] == 'model':
        m = model_from_dict({'name': 'Henry', 'parameters': {'K': spec['K']}, 'rmse': 0.1, 'pressure_range': [0.0, 1.0], 'loading_range': [0.0, 2.0]})
        return pygaps.ModelIsotherm(model=m, **kw)
    return BaseIsotherm(**kw)


SQL_NAMES = [(bool, 'bool'), (int, 'int'), (float, 'float'), (str, 'str')]      # the element types the isotherm_data table has a name for


def iso_py_input(iso, I):
    """what isotherm_to_db reads from its argument, as Python hands it over -> (the model's `pisoin` (Db/DbPy.v), storable?)"""
    import pygaps
    a = I.atom
    matps = flat_props(iso.material.to_dict())
    adsps = flat_props(iso.adsorbate.to_dict())
    ty = ('pointisotherm' if isinstance(iso, pygaps.PointIsotherm) else 'modelisotherm' if isinstance(iso, pygaps.ModelIsotherm)
          else 'isotherm' if isinstance(iso, pygaps.core.baseisotherm.BaseIsotherm) else None)
    d, data, temp = {}, [], None
    if ty is not None:
        d = iso.to_dict()
        for k in ('material', 'temperature', 'adsorbate'):
            d.pop(k, None)
        temp = iso._temperature
    if ty == 'pointisotherm':
        data.append(('pressure', 'float', json.dumps(iso.pressure().tolist())))
        data.append(('loading', 'float', json.dumps(iso.loading().tolist())))
        for key in iso.other_keys:
            first = iso.other_data(key)[0]
            name = next((n for t, n in SQL_NAMES if isinstance(first, t)), None)       # the Python type of the column's elements
            data.append((key, name, json.dumps(iso.other_data(key).tolist()) if name else None))
    elif ty == 'modelisotherm':
        data.append(('model', 'dict', json.dumps(iso.model.to_dict())))
    storable = (ty is not None and all(pykind(v) is None for _, vs in matps + adsps for v in vs) and all(pykind(v) is None for v in d.values())
                and all(dt is not None for _, dt, _ in data))
    term = '(mkPIn %d %s %d %s %d %s %s [%s] [%s])' % (
        a(iso.iso_id), '(Some %d)' % a(ty) if ty else 'None', a(iso.material.name), pplist_lit(matps, I),
        a(iso.adsorbate.name), pplist_lit(adsps, I), I.vlit(temp),
        '; '.join('(%d, %s)' % (a(k), I.pvlit(v)) for k, v in d.items()),
        '; '.join(('DRow %d %d %d' % (a(t), a(dt), a(js))) if dt is not None else 'DRefuse %d' % K_PARSING for t, dt, js in data))
    return term, storable


def iso_model_input(iso, I):
    """what isotherm_to_db reads from the object -> the model's `isoin`"""
    import pygaps
    S_find = __import__('pygaps.utilities.sqlite_utilities', fromlist=['x']).find_SQL_python_type
    ty = 'pointisotherm' if isinstance(iso, pygaps.PointIsotherm) else 'modelisotherm' if isinstance(iso, pygaps.ModelIsotherm) else 'isotherm'
    d = iso.to_dict()
    for k in ('material', 'temperature', 'adsorbate'):
        d.pop(k, None)
    data = []
    if ty == 'pointisotherm':
        data.append(('pressure', 'float', json.dumps(iso.pressure().tolist())))
        data.append(('loading', 'float', json.dumps(iso.loading().tolist())))
        for key in iso.other_keys:
            data.append((key, S_find(iso.other_data(key)[0]), json.dumps(iso.other_data(key).tolist())))
    elif ty == 'modelisotherm':
        data.append(('model', 'dict', json.dumps(iso.model.to_dict())))
    a = I.atom
    return '(mkIn %d %d %d %s %d %s %s [%s] [%s])' % (
        a(iso.iso_id), a(ty), a(iso.material.name), plist_lit(flat_props(iso.material.to_dict()), I),
        a(iso.adsorbate.name), plist_lit(flat_props(iso.adsorbate.to_dict()), I), I.vlit(iso._temperature),
        '; '.join('(%d, %s)' % (a(k), I.vlit(v)) for k, v in d.items()),
        '; '.join('(%d, %d, %d)' % (a(t), a(dt), a(js)) for t, dt, js in data))


TSEL = {'ads': 'TAds', 'mat': 'TMat', 'iso': 'TIso', 'isoprop': 'TIsoProp'}
ENT = {'ads': 'EAds', 'mat': 'EMat'}


def apply_op(im, op, path, I):
    """run one operation on the implementation. Returns (outcome class, statements, coq op term, python result, object)"""
    import pygaps
    S = im.S
    k = op['k']
    obj = None
    res = None
    term = pterm = None
    im.px.reset()
    im.last_exc = None
    im.last_pterm = None
    try:
        if k == 'EntUp':
            cls = pygaps.Adsorbate if op['e'] == 'ads' else pygaps.Material
            obj = cls(op['name'], **{kk: (list(v) if isinstance(v, list) else v) for kk, v in op['props'].items()})
            fps = flat_props(obj.to_dict())
            tail = ('true' if op['auto'] else 'false', 'true' if op['ow'] else 'false')
            term = ('(EntUp %s %d %s %s %s)' % ((ENT[op['e']], I.atom(obj.name), plist_lit(fps, I)) + tail)
                    if all(pykind(v) is None for _, vs in fps for v in vs) else None)
            pterm = '(PEntUp %s %d %s %s %s)' % ((ENT[op['e']], I.atom(obj.name), pplist_lit(fps, I)) + tail)
            f = S.adsorbate_to_db if op['e'] == 'ads' else S.material_to_db
            call = lambda: f(obj, db_path=path, autoinsert_properties=op['auto'], overwrite=op['ow'], verbose=False)
        elif k == 'EntGet':
            term = '(EntGet %s)' % ENT[op['e']]
            call = lambda: (S.adsorbates_from_db if op['e'] == 'ads' else S.materials_from_db)(db_path=path, verbose=False)
        elif k == 'EntDel':
            term = '(EntDel %s %d)' % (ENT[op['e']], I.atom(op['name']))
            arg = op['name'] if op.get('bystr') else (pygaps.Adsorbate(op['name']) if op['e'] == 'ads' else pygaps.Material(op['name']))
            call = lambda: (S.adsorbate_delete_db if op['e'] == 'ads' else S.material_delete_db)(arg, db_path=path, verbose=False)
        elif k == 'TyUp':
            d = {'type': op['ty']}
            if op['t'] != 'iso' and op.get('unit') is not None:
                d['unit'] = op['unit']
            if op.get('desc') is not None:
                d['description'] = op['desc']
            term = ('(TyUp %s %d %s %s %s)' % (TSEL[op['t']], I.atom(op['ty']), I.vlit(d.get('unit')), I.vlit(d.get('description')), 'true' if op['ow'] else 'false')
                    if pykind(d.get('unit')) is None and pykind(d.get('description')) is None else None)
            pterm = '(PTyUp %s %d %s %s %s)' % (TSEL[op['t']], I.atom(op['ty']), I.pvlit(d.get('unit')), I.pvlit(d.get('description')), 'true' if op['ow'] else 'false')
            f = {'ads': S.adsorbate_property_type_to_db, 'mat': S.material_property_type_to_db, 'iso': S.isotherm_type_to_db, 'isoprop': S.isotherm_property_type_to_db}[op['t']]
            call = lambda: f(d, db_path=path, overwrite=op['ow'], verbose=False)
        elif k == 'TyGet':
            term = '(TyGet %s)' % TSEL[op['t']]
            f = {'ads': S.adsorbate_property_types_from_db, 'mat': S.material_property_types_from_db, 'iso': S.isotherm_types_from_db, 'isoprop': S.isotherm_property_types_from_db}[op['t']]
            call = lambda: f(db_path=path, verbose=False)
        elif k == 'TyDel':
            term = '(TyDel %s %d)' % (TSEL[op['t']], I.atom(op['ty']))
            f = {'ads': S.adsorbate_property_type_delete_db, 'mat': S.material_property_type_delete_db, 'iso': S.isotherm_type_delete_db, 'isoprop': S.isotherm_property_type_delete_db}[op['t']]
            call = lambda: f(op['ty'], db_path=path, verbose=False)
        elif k == 'IsoUp':
            obj = make_iso(op['iso'])
            pin, storable = iso_py_input(obj, I)
            term = '(IsoUp %s %s %s)' % (iso_model_input(obj, I), 'true' if op['am'] else 'false', 'true' if op['aa'] else 'false') if storable else None
            pterm = '(PIsoUp %s %s %s)' % (pin, 'true' if op['am'] else 'false', 'true' if op['aa'] else 'false')
            call = lambda: S.isotherm_to_db(obj, db_path=path, autoinsert_material=op['am'], autoinsert_adsorbate=op['aa'], verbose=False)
        elif k == 'IsoGet':
            c = op['crit']
            term = '(IsoGet (mkC %s %s %s %s))' % tuple(
                ('(Some %s)' % (I.vlit(c[key]) if key == 'temperature' else I.atom(c[key]))) if key in c else 'None'
                for key in ('material', 'adsorbate', 'iso_type', 'temperature'))
            call = lambda: S.isotherms_from_db(dict(c) if c else None, db_path=path, verbose=False)
        elif k == 'IsoDel':
            # delete by id / through the uploaded object / through the object retrieved from the file
            target = op['target']          # an iso_id string, decided by the driver
            term = '(IsoDel %d)' % I.atom(target)
            call = lambda: S.isotherm_delete_db(op.get('through', target), db_path=path, verbose=False)
        elif k == 'ArgBad':
            # a deletion / retrieval whose argument sqlite3 cannot bind: refused by the first statement of the call
            bad = op['arg']
            term = None
            pterm = '(PArgBad %d)' % pykind(bad)
            w, t = op['which'], op.get('t', 'mat')
            if w == 'EntDel':
                call = lambda: (S.adsorbate_delete_db if t == 'ads' else S.material_delete_db)(bad, db_path=path, verbose=False)
            elif w == 'TyDel':
                call = lambda: {'ads': S.adsorbate_property_type_delete_db, 'mat': S.material_property_type_delete_db, 'iso': S.isotherm_type_delete_db}[t](bad, db_path=path, verbose=False)
            elif w == 'IsoDel':
                call = lambda: S.isotherm_delete_db(bad, db_path=path, verbose=False)
            else:
                call = lambda: S.isotherms_from_db({op.get('col', 'material'): bad}, db_path=path, verbose=False)
        else:
            raise AssertionError(k)
        if pterm is None:
            pterm = '(POp %s)' % term
        im.last_pterm = pterm
        res = call()
        oc = 'Ok'
    except BaseException as e:  # noqa
        if not isinstance(e, Exception) and 'injected fault' not in str(e):
            raise                                          # a real KeyboardInterrupt / SystemExit
        n = 'KeyboardInterrupt' if isinstance(e, InjectedInterrupt) else type(e).__name__
        oc = n if n in ('ParsingError', 'OperationalError') else 'other:' + n
        if im.keep_exc:
            im.last_exc = e                                # its traceback keeps the frames of the failed call (and their locals) alive
    return oc, im.px.n, term, res, obj


def norm_ret(op, res, I, base_names):
    """a *_from_db result in the layout of Db/DbShow.v enc_ret (rows sorted where the order is not part of the result)"""
    k = op['k']
    if res is None:
        return []
    if k == 'EntGet':
        rows = []
        for x in res:
            if I.atom(x.name) in base_names:
                continue
            pairs = sorted((I.atom(t), I.vcode(v)) for t, vs in flat_props(x.to_dict()) for v in vs)
            rows.append([I.atom(x.name)] + [z for p in pairs for z in p])
        return [[len(res)]] + sorted(rows)
    if k == 'TyGet':
        return sorted([I.atom(d['type']), I.vcode(d.get('unit')), I.vcode(d.get('description'))] for d in res)
    if k == 'IsoGet':
        import pygaps
        out = []
        for x in res:
            d = x.to_dict()
            mat = d.pop('material'); mat = mat['name'] if isinstance(mat, dict) else mat
            ads = d.pop('adsorbate'); T = d.pop('temperature')
            ty = d.get('iso_type')
            pairs = sorted((I.atom(t), I.vcode(v)) for t, v in d.items())
            data = []
            if isinstance(x, pygaps.PointIsotherm):
                data = [('pressure', json.dumps(x.pressure().tolist())), ('loading', json.dumps(x.loading().tolist()))]
                data += [(kk, json.dumps(x.other_data(kk).tolist())) for kk in x.other_keys]
            elif isinstance(x, pygaps.ModelIsotherm):
                data = [('model', json.dumps(x.model.to_dict()))]
            out.append([[I.atom(ty), I.atom(mat), I.atom(ads), I.vcode(T)], [z for p in pairs for z in p],
                        sorted([I.atom(t), I.atom(js)] for t, js in data)])
        return sorted(out)
    return []


def norm_model_ret(op, sec):
    k = op['k']
    if k == 'EntGet' and sec:
        rows = []
        for r in sec[1:]:
            pairs = sorted(zip(r[1::2], r[2::2]))
            rows.append([r[0]] + [z for p in pairs for z in p])
        return [sec[0]] + sorted(rows)
    if k == 'TyGet':
        return sorted(sec)
    if k == 'IsoGet':
        out = []
        for i in range(0, len(sec), 3):
            head, pr, dt = sec[i], sec[i + 1], sec[i + 2]
            pairs = sorted(zip(pr[0::2], pr[1::2]))
            out.append([[head[1], head[2], head[3], head[4]], [z for p in pairs for z in p],
                        sorted([dt[j], dt[j + 2]] for j in range(0, len(dt), 3))])
        return sorted(out)
    return sec


# ------------------------------------------------------------------ history generation
MATS = ['m_a', 'm_b', 'm_c', 'm_d']
UADS = ['ua_x', 'ua_y', 'ua_z']
SHIPPED = ['nitrogen', 'argon']
PTYPES = ['density', 'note', 'tag', 'molar_mass', 'grade']
WORDS = ['alpha', 'beta', 'gamma', 'x y', 'ok']
# free text that LOOKS like a value of another type (booleans, None, special floats, literals of other bases / locales, containers) but is text:
# sqlite stores it verbatim in the REAL-affinity value columns (measured), so what comes back must be the same str.  Not in here: text that
# sqlite's affinity turns into a number (NUMPOOL, finding C08-F3) and the two storage tokens of isotherm booleans (BOOLTOKENS)
LOOKALIKE = ['true', 'false', 'True', 'False', 'tRuE', 'fALSE', 'None', 'none', 'null', 'NULL', 'nan', 'NaN', 'inf', '-inf', 'Infinity', '0x10', '1_000', '1e',
             '1,5', '12L', 'yes', 'no', 'on', 'T', 'F', '[]', '{}', "'q'", 'TRUE ', ' FALSE', 'true\n']
# the two tokens isotherm_to_db writes for Python booleans: the same text given as a str is stored verbatim and read back as a bool (finding C08-F8)
BOOLTOKENS = ['TRUE', 'FALSE']
ZEROLIKE = [0.0, '', 0, -0.0]


# values sqlite3 cannot bind (Db/DbPy.v): refused by Python-level code when the statement that would store them is reached - AFTER the rows
# the call wrote before.  As property values of an adsorbate / material (a list is stored element by element) ...
BAD_PROP = [{'a': 1}, [['x', 'y']], ['ok', {'k': 2}], 2 ** 70, -2 ** 65, 'sur\ud800', ['fine', 2 ** 64], [1.5, 'two', 'thr\udc00ee']]
# ... and as isotherm metadata (bound as they are)
BAD_META = [['a', 'b'], {'k': 1}, 2 ** 70, 'sur\ud800', [], [3.5]]
# extra data columns of a PointIsotherm: (name, element kind); the isotherm_data table has names for Python bool / int / float / str elements only
EXTRA_COLS = [('cycle', 'int'), ('valve', 'bool'), ('remark', 'str'), ('heat', 'float'), ('stamp', 'bigint')]


def extra_column(kind, n, rnd):
    if kind == 'int': return [int(rnd.randint(1, 4) + i) for i in range(n)]               # numpy.int64 elements
    if kind == 'bool': return [bool((i + rnd.randint(0, 1)) % 2) for i in range(n)]        # numpy.bool_ elements
    if kind == 'str': return [rnd.choice(WORDS) for _ in range(n)]
    if kind == 'bigint': return [2 ** 70 + i for i in range(n)]                            # Python ints in an object column
    return [round(2.0 + 0.25 * i, 2) for i in range(n)]


def gen_value(rnd, numeric_text=0.08, none=0.03, lists=0.06, pybad=0.0):
    if pybad and rnd.random() < pybad:
        return rnd.choice(BAD_PROP)
    r = rnd.random()
    if r < numeric_text: return rnd.choice(sorted(NUMPOOL))
    r -= numeric_text
    if r < none: return None
    r -= none
    if r < lists: return [rnd.choice(WORDS), rnd.choice(WORDS) + '2']
    if rnd.random() < 0.12:
        return rnd.choice(ZEROLIKE)                  # storable values that are falsy in Python
    if rnd.random() < 0.15:
        return rnd.choice(LOOKALIKE + BOOLTOKENS)    # text that looks like a bool / None / special float / other literal
    return rnd.choice([rnd.choice(WORDS), round(rnd.uniform(0.5, 9.5), 2), float(rnd.randint(1, 5)), rnd.randint(1, 9)])


def gen_iso(rnd, pybad=0.0):
    cls = rnd.choice(['point', 'point', 'model', 'base'])
    meta = {}
    for key in rnd.sample(['operator', 'batch', 'note', 'flag', 'run'], rnd.randint(0, 3)):
        r = rnd.random()
        meta[key] = (rnd.choice(WORDS) if r < 0.3 else rnd.choice(LOOKALIKE + BOOLTOKENS + BOOLTOKENS) if r < 0.45 else rnd.choice(sorted(NUMPOOL)) if r < 0.55 else rnd.randint(1, 9) if r < 0.63
                     else rnd.choice([True, False]) if r < 0.73 else rnd.choice(ZEROLIKE) if r < 0.85 else round(rnd.uniform(1, 5), 3))
    if rnd.random() < 0.05:
        meta['pressure_mode'] = 'relative'        # the constructor sets pressure_unit None: NOT NULL refuses the upload
    spec = dict(cls=cls, mat=rnd.choice(MATS), ads=rnd.choice(UADS + SHIPPED + SHIPPED), T=rnd.choice([77.0, 87.3, 298.15, 77]), meta=meta)
    if cls == 'point':
        n = rnd.randint(2, 4)
        spec['p'] = [round(0.1 * (i + 1) + rnd.random() / 50, 4) for i in range(n)]
        spec['l'] = [round(0.5 * (i + 1) + rnd.random() / 10, 4) for i in range(n)]
        if rnd.random() < 0.3:
            spec['extra'] = [round(5.0 - 0.3 * i, 2) for i in range(n)]
    if cls == 'model':
        spec['K'] = round(rnd.uniform(0.5, 5), 3)
    if pybad:
        if rnd.random() < pybad:                         # one metadata value that cannot be bound, at a random place among the others
            items = list(meta.items())
            items.insert(rnd.randint(0, len(items)), (rnd.choice(['tags', 'history', 'serial']), rnd.choice(BAD_META)))
            spec['meta'] = dict(items)
        if cls == 'point' and rnd.random() < 3 * pybad:  # further data columns, of element types with and without an SQL name
            n = len(spec['p'])
            spec['extras'] = [(name, extra_column(kind, n, rnd)) for name, kind in rnd.sample(EXTRA_COLS, rnd.randint(1, 3))]
        if rnd.random() < 2 * pybad:                     # the material comes with properties of its own (written by an auto-inserting upload)
            spec['matprops'] = {t: gen_value(rnd, lists=0, none=0, pybad=0.5) for t in rnd.sample(PTYPES, rnd.randint(1, 3))}
        if rnd.random() < pybad / 2:
            spec['cls'] = 'duck'; spec['n'] = rnd.randint(0, 9999)
    return spec


def gen_argbad(rnd, f):
    which = rnd.choice(['EntDel', 'TyDel', 'IsoDel', 'IsoGet'])
    return dict(k='ArgBad', f=f, which=which, t=rnd.choice(['ads', 'mat', 'iso'] if which == 'TyDel' else ['ads', 'mat']),
                col=rnd.choice(['material', 'adsorbate', 'temperature']), arg=rnd.choice([{'a': 1}, ['x'], 2 ** 70, 'sur\ud800']))


def gen_history(rnd, nfiles, maxlen, pybad=0.0):
    """op descriptors; targets of deletions/retrievals are chosen by the driver from what was uploaded so far.
    pybad: share of uploads carrying something Python-level code refuses part-way (Db/DbPy.v)"""
    H = []
    for _ in range(rnd.randint(3, maxlen)):
        f = rnd.randrange(nfiles)
        r = rnd.random()
        if pybad and rnd.random() < pybad / 4:
            H.append(gen_argbad(rnd, f))
            continue
        if r < 0.20:
            e = rnd.choice(['ads', 'mat'])
            name = rnd.choice(UADS + ['nitrogen'] if e == 'ads' else MATS)
            props = {t: gen_value(rnd, pybad=pybad) for t in rnd.sample(PTYPES, rnd.randint(0, 3))}
            if e == 'ads' and rnd.random() < 0.3:
                props['alias'] = [name + '_al']
            H.append(dict(k='EntUp', f=f, e=e, name=name, props=props, auto=rnd.random() < 0.8, ow=rnd.random() < 0.25))
        elif r < 0.30:
            e = rnd.choice(['ads', 'mat'])
            H.append(dict(k='EntDel', f=f, e=e, name=rnd.choice((UADS + ['argon']) if e == 'ads' else MATS), bystr=rnd.random() < 0.4))
        elif r < 0.37:
            H.append(dict(k='EntGet', f=f, e=rnd.choice(['ads', 'mat'])))
        elif r < 0.47:
            t = rnd.choice(['ads', 'mat', 'iso', 'ads', 'mat', 'iso', 'isoprop'])
            ty = rnd.choice(PTYPES + (['isotherm', 'pointisotherm', 'special'] if t == 'iso' else []))
            H.append(dict(k='TyUp', f=f, t=t, ty=ty, unit=rnd.choice([None, 'g/cm3', 'K']), desc=rnd.choice([None, 'some text']), ow=rnd.random() < 0.25))
            if pybad and rnd.random() < pybad:
                H[-1][rnd.choice(['unit', 'desc'])] = rnd.choice([{'a': 1}, ['K'], 2 ** 70, 'sur\ud800'])
        elif r < 0.53:
            t = rnd.choice(['ads', 'mat', 'iso', 'ads', 'mat', 'iso', 'isoprop'])
            H.append(dict(k='TyDel', f=f, t=t, ty=rnd.choice(PTYPES + (['modelisotherm', 'special'] if t == 'iso' else []))))
        elif r < 0.57:
            H.append(dict(k='TyGet', f=f, t=rnd.choice(['ads', 'mat', 'iso', 'isoprop'])))
        elif r < 0.80:
            H.append(dict(k='IsoUp', f=f, iso=gen_iso(rnd, pybad), am=rnd.random() < 0.8, aa=rnd.random() < 0.8, again=rnd.random() < 0.15))
        elif r < 0.90:
            H.append(dict(k='IsoDel', f=f, how=rnd.choice(['id', 'object', 'retrieved', 'absent'])))
        else:
            c = {}
            if rnd.random() < 0.5: c['material'] = rnd.choice(MATS)
            if rnd.random() < 0.3: c['adsorbate'] = rnd.choice(UADS + SHIPPED)
            if rnd.random() < 0.2: c['iso_type'] = rnd.choice(['pointisotherm', 'modelisotherm', 'isotherm'])
            if rnd.random() < 0.2: c['temperature'] = rnd.choice([77.0, 87.3])
            H.append(dict(k='IsoGet', f=f, crit=c))
    return H


def batch_sizes(module):
    """the batch sizes used by the store, read from the source of the module under test: literal sizes handed to the batching helpers
    (grouped(x, n), cursor.fetchmany(n), cursor.arraysize = n).  A changed batch size is followed; nothing found -> [100]"""
    import ast
    out = set()
    try:
        tree = ast.parse(open(module.__file__, encoding='utf8').read())
    except (OSError, SyntaxError):
        return [100]
    for n in ast.walk(tree):
        if isinstance(n, ast.Call):
            fn = n.func.id if isinstance(n.func, ast.Name) else n.func.attr if isinstance(n.func, ast.Attribute) else None
            lits = [a.value for a in list(n.args) + [k.value for k in n.keywords] if isinstance(a, ast.Constant) and type(a.value) is int]
            if fn in ('grouped', 'fetchmany', 'batched', 'islice') and lits:
                out.update(v for v in lits if v >= 2)
        if isinstance(n, ast.Assign) and any(isinstance(t, ast.Attribute) and t.attr == 'arraysize' for t in n.targets) \
                and isinstance(n.value, ast.Constant) and type(n.value.value) is int:
            out.add(n.value.value)
    return sorted(v for v in out if v <= 2000) or [100]


def gen_bulk(rnd, n, split, per_check=40):
    """a store holding n isotherms on one file (more rows than a batch), retrieved with and without criteria, then deletions through retrieved
    objects of late rows and retrieval again.  `split`: how many of them go to material m_a (the others to m_b)."""
    H = [dict(k='EntUp', f=0, e='mat', name='m_a', props={'density': 1.5}, auto=True, ow=False),
         dict(k='EntUp', f=0, e='mat', name='m_b', props={}, auto=True, ow=False),
         dict(k='EntUp', f=0, e='ads', name='ua_x', props={'molar_mass': 44.0}, auto=True, ow=False)]
    temps = [77.0, 87.3, 298.15]
    for i in range(n):
        cls = 'point' if i % 9 == 4 else 'model' if i % 13 == 7 else 'base'
        spec = dict(cls=cls, mat='m_a' if i < split else 'm_b', ads=['nitrogen', 'ua_x', 'argon'][i % 3], T=temps[(i // 3) % 3],
                    meta={'run': i + 0.5, 'batch': WORDS[i % len(WORDS)]})
        if rnd.random() < 0.1:
            spec['meta']['flag'] = rnd.choice([True, False])
        if cls == 'point':
            spec['p'] = [0.1, 0.2 + i / 1000.0]; spec['l'] = [0.5, 1.0 + i / 1000.0]
        if cls == 'model':
            spec['K'] = round(1.0 + i / 100.0, 3)
        H.append(dict(k='IsoUp', f=0, iso=spec, am=False, aa=False, again=False, verify=(i % per_check == per_check - 1 or i == n - 1)))
    crits = [{}, {'material': 'm_a'}, {'material': 'm_b'}, {'adsorbate': 'nitrogen'}, {'iso_type': 'isotherm'}, {'temperature': 77.0},
             {'material': 'm_b', 'iso_type': 'pointisotherm'}, {'adsorbate': 'ua_x', 'temperature': 87.3}]
    for c in crits:
        H.append(dict(k='IsoGet', f=0, crit=c))
    # deletions of rows that sit in the last / a middle batch, through the object retrieved from the file, by id, through the stored object
    H.append(dict(k='IsoDel', f=0, how='retrieved', pick=n - 1))
    H.append(dict(k='IsoDel', f=0, how='id', pick=n // 2))
    H.append(dict(k='IsoDel', f=0, how='object', pick=0))
    for c in rnd.sample(crits, 3) + [{}]:
        H.append(dict(k='IsoGet', f=0, crit=c))
    return H


def gen_scenarios(rnd):
    """structured histories (names and values drawn at random) for interaction patterns that random interleavings reach only by luck:
    deleting an item that has properties while it is still referenced, then after the reference is gone; overwriting one of several items
    so that properties are dropped / changed / added, overwriting an absent item, re-uploading a present one; a type in use"""
    val = lambda: gen_value(rnd, numeric_text=0, none=0, lists=0)      # noqa
    out = []
    # -- referenced deletes
    m, a = rnd.choice(MATS), rnd.choice(UADS)
    pm, pa = rnd.sample(PTYPES, 2), rnd.sample(PTYPES, 2)
    iso = dict(cls=rnd.choice(['point', 'model', 'base']), mat=m, ads=a, T=rnd.choice([77.0, 87.3]), meta={'operator': rnd.choice(WORDS)})
    if iso['cls'] == 'point':
        iso.update(p=[0.1, 0.25], l=[0.5, 1.25])
    if iso['cls'] == 'model':
        iso['K'] = 1.5
    out.append((1, [
        dict(k='EntUp', f=0, e='mat', name=m, props={t: val() for t in pm}, auto=True, ow=False),
        dict(k='EntUp', f=0, e='ads', name=a, props={t: val() for t in pa}, auto=True, ow=False),
        dict(k='IsoUp', f=0, iso=iso, am=False, aa=False, again=False),
        dict(k='EntDel', f=0, e='mat', name=m, bystr=rnd.random() < 0.5), dict(k='EntGet', f=0, e='mat'),
        dict(k='EntDel', f=0, e='ads', name=a, bystr=rnd.random() < 0.5), dict(k='EntGet', f=0, e='ads'),
        dict(k='TyDel', f=0, t='iso', ty={'point': 'pointisotherm', 'model': 'modelisotherm', 'base': 'isotherm'}[iso['cls']]),
        dict(k='IsoGet', f=0, crit={'material': m}), dict(k='IsoDel', f=0, how=rnd.choice(['id', 'object'])),
        dict(k='EntDel', f=0, e='mat', name=m, bystr=False), dict(k='EntGet', f=0, e='mat'),
        dict(k='EntDel', f=0, e='ads', name=a, bystr=True), dict(k='EntGet', f=0, e='ads'), dict(k='IsoGet', f=0, crit={})]))
    # -- overwrites among several items with several properties
    for e, pool in (('mat', MATS), ('ads', UADS)):
        n1, n2, n3 = rnd.sample(pool, 3)
        p1, p2, p3, p4 = rnd.sample(PTYPES, 4)
        out.append((1, [
            dict(k='EntUp', f=0, e=e, name=n1, props={p1: val(), p2: val()}, auto=True, ow=False),
            dict(k='EntUp', f=0, e=e, name=n2, props={p2: val(), p3: val()}, auto=True, ow=False),
            dict(k='EntUp', f=0, e=e, name=n2, props={p3: val()}, auto=True, ow=True), dict(k='EntGet', f=0, e=e),
            dict(k='EntUp', f=0, e=e, name=n1, props={p1: val(), p4: val()}, auto=rnd.random() < 0.5, ow=True), dict(k='EntGet', f=0, e=e),
            dict(k='EntUp', f=0, e=e, name=n3, props={p1: val()}, auto=True, ow=True),
            dict(k='EntUp', f=0, e=e, name=n1, props={p2: val()}, auto=True, ow=False),
            dict(k='EntUp', f=0, e=e, name=n2, props={}, auto=True, ow=True), dict(k='EntGet', f=0, e=e),
            dict(k='EntDel', f=0, e=e, name=n2, bystr=rnd.random() < 0.5), dict(k='EntGet', f=0, e=e),
            dict(k='EntUp', f=0, e=e, name=n2, props={p4: val()}, auto=True, ow=False), dict(k='EntGet', f=0, e=e)]))
    # -- a property type in use, overwritten, deleted
    for t, e, pool in (('mat', 'mat', MATS), ('ads', 'ads', UADS)):
        ty, n = rnd.choice(PTYPES), rnd.choice(pool)
        out.append((1, [
            dict(k='TyUp', f=0, t=t, ty=ty, unit=rnd.choice([None, 'K']), desc=rnd.choice([None, 'some text']), ow=False),
            dict(k='EntUp', f=0, e=e, name=n, props={ty: val()}, auto=False, ow=False),
            dict(k='TyDel', f=0, t=t, ty=ty), dict(k='TyUp', f=0, t=t, ty=ty, unit='g/cm3', desc=None, ow=True), dict(k='TyGet', f=0, t=t),
            dict(k='TyUp', f=0, t=t, ty=ty, unit=None, desc=None, ow=False), dict(k='EntGet', f=0, e=e),
            dict(k='EntDel', f=0, e=e, name=n, bystr=True), dict(k='TyDel', f=0, t=t, ty=ty), dict(k='TyDel', f=0, t=t, ty=ty), dict(k='TyGet', f=0, t=t)]))
    return out


def gen_refusal_scenarios(rnd):
    """one history per operation shape in which Python-level code refuses the call AFTER its first write (Db/DbPy.v), each followed by
    retrievals and by the corrected call (which must be accepted, and be the only one of its kind in the store).  The places in
    parsing/sqlite.py: the binding of a property value in adsorbate_to_db / material_to_db (new, overwrite, inside an auto-inserting isotherm
    upload), of a metadata value in isotherm_to_db, find_SQL_python_type on an extra data column, the isotherm type test."""
    val = lambda: gen_value(rnd, numeric_text=0, none=0, lists=0)      # noqa
    out = []
    for e, pool in (('mat', MATS), ('ads', UADS)):
        n1, n2 = rnd.sample(pool, 2)
        ts = rnd.sample(PTYPES, 4)
        good = {t: val() for t in ts[:rnd.randint(1, 3)]}
        bad = dict(good); bad[ts[3]] = rnd.choice(BAD_PROP)
        if rnd.random() < 0.5:
            bad = dict(reversed(list(bad.items())) if rnd.random() < 0.3 else bad.items())
        out.append((1, [
            dict(k='EntUp', f=0, e=e, name=n1, props=bad, auto=rnd.random() < 0.7, ow=False), dict(k='EntGet', f=0, e=e), dict(k='TyGet', f=0, t=e),
            dict(k='EntUp', f=0, e=e, name=n1, props=good, auto=True, ow=False), dict(k='EntGet', f=0, e=e),
            # overwrite: the first write is the deletion of the stored properties
            dict(k='EntUp', f=0, e=e, name=n1, props=dict({ts[0]: val()}, **{ts[3]: rnd.choice(BAD_PROP)}), auto=True, ow=True), dict(k='EntGet', f=0, e=e),
            dict(k='EntUp', f=0, e=e, name=n2, props={ts[1]: rnd.choice(BAD_PROP)}, auto=True, ow=False),
            dict(k='EntDel', f=0, e=e, name=n2, bystr=True), dict(k='EntDel', f=0, e=e, name=n1, bystr=rnd.random() < 0.5), dict(k='EntGet', f=0, e=e)]))
    def iso(cls, m, a, **kw):
        sp = dict(cls=cls, mat=m, ads=a, T=rnd.choice([77.0, 87.3]), meta={'operator': rnd.choice(WORDS), 'run': round(rnd.uniform(1, 5), 2)})
        if cls == 'point':
            sp.update(p=[0.1, 0.25, 0.5], l=[0.5, 1.25, 1.5])
        if cls == 'model':
            sp['K'] = 1.5
        sp.update(kw)
        return sp
    # -- the auto-inserted material carries a value that cannot be bound
    m, a = rnd.choice(MATS), rnd.choice(UADS + SHIPPED)
    t1, t2 = rnd.sample(PTYPES, 2)
    cls = rnd.choice(['point', 'model', 'base'])
    out.append((1, [
        dict(k='IsoUp', f=0, iso=iso(cls, m, a, matprops={t1: val(), t2: rnd.choice(BAD_PROP)}), am=True, aa=True, again=False),
        dict(k='EntGet', f=0, e='mat'), dict(k='IsoGet', f=0, crit={}),
        dict(k='EntUp', f=0, e='mat', name=m, props={t1: val()}, auto=True, ow=False), dict(k='EntGet', f=0, e='mat')]))
    # -- metadata that cannot be bound, among storable ones; an extra column without an SQL type name after one with
    for variant in ('meta', 'column', 'duck'):
        m, a = rnd.choice(MATS), rnd.choice(UADS)
        cls = 'point' if variant == 'column' else rnd.choice(['point', 'model', 'base'])
        good = iso(cls, m, a)
        bad = dict(good)
        if variant == 'meta':
            items = list(good['meta'].items()); items.insert(rnd.randint(0, len(items)), ('tags', rnd.choice(BAD_META)))
            bad['meta'] = dict(items)
        elif variant == 'column':
            cols = [('heat', extra_column('float', 3, rnd)), rnd.choice([('cycle', extra_column('int', 3, rnd)), ('valve', extra_column('bool', 3, rnd))])]
            bad['extras'] = cols
            good = dict(good, extras=[(cols[0][0], cols[0][1]), (cols[1][0], [float(x) for x in cols[1][1]])])
        else:
            bad = dict(good, cls='duck', n=rnd.randint(0, 9999))
        am = variant == 'duck'
        pre = [] if am else [dict(k='EntUp', f=0, e='mat', name=m, props={}, auto=True, ow=False)]
        out.append((1, pre + [
            dict(k='EntUp', f=0, e='ads', name=a, props={'molar_mass': 30.0}, auto=True, ow=False),
            dict(k='IsoUp', f=0, iso=bad, am=am, aa=False, again=False), dict(k='IsoGet', f=0, crit={}), dict(k='EntGet', f=0, e='mat'),
            dict(k='IsoUp', f=0, iso=good, am=am, aa=False, again=False), dict(k='IsoGet', f=0, crit={'material': m}),
            dict(k='IsoDel', f=0, how='id'), dict(k='IsoGet', f=0, crit={})]))
    # -- single-statement calls and arguments refused by the first statement
    out.append((1, [dict(k='TyUp', f=0, t=t, ty=rnd.choice(PTYPES), unit=rnd.choice([{'a': 1}, 2 ** 70]) if t != 'iso' else None,
                         desc={'d': 1} if t == 'iso' else None, ow=w) for t in ('ads', 'mat', 'iso') for w in (False, True)]
                + [gen_argbad(rnd, 0) for _ in range(4)] + [dict(k='TyGet', f=0, t='mat'), dict(k='EntGet', f=0, e='ads')]))
    return out


def independent_select(path, crit):
    """the rows of `isotherms` that satisfy the criteria, read through an independent connection (SQLite evaluates the WHERE clause)"""
    c = sqlite3.connect('file:%s?mode=ro' % path, uri=True)
    try:
        keys = sorted(crit)
        sql = 'SELECT iso_type, material, temperature FROM isotherms' + (' WHERE ' + ' AND '.join('%s = ?' % k for k in keys) if keys else '')
        return sorted((r[0], r[1], float(r[2])) for r in c.execute(sql, [crit[k] for k in keys]).fetchall())
    finally:
        c.close()


def retrieval_check(path, crit, res):
    """what isotherms_from_db returned vs the rows an independent connection reads: None, or the discrepancy"""
    import pygaps
    want = independent_select(path, crit or {})
    got = sorted(('pointisotherm' if isinstance(x, pygaps.PointIsotherm) else 'modelisotherm' if isinstance(x, pygaps.ModelIsotherm) else 'isotherm',
                  str(x.material), float(x.temperature)) for x in res)
    if want == got:
        return None
    missing = list(want)
    for g in got:
        if g in missing:
            missing.remove(g)
    return ('isotherms_from_db(%r) returned %d isotherms; the file holds %d matching rows (independent connection); first rows that did not come back: %s'
            % (crit or None, len(got), len(want), missing[:3]))


def same_content(obj, x, booltokens=False):
    """is the retrieved isotherm x the stored isotherm obj, up to the KNOWN defects of the pinned tree (the extra iso_type key, integers and
    numeric-looking text coming back as floats through the REAL column; with booltokens=True also: the str 'TRUE' / 'FALSE' coming back as that bool)?"""
    import pygaps
    if type(x) is not type(obj):
        return False
    a, b = obj.to_dict(), x.to_dict()
    if 'iso_type' not in a:
        b.pop('iso_type', None)
    if a.keys() != b.keys():
        return False
    for k, va in a.items():
        vb = b[k]
        if k == 'material':
            va = va['name'] if isinstance(va, dict) else str(va); vb = vb['name'] if isinstance(vb, dict) else str(vb)
        if booltokens and isinstance(va, str) and va in BOOLTOKENS and vb is (va == 'TRUE'):
            continue
        if isinstance(va, bool) or isinstance(vb, bool):
            if va is not vb:
                return False
        elif isinstance(va, int) and isinstance(vb, float):
            if float(va) != vb:
                return False
        elif isinstance(va, str) and va in NUMPOOL and not isinstance(vb, str):
            if NUMPOOL[va] != vb:
                return False
        elif va != vb or isinstance(va, str) != isinstance(vb, str):
            return False
    if isinstance(obj, pygaps.PointIsotherm):
        if obj.pressure().tolist() != x.pressure().tolist() or obj.loading().tolist() != x.loading().tolist() or sorted(obj.other_keys) != sorted(x.other_keys):
            return False
        if any(obj.other_data(k).tolist() != x.other_data(k).tolist() for k in obj.other_keys):
            return False
    if isinstance(obj, pygaps.ModelIsotherm) and obj.model.to_dict() != x.model.to_dict():
        return False
    return True


# ------------------------------------------------------------------ classification of failing steps (input pattern -> tag)
def has_numtext(op):
    vals = []
    if op['k'] == 'EntUp':
        vals = list(op['props'].values())
    if op['k'] == 'IsoUp':
        vals = list(op['iso']['meta'].values()) + list((op['iso'].get('matprops') or {}).values())      # metadata + the properties of an auto-inserted material
    return any(isinstance(v, str) and v in NUMPOOL for v in vals)


def classify(op, kind, ctx):
    k = op['k']
    if op.get('t') == 'isoprop':
        return 'C08:isotherm-property-type-table-missing'
    if kind in ('outcome', 'refused-changed-registry') and k == 'IsoUp' and (op['am'] or op['aa']):
        if ctx.get('leaked'):
            return 'C08:registry-keeps-rolled-back-autoinsert'
        if ctx.get('reg_vs_file'):
            return 'C08:registry-not-per-file'
    if kind in ('roundtrip-booltoken', 'content') and k == 'IsoUp' and any(isinstance(v, str) and v in BOOLTOKENS for v in op['iso']['meta'].values()):
        return 'C08:text-TRUE-FALSE-read-back-as-bool'
    if kind in ('content', 'roundtrip') and has_numtext(op):
        return 'C08:numeric-text-real-affinity'
    if kind == 'roundtrip' and k == 'EntUp' and op['e'] == 'mat' and any(isinstance(v, list) and len(v) > 1 for v in op['props'].values()):
        return 'C08:material-list-property-collapsed'
    if kind in ('roundtrip', 'delete-through-retrieved') and k in ('IsoUp', 'IsoDel'):
        meta = ctx.get('meta', {})
        if any(isinstance(v, str) and v in NUMPOOL for v in meta.values()):
            return 'C08:numeric-text-real-affinity'
        if any(isinstance(v, int) and not isinstance(v, bool) for v in meta.values()):
            return 'C08:int-metadata-real-affinity'
        return 'C08:retrieved-isotherm-iso_type-leak'
    return 'C08:unclassified:%s:%s' % (kind, k)


# ------------------------------------------------------------------ one campaign
def explore(rep, tier, seed, nh=None, maxlen=None, bulk=True):
    rnd = random.Random(seed)
    nh = nh or (500 if tier == "thorough" else 105)
    maxlen = maxlen or (40 if tier == "thorough" else 22)
    work = scratch_dir('c08_%d' % os.getpid())
    im = Impl(work)
    I = Intern()
    if im.lean_error:
        rep.failure('C08:unclassified:outcome-depends-on-another-file:EntUp',
                    'uploading shipped adsorbates (autoinsert_properties=True) into a freshly created empty file is refused (%s) after the same uploads went into another file of this process' % im.lean_error,
                    {'kind': 'outcome-depends-on-another-file', 'ops': ['db_create(template.db)', 'PRAGMAS on lean.db', 'adsorbate_to_db(shipped adsorbate, lean.db, autoinsert_properties=True)'], 'observed': im.lean_error})
    try:
        raw0 = raw_dump(im.template)
        base_names = {I.atom(r[1]) for r in raw0['adsorbates']}
        db0 = db_literal(raw0, I)
        raw1 = raw_dump(im.lean)
        db1 = db_literal(raw1, I)
        reg0 = '(mkReg %s [])' % zl(sorted(I.atom(x.name) for x in im.reg0[0]))
        runs = []
        # stores holding more isotherms than any batch size the code uses (sizes read from the source under test)
        sizes = batch_sizes(im.S)
        B = max(sizes)
        rep.cov['batch_sizes_in_source'] = sizes
        bulk_sizes = []
        if bulk:
            n1 = B + rnd.randint(1, max(2, B // 4))
            n2 = 2 * B + rnd.randint(1, max(2, B // 2))
            bulk_sizes = [(n1, B), (n2, n2 // 2)]                       # (rows, rows of material m_a): exactly one batch / more than one batch match
            if tier == 'thorough':
                bulk_sizes += [(B, B // 2), (B + 1, B + 1), (2 * B, B), (3 * B + 7, 2 * B + 1)] + [(b + 1, b) for b in sizes if b != B]
        for n, split in bulk_sizes:
            H = gen_bulk(rnd, n, split)
            # the model's cost per step grows with the square of the store: cut the history where the cubes are equal
            cuts = sorted({int(len(H) * (k / 6.0) ** (1 / 3.0)) for k in range(1, 6)}) if n > 60 else ()
            runs.append(run_history(im, I, H, 1, raw1, lean=True, cuts=cuts))
        rep.cov['bulk_stores'] = [n for n, _ in bulk_sizes]
        nbulk = len(runs)
        for nfiles, H in gen_scenarios(rnd) + gen_refusal_scenarios(rnd):
            runs.append(run_history(im, I, H, nfiles, raw0))
        for hi in range(nh):
            nfiles = rnd.choice([1, 1, 2, 3])
            H = gen_history(rnd, nfiles, maxlen, pybad=0.06 if hi % 3 == 0 else 0.0)
            runs.append(run_history(im, I, H, nfiles, raw0))
    finally:
        im.close()
    header = HEADER_PY + 'Definition db0 := %s.\nDefinition db1 := %s.\nDefinition reg0 := %s.\nDefinition base := %s.\n' % (db0, db1, reg0, zl(sorted(base_names)))
    def hist_term(start, reg, steps):
        return '(show_hist_py base %s %s [%s])' % (start, reg, '; '.join('(%d%%nat, %s)' % (s['f'], s['pterm']) for s in steps))
    terms = [hist_term('[' + '; '.join(['db1' if r['lean'] else 'db0'] * r['nfiles']) + ']', 'reg0', r['steps']) for r in runs[nbulk:]]
    bterms, bmap = [], []
    for bi, r in enumerate(runs[:nbulk]):
        bounds = [0] + [c[0] for c in r['segs']] + [len(r['steps'])]
        for j in range(len(bounds) - 1):
            if j == 0:
                start, reg = '[db1]', 'reg0'
            else:
                _, raw, al, ml = r['segs'][j - 1]
                start, reg = '[%s]' % db_literal(raw, I), '(mkReg %s %s)' % (zl(al), zl(ml))      # in the case's own file only
            bterms.append(hist_term(start, reg, r['steps'][bounds[j]:bounds[j + 1]]))
            bmap.append(bi)
    model = None
    try:
        # the long bulk histories are evaluated one per file, concurrently with the others
        from concurrent.futures import ThreadPoolExecutor
        with ThreadPoolExecutor(2) as ex:
            fb = ex.submit(vlib.run_coq_cases, 'c08b', header, 'fun x : list (list (list (list Z))) => x', bterms, 1, 1500, True) if bterms else None
            fr = ex.submit(vlib.run_coq_cases, 'c08m', header, 'fun x : list (list (list (list Z))) => x', terms, 10, 1500, True)
            bres = fb.result() if fb else []
            model = [sum((seg for seg, bi in zip(bres, bmap) if bi == k), []) for k in range(nbulk)] + fr.result()
    except RuntimeError as e:
        rep.broken_obligation('correspondence:DbModel-evaluation', str(e)[-1200:])
    judge(rep, runs, model, I, header, (raw0, raw1))
    check_wf(rep, header, ['db0', 'db1'])
    return runs


def implementation_verdicts(rep, items, I, header, raw0):
    """steps on which model and implementation disagree: judge the IMPLEMENTATION's own transition (tables before / after the call, read through
    the independent connection) by the plain dictionary model inside Coq, so that a broken correspondence comes with a concrete failing input
    whenever the property itself is violated.  items: [(run, step index, fail function)]"""
    work = scratch_dir('c08_again_%d' % os.getpid())
    im = Impl(work)
    terms, keep = [], []
    try:
        for r, si, fail in items:
            H = []
            for s in r['steps'][:si + 1]:
                o = dict(s['op']); o.pop('through', None)
                if o['k'] == 'IsoDel':
                    o.pop('target', None)
                H.append(o)
            cap = {}
            again = run_history(im, I, H, r['nfiles'], raw0[1] if r['lean'] else raw0[0], capture=(si, cap), lean=r['lean'])
            st = again['steps'][si]
            if 'before' not in cap or st['pterm'] != r['steps'][si]['pterm']:
                continue
            terms.append('(spec_verdict_py %s %s %s)' % (st['pterm'], db_literal(cap['before'], I), db_literal(cap['after'], I)))
            keep.append((st, fail))
    finally:
        im.close()
    if not terms:
        return
    try:
        res = vlib.run_coq_cases('c08v', header, 'fun x : list Z => x', terms, per_file=1, nested=True, timeout=900)
    except RuntimeError as e:
        rep.broken_obligation('correspondence:dictionary-verdict-evaluation', str(e)[-800:])
        return
    for (st, fail), (ok, diff) in zip(keep, res):
        accepted = st['oc'] == 'Ok'
        if accepted != bool(ok):
            fail('outcome', '%s: implementation %s, the plain dictionary model (applied to the tables the implementation had before the call) %s'
                 % (_plain(st['op']), st['oc'], 'accepts' if ok else 'refuses'))
        elif diff:
            fail('content', '%s: the tables the implementation left differ from what the plain dictionary model predicts from the tables before the call '
                 '(collections mask %d: 1 adsorbates, 2 materials, 4 isotherm types, 16 isotherms)' % (_plain(st['op']), diff))


def check_wf(rep, header, names):
    """the hypothesis `wf d` of the refinement / invariant theorems, DECIDED inside Coq (DbInv.wfb, sound by well_formedness_check_is_sound) for
    the concrete contents the histories of this run start from (what db_create ships / the prepared files of C09)"""
    try:
        res = vlib.run_coq_cases('c08w', header.replace('Import ListNotations.', 'From PG Require Import Db.DbInv.\nImport ListNotations.', 1), 'fun b : bool => (if b then 1 else 0, 0)',
                                 ['(wfb %s)' % n for n in names], per_file=50, timeout=600)
        bad = [n for n, v in zip(names, res) if v[0] != 1]
        rep.cov['initial_contents_well_formed'] = '%d of %d (DbInv.wfb evaluated inside Coq on %s)' % (len(names) - len(bad), len(names), ', '.join(names))
        rep.cov['evaluations'] += len(names)
        for n in bad:
            rep.broken_obligation('hypothesis:wf(%s)' % n, 'the initial table content %s violates the well-formedness invariant of Db/DbInv.v (wfb = false)' % n)
    except RuntimeError as e:
        rep.broken_obligation('hypothesis:wf-evaluation', str(e)[-800:])


def aux_retrieve(call, ctx):
    """a retrieval the harness makes for its own checks (round trip, deletion through the retrieved object): a store the library itself can no
    longer read is recorded as a failed check of the step, not an error of the harness"""
    try:
        return list(call())
    except Exception as e:  # noqa
        ctx['retrieval_raises'] = 'retrieving everything from the file raises %s: %s' % (type(e).__name__, str(e)[:160])
        return []


def run_history(im, I, H, nfiles, raw0, capture=None, lean=False, cuts=()):
    """cuts: step indices (single-file histories) before which the file and the registries are dumped, so that the model can be evaluated on
    the segments in parallel, each from the tables the implementation had at its start (which the previous segment compared row by row)"""
    segs = []
    im.reset_registry()
    paths = [im.fresh(i, lean) for i in range(nfiles)]
    enc0 = encode(raw0, I)
    cur = [dict(tabs=[list(t) for t in enc0], counters=list(raw0['_counters'])) for _ in range(nfiles)]
    reg = im.registry(I)
    uploaded = [[] for _ in range(nfiles)]      # (iso_id, object, meta) accepted per file
    steps = []
    leaked = set()
    for op in H:
        f = op['f']
        path = paths[f]
        ctx = {}
        if op['k'] == 'IsoUp' and op.get('again') and uploaded[f]:
            op = dict(op); op['iso'] = uploaded[f][-1][3]          # a duplicate of something stored
        if op['k'] == 'IsoDel':
            op = dict(op)
            pool = uploaded[f]
            if op['how'] == 'absent' or not pool:
                op['target'] = 'feedbeef' * 4; op['how'] = 'absent'
            else:
                iid, obj, meta, spec = pool[op['pick'] % len(pool)] if 'pick' in op else pool[-1] if len(pool) == 1 else pool[len(steps) % len(pool)]
                op['target'] = iid
                ctx['meta'] = meta
                if op['how'] == 'object':
                    op['through'] = obj
                elif op['how'] == 'retrieved':
                    im.px.n = 0
                    got = aux_retrieve(lambda: im.S.isotherms_from_db(db_path=path, verbose=False), ctx)
                    ctx['retrieval'] = retrieval_check(path, None, got)
                    same = [x for x in got if x.iso_id == iid]
                    # the retrieved twin of the stored isotherm: same id if the property holds; else the one built from the same row
                    cand = same or [x for x in got if same_content(obj, x)] or [
                        x for x in got if str(x.material) == str(obj.material) and str(x.adsorbate) == str(obj.adsorbate)
                        and type(x) is type(obj) and {k: v for k, v in x.to_dict().items() if k != 'iso_type'}.keys() == obj.to_dict().keys()]
                    if cand:
                        op['through'] = cand[0]; op['target'] = cand[0].iso_id; ctx['retrieved_same_id'] = bool(same); ctx['stored_id'] = iid
                    else:
                        op['how'] = 'id'
        # registry vs file membership before the call (for the classifier only)
        if op['k'] == 'IsoUp':
            mats_in_file = {r[1] for r in cur[f]['tabs'][3]}
            ads_in_file = {r[1] for r in cur[f]['tabs'][0]}
            regm = {r[0] for r in reg[1]}; rega = {r[0] for r in reg[0]}
            ma, aa_ = I.atom(op['iso']['mat']), None
            try:
                import pygaps
                aa_ = I.atom(pygaps.Adsorbate.find(op['iso']['ads']).name)
            except Exception:  # noqa
                aa_ = I.atom(op['iso']['ads'])
            ctx['reg_vs_file'] = (op['am'] and ((ma in regm) != (ma in mats_in_file))) or (op['aa'] and ((aa_ in rega) != (aa_ in ads_in_file)))
            ctx['leaked'] = (op['am'] and ma in leaked and ma not in mats_in_file) or (op['aa'] and aa_ in leaked and aa_ not in ads_in_file)
            ctx['meta'] = op['iso']['meta']
        if capture and capture[0] == len(steps):
            capture[1]['before'] = raw_dump(path)
        if len(steps) in cuts and nfiles == 1:
            segs.append((len(steps), raw_dump(path), sorted(I.atom(x.name) for x in im.AL), sorted(I.atom(x.name) for x in im.ML)))
        oc, nst, term, res, obj = apply_op(im, op, path, I)
        if im.last_pterm is None:
            continue            # the argument could not even be built (refused by a constructor): no call was made on the store
        # state afterwards: every file, through an independent connection
        after = []
        for i, p in enumerate(paths):
            raw = raw_dump(p)
            if capture and capture[0] == len(steps) and i == f:
                capture[1]['after'] = raw
            after.append(dict(tabs=encode(raw, I), counters=raw['_counters'], fk=raw['_fk']))
        reg2 = im.registry(I)
        st = dict(f=f, op=op, oc=oc, n=nst, term=term, pterm=im.last_pterm, ctx=ctx,
                  diff=table_diff(cur[f]['tabs'] + reg, after[f]['tabs'] + reg2), counters=after[f]['counters'],
                  others_changed=[i for i in range(nfiles) if i != f and (after[i]['tabs'] != cur[i]['tabs'] or after[i]['counters'] != cur[i]['counters'])],
                  fk=after[f]['fk'], ret=norm_ret(op, res, I, {I.atom(r[1]) for r in raw0['adsorbates']}), checks=[])
        changed_file = after[f]['tabs'] != cur[f]['tabs']
        if ctx.get('retrieval'):
            st['checks'].append(('retrieval-incomplete', ctx['retrieval']))
        if oc == 'Ok' and op['k'] == 'IsoGet':
            bad = retrieval_check(path, op['crit'], res)
            if bad:
                st['checks'].append(('retrieval-incomplete', bad))
        if oc != 'Ok' and changed_file:
            changed = [t for t, a, b in zip(TABLES, cur[f]['tabs'], after[f]['tabs']) if a != b]
            st['checks'].append(('refused-changed-file', '%s is refused (%s) after %d statement(s), yet the database file changed: rows %s'
                                 % (_plain(op), oc, nst, ', '.join('%s %d -> %d' % (t, len(cur[f]['tabs'][TABLES.index(t)]), len(after[f]['tabs'][TABLES.index(t)])) for t in changed))))
        if oc != 'Ok' and reg2 != reg:
            new = {r[0] for r in reg2[0]} - {r[0] for r in reg[0]} | {r[0] for r in reg2[1]} - {r[0] for r in reg[1]}
            leaked |= new
            # a refused call that left the file as it was must leave the session registries (the state later auto-inserting uploads depend on) as they
            # were too.  Entries ADDED by a refused upload are the known finding C08-F5 (judged where a later upload trips over them); entries LOST:
            lost = sorted(({r[0] for r in reg[0]} - {r[0] for r in reg2[0]}) | ({r[0] for r in reg[1]} - {r[0] for r in reg2[1]}))
            if lost and not changed_file:
                names = {v: k for k, v in I.atoms.items()}
                st['checks'].append(('refused-forgot-registry', '%s is refused (%s) and leaves the database file unchanged, yet the session registries '
                                     '(MATERIAL_LIST / ADSORBATE_LIST) no longer hold %r' % (_plain(op), oc, [names.get(a, a) for a in lost])))
        # round trip of accepted uploads, on the implementation
        if oc == 'Ok' and op['k'] == 'EntUp':
            im.px.n = 0
            got = aux_retrieve(lambda: (im.S.adsorbates_from_db if op['e'] == 'ads' else im.S.materials_from_db)(db_path=path, verbose=False), ctx)
            back = [x for x in got if x.name == obj.name]
            want = _pairs(obj)
            have = _pairs(back[0]) if len(back) == 1 else None
            same = have is not None and len(want) == len(have) and all(a[0] == b[0] and _veq(a[1], b[1]) for a, b in zip(want, have))
            if not same:
                st['checks'].append(('roundtrip', 'uploaded %s %r comes back as %r, stored %r' % (op['e'], obj.name, have, want)))
        if oc == 'Ok' and op['k'] == 'IsoUp':
            uploaded[f].append((obj.iso_id, obj, op['iso']['meta'], op['iso']))
        if oc == 'Ok' and op['k'] == 'IsoUp' and op.get('verify', True):
            im.px.n = 0
            got = aux_retrieve(lambda: im.S.isotherms_from_db(db_path=path, verbose=False), ctx)
            bad = retrieval_check(path, None, got)
            if bad:
                st['checks'].append(('retrieval-incomplete', bad))
            if not any(x.iso_id == obj.iso_id for x in got):
                st['checks'].append(('roundtrip', 'stored isotherm %s is not among the retrieved ones (ids %s)' % (obj.iso_id, [x.iso_id for x in got][:4])))
                # ... which on the pinned tree is always so (iso_type leak).  Beyond the known defects: does it come back with equal content?
                if not any(same_content(obj, x) for x in got):
                    twin = [x for x in got if type(x) is type(obj) and str(x.material) == str(obj.material) and float(x.temperature) == float(obj.temperature)]
                    only_tokens = any(same_content(obj, x, booltokens=True) for x in got)       # nothing but 'TRUE' / 'FALSE' text read back as bool
                    st['checks'].append(('roundtrip-booltoken' if only_tokens else 'roundtrip-content', 'stored isotherm %s with parameters %r does not come back with equal content; closest retrieved: %r'
                                         % (obj.iso_id, {k: v for k, v in obj.to_dict().items() if k not in UNITS}, [{k: v for k, v in x.to_dict().items() if k not in UNITS} for x in twin[-2:]])))
        if op['k'] == 'IsoDel' and op['how'] == 'retrieved' and not ctx.get('retrieved_same_id', True):
            st['checks'].append(('delete-through-retrieved', 'isotherm %s retrieved from the file has id %s; deleting through it -> %s' % (ctx['stored_id'], op['target'], oc)))
        if ctx.get('retrieval_raises'):
            st['checks'].append(('store-unreadable', ctx['retrieval_raises']))
        if oc == 'Ok' and op['k'] == 'IsoDel':
            uploaded[f] = [u for u in uploaded[f] if u[0] != op['target']]
        if oc == 'Ok' and op['k'] == 'EntDel':
            pass
        steps.append(st)
        cur = [dict(tabs=a['tabs'], counters=a['counters']) for a in after]
        reg = reg2
    return dict(nfiles=nfiles, steps=steps, lean=lean, segs=segs)


def _pairs(o):
    ps = [(t, v) for t, vs in flat_props(o.to_dict()) for v in vs]
    return sorted(ps, key=lambda p: (p[0], isinstance(p[1], str), p[1] if isinstance(p[1], str) else float(p[1] or 0)))


def _veq(a, b):
    if isinstance(a, str) != isinstance(b, str):
        return False
    return a == b


def judge(rep, runs, model, I, header=None, raw0=None):
    n_steps = n_dis = 0
    to_judge = []
    hist = {}
    nontrivial = set()
    for hi, r in enumerate(runs):
        for si, st in enumerate(r['steps']):
            n_steps += 1
            op = st['op']
            key = '%s/%s' % (op['k'] + (':' + op.get('e', op.get('t', '')) if op.get('e') or op.get('t') else ''), st['oc'])
            hist[key] = hist.get(key, 0) + 1
            replay = {'nfiles': r['nfiles'], 'ops': [_plain(s['op']) for s in r['steps'][:si + 1]], 'failing_step': si, 'outcome': st['oc']}
            if r['lean']:
                replay['start'] = 'lean file: schema (PRAGMAS) + isotherm types + adsorbates %s only' % SHIPPED

            def fail(kind, what, op=op, st=st, replay=replay):
                rep.failure(classify(op, kind, st['ctx']), what, dict(replay, kind=kind))
            for kind, what in st['checks']:
                fail(kind, what)
            if st['others_changed']:
                fail('other-file-changed', 'call on file %d changed file(s) %s' % (st['f'], st['others_changed']))
            if st['fk']:
                fail('orphans', 'PRAGMA foreign_key_check reports %r' % (st['fk'][:3],))
            if model is None:
                continue
            ms = model[hi][si]
            moc, mn = ms[0][0]
            mcount = ms[0][1]
            spec_ok, spec_diff = ms[0][2]
            mdiff = [(sorted(ms[1 + 2 * i][0]) if ms[1 + 2 * i] else [], sorted(tuple(x) for x in ms[2 + 2 * i])) for i in range(12)]
            mret = norm_model_ret(op, ms[25])
            agree = (OC.get(moc) == st['oc'] and mn == st['n'] and mcount == st['counters'] and mdiff == [(a, b) for a, b in st['diff']]
                     and (st['oc'] != 'Ok' or mret == st['ret']))
            if not agree:
                n_dis += 1
                if n_dis <= 5:
                    what = [('outcome', OC.get(moc), st['oc']), ('statements', mn, st['n']), ('counters', mcount, st['counters'])]
                    what += [('table %d' % i, mdiff[i], st['diff'][i]) for i in range(12)]
                    if st['oc'] == 'Ok' and mret != st['ret']:
                        firstdiff = next((i for i, (a, b) in enumerate(zip(mret, st['ret'])) if a != b), min(len(mret), len(st['ret'])))
                        what.append(('result', {'items': len(mret), 'item %d' % firstdiff: mret[firstdiff:firstdiff + 1]},
                                     {'items': len(st['ret']), 'item %d' % firstdiff: st['ret'][firstdiff:firstdiff + 1]}))
                    rep.broken_obligation('correspondence:DbModel-vs-implementation',
                                          {'history': hi, 'step': si, 'op': _plain(op), '(what, model, implementation)': [w for w in what if w[1] != w[2]][:4],
                                           'replay': dict(replay, ops=replay['ops'][-12:], note='last 12 operations of %d' % len(replay['ops'])) if len(replay['ops']) > 40 else replay})
                # from the first disagreement on the model's state is not the implementation's: judge the implementation's own transition instead
                if header is not None and len(to_judge) < 4 and not any(t[0] is r for t in to_judge) and op['k'] not in ('EntGet', 'TyGet', 'IsoGet'):
                    to_judge.append((r, si, fail))
                continue
            # the dictionary model's verdict on this step (valid for the implementation because the tables agree)
            accepted = st['oc'] == 'Ok'
            if accepted != bool(spec_ok):
                fail('outcome', '%s: implementation %s, dictionary model %s' % (_plain(op), st['oc'], 'accepts' if spec_ok else 'refuses'))
            elif spec_diff:
                fail('content', '%s: content after the call differs from the dictionary model (collections mask %d)' % (_plain(op), spec_diff))
            elif accepted and any(a or b for a, b in st['diff'][:10]):
                nontrivial.add(json.dumps(_plain(op), sort_keys=True, default=str))
    if to_judge:
        implementation_verdicts(rep, to_judge, I, header, raw0)
    rep.cov['evaluations'] += n_steps
    rep.cov['distinct_nontrivial'] += len(nontrivial)
    rep.cov['rule'] = ('random histories of the 22 public functions over 1-3 fresh db_create files (uploads with/without overwrite and auto-insert, '
                       'deletions by name/object/id/retrieved object, retrievals with/without criteria, duplicates, absent items, None / numeric-looking '
                       'text / list / zero-like (0, 0.0, -0.0, empty string, False) values) + stores holding more isotherms than one and than two batches of the '
                       'batch size found in the source (retrieved with and without criteria, counted against rows read through an independent connection, '
                       'deleted through retrieved objects of the last batch); text values that look like another type (spellings of true / false / None / nan / inf, hex, '
                       'digit separators, decimal comma, container literals, the storage tokens TRUE / FALSE) as properties of adsorbates, materials and isotherms: what '
                       'comes back must be the same str; after every refused call the session registries must still hold what they held + uploads refused part-way by Python-level code (unbindable property / metadata '
                       'values of 3 exception classes, extra data columns of int / bool / str / float / big-int elements, non-isotherm arguments, '
                       'unbindable arguments of deletions / retrievals / type uploads), alone and inside random histories; non-trivial = distinct accepted operations that changed a table, agreed with the '
                       'model on every row and were accepted with equal content by the dictionary model')
    d = rep.cov.setdefault('input_distribution', {})
    for k, v in hist.items():
        d[k] = d.get(k, 0) + v
    rep.cov['histories'] = rep.cov.get('histories', 0) + len(runs)
    rep.cov['correspondence'] = {'steps': n_steps, 'disagreements': n_dis,
                                 'what': 'Db/DbModel.v executed by vm_compute vs pygaps.parsing.sqlite: outcome class, number of execute calls, '
                                         'row-level change of all 10 tables + 2 registries, AUTOINCREMENT counters, *_from_db results, after every call'}
    for r in runs[:3]:
        rep.cov['samples'].append({'files': r['nfiles'], 'ops': ['%s->%s' % (s['op']['k'], s['oc']) for s in r['steps']][:12]})


def _plain(op):
    return {k: (v if not hasattr(v, 'iso_id') else '<isotherm %s>' % v.iso_id) for k, v in op.items()}


def run(rep, tier, seed):
    vlib.standard_proof_phase(rep, 'C08', extra_targets=EXTRA_TARGETS)
    explore(rep, tier, seed)
    if rep.broken and not rep.violations and tier != 'thorough':
        explore(rep, 'thorough', seed + 1, nh=400)
    rep.cov['trusted_base'] += ['SQLite / python sqlite3 (constraint enforcement, AUTOINCREMENT, transactions): modelled, compared row by row on every call',
                                'harness interning of strings and numbers; isotherm construction and iso_id (hash) are oracles']
    rep.assumptions += ['which Python values sqlite3 can bind is decided by the harness from the TYPE of the value (None, bool, int within 64 bits, float, UTF-8 encodable str); '
                        'the model then says where the call is refused and with which class - compared with the implementation on every such call',
                        'values are interned: numbers by their float value (3 and 3.0 are the same stored value)',
                        'theorems outcome_depends_on_target_file_only_partial / history_files_independent_partial exclude auto-inserting isotherm uploads (they read the registries)', ('refinement to the dictionary is PROVED for adsorbate / material upload, overwrite and deletion, type upload / overwrite / deletion, isotherm upload without auto-insert, isotherm deletion and the retrievals (under the invariant wf, '
                         'proved preserved by every operation and decided by evaluation for the initial content of this run); for isotherm uploads with auto-insert '
                         'it is checked per step inside Coq at run time'), 'the property names of one upload are distinct (keys of a Python dict)']


def replay(d):
    import logging
    logging.disable(logging.CRITICAL)
    r = d['replay']
    work = scratch_dir('c08_replay_%d' % os.getpid())
    im = Impl(work)
    I = Intern()
    try:
        lean = bool(r.get('start'))
        raw0 = raw_dump(im.lean if lean else im.template)
        H = r['ops']
        for op in H:
            op.pop('through', None)
        out = run_history(im, I, H, r['nfiles'], raw0, lean=lean)
        for st in out['steps']:
            print(_plain(st['op']), '->', st['oc'], 'statements', st['n'], 'checks', st['checks'])
    finally:
        im.close()
    print('kind of failure recorded:', r.get('kind'))
    return 1
