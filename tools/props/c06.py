"""C06 - JSON export and import are exact inverses.

proof phase   : Props/C06.v over the hand-written model Codec/JsonDoc.v (to_dict, isotherm_to_json, isotherm_from_json, the
                constructors) on top of the GENERATED tables Gen/TablesGen.v (attribute census, reserved lists, unit parameters,
                constructor argument names, file version, model parameter names)
correspondence: generated isotherms of the three classes; the state of the REAL object is abstracted to the model state; the model's
                export is compared inside Coq with the implementation's document (decoded by json), the model's import of that
                document with the state of the re-imported REAL object: outcome classes, unit labels, material and its properties,
                adsorbate, temperature, metadata key by key WITH TYPES, every cell, every branch mark, model dictionary
oracle/search : on the implementation alone: re-imported content == original content (typed), same identifier / ==, second export
                byte-equal, model predictions equal; string and file targets; HISTORIES: a random sequence of read-only queries (every
                public method / property discovered on the class except constructors, convert_*, plots) is performed on the isotherm
                BEFORE the export; document, to_dict keys and identifier must equal those of an untouched twin built from the same
                arguments, and the re-imported isotherm must have the content (metadata keys!) of the used one
"""
import contextlib
import copy
import json
import os
import random

import numpy as np

import vlib
from props import codec_common as cc
from props import codec_hist as ch

MANIFEST = dict(
    text="Machine-checked (Coq 8.16, axiom-free) round-trip theorem for the pyGAPS JSON codec on a hand-written model of to_dict / "
         "isotherm_to_json / isotherm_from_json / the three constructors whose attribute census, reserved lists, unit parameters, "
         "constructor argument names and model parameter names are regenerated from the source on every run: for EVERY isotherm of the "
         "three classes with arbitrary metadata lists (keys outside the reserved names, values any tuple-free Python value) and arbitrary "
         "row lists, import(loads(dumps(export i))) = i exactly (labels, material and its properties, adsorbate, temperature, every metadata "
         "key/value/type, every cell, every branch mark, model name/parameters/ranges/rmse) and re-export reproduces the document; by "
         "induction over the metadata and row lists. Partial: holds when a desorption mark exists or the marks are what the branch guess "
         "yields (the other case is a proved counterexample), and says nothing about the identifier (C05: it depends on column dtype). "
         "Every run compares the model with the implementation on generated isotherms (document and re-imported state, typed, inside Coq) "
         "and judges the implementation by an independent round-trip oracle. Round 3: the model's to_dict is proved to be the interpretation of "
         "BaseIsotherm.to_dict as translated from the current source; a generated table lists the names every method of the three classes binds "
         "on the isotherm object, with theorems that the model's attribute census is closed under all methods, that every read-only query binds "
         "only names to_dict discards (and never writes the metadata dict), and that to_dict is independent of the values of discarded names - so "
         "a query before an export cannot change the document; per run, histories of discovered public queries are performed before the export "
         "and the document / to_dict keys / identifier are compared with an untouched twin, the re-imported metadata keys with the original's. "
         "Round 4: the translator reads the test of the constructor's unit-default loop (default only when the keyword is ABSENT - an explicit None "
         "label is kept) and the merge rule of the material setter (document values win over a registered namesake) and aborts on any other shape; "
         "per run, multi-step cases: 1-3 PERMANENT conversions (every target representation incl. relative pressure, fraction / percent loading, "
         "other material bases, degC) before the export, labels compared one by one; a material / adsorbate registered under the isotherm's name "
         "with other property values while the document is imported; in-place edits of every mutable object the imported copy holds followed by "
         "a second import of the same text, which must equal the first.",
    note="Trusted: Coq kernel; the json library (contract loads(dumps v) = v with tuples turned into lists, up to key order), pandas "
         "DataFrame.from_dict / to_dict(orient='index') for rectangular rows, the adsorbate registry (canonical name, idempotent), the label "
         "tables (same labels are re-checked), a registered material namesake having the document's property keys (extra keys of a namesake are not judged); tools/py2v_tables.py; the abstraction "
         "function of the harness (object state -> model state).",
    technique="Coq proof by induction over metadata/row lists on a model tied to source by generated tables and per-run correspondence in Coq")

SCR = os.path.join(vlib.VERIF, '.scratch')


def do_export(iso, target, k):
    from pygaps.parsing.json import isotherm_to_json
    if target == 'file':
        os.makedirs(SCR, exist_ok=True)
        path = os.path.join(SCR, 'c06_%d_%d.json' % (os.getpid(), k))
        isotherm_to_json(iso, path)
        s = open(path, encoding='utf-8').read()
        return s, path
    return isotherm_to_json(iso), None


def run_case(spec, k, target, hist_seed=None):
    import warnings
    with warnings.catch_warnings():
        warnings.simplefilter('ignore')      # numpy RuntimeWarnings of model formulas at extreme parameters are not our business
        return _run_case(spec, k, target, hist_seed)


def _run_case(spec, k, target, hist_seed=None):
    """-> dict with everything observed on the implementation. hist_seed: perform a reproducible random history of read-only
    queries on the isotherm BEFORE anything is observed or exported, and export an untouched twin for comparison"""
    from pygaps.parsing.json import isotherm_from_json, isotherm_to_json
    r = dict(spec=spec, target=target)
    iso = cc.build(spec)
    if spec.get('convert'):
        # permanent conversions BEFORE the export (the stored labels are then what the conversion left, e.g. loading_unit None)
        r['converted'] = ch.apply_conversions(iso, spec['convert'])
    if hist_seed is not None:
        twin = cc.build(spec)
        if spec.get('convert'):
            ch.apply_conversions(twin, spec['convert'])
        r['hist_seed'] = hist_seed
        r['queries'] = cc.run_queries(iso, random.Random(hist_seed))
        tw = {}
        try:
            tw['doc'] = isotherm_to_json(twin)
            tw['keys'] = sorted(twin.to_dict())
            tw['id'] = twin.iso_id
            tw['attrs'] = sorted(vars(twin))
        except Exception as e:  # noqa
            tw['raised'] = vlib.exn_class(e)
        r['twin'] = tw
        try:
            r['keys'] = sorted(iso.to_dict())
            r['attrs'] = sorted(vars(iso))
        except Exception as e:  # noqa
            r['keys'] = 'raised ' + vlib.exn_class(e)
    r['o0'] = cc.observe(iso)
    r['id0'] = iso.iso_id
    pk, lk = (r['o0'].get('pk', 'pressure'), r['o0'].get('lk', 'loading'))
    r['pk'], r['lk'] = pk, lk
    path = None
    try:
        s, path = do_export(iso, target, k)
        r['exp'] = 'Ok'
        r['doc'] = s
    except Exception as e:  # noqa
        r['exp'] = vlib.exn_class(e)
        r['exp_msg'] = str(e)[:200]
        return r
    # a material / adsorbate registered under the same name with OTHER property values while the document is imported
    ctx = ch.namesake(r['o0'], random.Random(spec['namesake'])) if spec.get('namesake') else contextlib.nullcontext()
    try:
        with ctx as ns:
            if ns is not None:
                r['registered'] = ns.props
            j = isotherm_from_json(path if path else s, pressure_key=pk, loading_key=lk)
            r['imp'] = 'Ok'
            if spec.get('reimport'):
                # edit the imported copy in place, import the same text again: the second import must be the original
                snap = copy.deepcopy(cc.observe(j))
                r['id1'] = j.iso_id
                r['eq'] = bool(j == iso)
                try:
                    r['doc2'] = isotherm_to_json(j)
                except Exception as e:  # noqa
                    r['doc2'] = 'raised ' + vlib.exn_class(e)
                r['edits'] = ch.edit_in_place(j, random.Random(spec['reimport']))
                j2 = isotherm_from_json(path if path else s, pressure_key=pk, loading_key=lk)
                r['o2'] = cc.observe(j2)
                r['o1'] = snap
                r['reimport_diff'] = content_diff(snap, r['o2'])
                return r
    except Exception as e:  # noqa
        r['imp'] = vlib.exn_class(e)
        r['imp_msg'] = str(e)[:200]
        return r
    finally:
        if path:
            try:
                os.remove(path)
            except OSError:
                pass
    r['o1'] = cc.observe(j)
    r['id1'] = j.iso_id
    r['eq'] = bool(j == iso)
    try:
        r['doc2'] = isotherm_to_json(j)
    except Exception as e:  # noqa
        r['doc2'] = 'raised ' + vlib.exn_class(e)
    if spec['cls'] == 'model':
        ps = [0.01, 0.5, 1.0, 7.3]
        def pred(x):
            out = []
            fn = x.model.loading if x.model.calculates == 'loading' else x.model.pressure   # the closed formula, no solver
            for p in ps:
                try:
                    out.append(float(fn(p)))
                except Exception as e:  # noqa
                    out.append(type(e).__name__)
            return out
        a, b = pred(iso), pred(j)
        r['pred_same'] = all((x == y) or (isinstance(x, float) and isinstance(y, float) and x != x and y != y) for x, y in zip(a, b))
    return r


def content_diff(o0, o1):
    """first difference between the observable content of two isotherms (typed), or None. Route items (dtype, index, column
    order, caches) are NOT content."""
    if o0['cls'] != o1['cls']:
        return ('class', o0['cls'], o1['cls'])
    for f in ('units', 'material', 'adsorbate', 'temperature'):
        if not cc.same_value(o0[f], o1[f]):
            return (f, o0[f], o1[f])
    d = cc.first_diff(o0['mprops'], o1['mprops'])
    if d:
        return ('material property',) + d
    d = cc.first_diff(o0['meta'], o1['meta'])
    if d:
        return ('metadata',) + d
    if o0['cls'] == 'point':
        if len(o0['rows']) != len(o1['rows']):
            return ('rows', len(o0['rows']), len(o1['rows']))
        for n, ((c0, b0), (c1, b1)) in enumerate(zip(o0['rows'], o1['rows'])):
            if b0 != b1:
                return ('branch', n, b0, b1)
            d = cc.first_diff(c0, c1)
            if d:
                return ('cell', n) + d
    if o0['cls'] == 'model':
        m0, m1 = o0['model'], o1['model']
        if m0['name'] != m1['name'] or not cc.same_value(m0['rmse'], m1['rmse']) or cc.first_diff(m0['params'], m1['params']):
            return ('model', m0, m1)
        if not cc.same_value(list(m0['prange']), list(m1['prange'])) or not cc.same_value(list(m0['lrange']), list(m1['lrange'])):
            return ('model range', m0, m1)
        if o0['mbranch'] != o1['mbranch']:
            return ('model branch', o0['mbranch'], o1['mbranch'])
    return None


def history_diff(r):
    """an isotherm that was only QUERIED must export like an untouched twin built from the same arguments
    -> (short class of the difference, description) or None"""
    tw = r['twin']
    if 'raised' in tw or r['exp'] != 'Ok':
        if ('raised' in tw) != (r['exp'] != 'Ok'):
            return ('export-outcome', 'the export %s while the export of an untouched twin %s' % (
                'raised ' + r['exp'] if r['exp'] != 'Ok' else 'succeeded', 'raised ' + tw['raised'] if 'raised' in tw else 'succeeded'))
        return None
    if r.get('keys') != tw['keys']:
        a, b = r.get('keys'), tw['keys']
        if isinstance(a, list):
            return ('to_dict-keys', 'to_dict() has keys %s more / %s fewer than an untouched twin (instance attributes: %s more)' % (
                [k for k in a if k not in b], [k for k in b if k not in a], [k for k in r.get('attrs', []) if k not in tw.get('attrs', [])]))
        return ('to_dict-keys', 'to_dict() %s' % a)
    if r['doc'] != tw['doc']:
        try:
            da, db = json.loads(r['doc']), json.loads(tw['doc'])
            ks = [k for k in list(da) + [k for k in db if k not in da] if k not in da or k not in db or da[k] != db[k]]
        except Exception:  # noqa
            ks = '?'
        return ('document', 'the exported document differs from the document of an untouched twin in %s' % (ks,))
    if r['id0'] != tw['id']:
        return ('identifier', 'the identifier %s differs from the identifier %s of an untouched twin' % (r['id0'], tw['id']))
    return None


def guess_would_differ(o0):
    """the all-adsorption marks are not what a fresh branch guess yields <=> the pressure maximum is not the last point
    (only used to CLASSIFY an observed change of marks, never to predict one)"""
    ps = [c[o0['pk']] for c, _ in o0['rows']]
    k = max(range(len(ps)), key=lambda i: (ps[i], -i))
    return k != len(ps) - 1


def dclass(d):
    """how hash_pandas_object sees a column dtype: all int widths and bool alike, floats, objects/text"""
    d = str(d)
    return 'i' if d.startswith(('int', 'uint', 'bool')) else 'f' if d.startswith('float') else 'o'


def classify(r, kind, diff=None):
    spec, o0, o1 = r['spec'], r['o0'], r.get('o1')
    if kind == 'content' and diff and diff[0] == 'branch' and o0['cls'] == 'point':
        if not any(b for _, b in o0['rows']) and guess_would_differ(o0):
            return 'C06:no-desorption-mark-branches-reguessed'
    if kind == 'id' and o0['cls'] == 'point' and o1 is not None:
        dt0, dt1 = {c: dclass(d) for c, d in o0['dtypes'].items()}, {c: dclass(d) for c, d in o1['dtypes'].items()}
        others = [c for c in dt0 if c != 'branch' and dt0[c] != dt1.get(c)]
        if others:
            return 'C06:id-differs:column-dtype:%s->%s' % (dt0[others[0]], dt1.get(others[0]))
        if dt0['branch'] != dt1['branch']:
            return 'C06:id-differs:branch-column-dtype'
        if o0['index'] != o1['index']:
            return 'C06:id-differs:row-labels'
        if o0['columns'] != o1['columns']:
            return 'C06:id-differs:column-order'
    if kind == 'export-raised' and o0['cls'] == 'point' and len(set(map(str, o0['index']))) < len(o0['index']):
        return 'C06:duplicate-row-labels-export-ValueError'
    return 'C06:unclassified:%s:%s' % (kind, (diff[0] if diff else r.get('exp') if kind == 'export-raised' else r.get('imp', '')))


def replay_dict(r, kind, extra=None):
    d = {'spec': r['spec'], 'target': r['target'], 'kind': kind}
    if r.get('hist_seed') is not None:
        d['hist_seed'] = r['hist_seed']
        d['queries'] = r.get('queries')
    if extra:
        d['detail'] = str(extra)[:400]
    return d


def gen_specs(tier, seed):
    rnd = random.Random(seed)
    n = 3000 if tier == 'thorough' else 330
    specs = [cc.gen_spec(rnd, 'json') for _ in range(n)]
    # falsy but meaningful values in every exported model field (own random stream: the generated specs above stay what they were)
    r2 = random.Random('c06-falsy/%d' % seed)
    for s in specs:
        if s['cls'] == 'model' and r2.random() < 0.4:
            m = s['model']
            for p in list(m['params']):
                if r2.random() < 0.4:
                    m['params'][p] = r2.choice([0.0, 0.0, 0, -0.0])
            if r2.random() < 0.5:
                m['rmse'] = r2.choice([0.0, 0])
            if r2.random() < 0.5:
                m['prange'] = r2.choice([(0.0, 0.0), (0, 0), (0.0, m['prange'][1]), [0.0, 0.0]])
            if r2.random() < 0.5:
                m['lrange'] = r2.choice([(0.0, 0.0), (0, 0), (0, m['lrange'][1])])
    # directed cases: user-assigned all-adsorption on non-monotonic data, all-desorption, one point, shifted row labels
    for k in range(12 if tier == 'quick' else 60):
        s = cc.gen_spec(rnd, 'json', cls='point')
        d = s['data']
        if k % 4 == 0:
            d['p'] = [1.0, 3.0, 2.0, 2.5][:max(3, min(4, len(d['p'])))] if True else d['p']
            d['l'] = [1.0, 2.0, 3.0, 4.0][:len(d['p'])]
            d['cols'] = {}
            d['branch'] = 'ads'
        elif k % 4 == 1:
            d['branch'] = 'des'
        elif k % 4 == 2:
            d['p'], d['l'], d['cols'] = d['p'][:1], d['l'][:1], {c: v[:1] for c, v in d['cols'].items()}
            d['branch'] = 'guess'
        else:
            d['via'] = 'frame'
            d['index'] = list(range(5, 5 + len(d['p'])))
        specs.append(s)
    # row labels are not part of the model: a frame with duplicate labels is judged by the property oracle only
    s = cc.gen_spec(rnd, 'json', cls='point')
    d = s['data']
    d['p'], d['l'], d['cols'], d['branch'], d['via'] = [1.0, 2.0, 3.0], [1.0, 2.0, 3.0], {}, 'ads', 'frame'
    d['index'] = [0, 0, 1]
    s['nomodel'] = True
    specs.append(s)
    return specs


def gen_multistep_specs(tier, seed):
    """multi-step scenarios around one export: permanent conversions before it (every target representation), a registered
    namesake of the material / adsorbate with other property values during the import, an in-place edit of the imported copy
    followed by a second import of the same text"""
    rnd = random.Random(seed * 6007 + 29)
    n = 900 if tier == 'thorough' else 120
    out = []
    for k in range(n):
        kind = ('convert', 'namesake', 'reimport', 'convert')[k % 4]
        s = cc.gen_spec(rnd, 'json', cls='point' if kind == 'convert' and k % 8 else rnd.choice(['point', 'model', 'base']))
        if kind == 'convert':
            if s['cls'] == 'point':
                s['adsorbate'] = rnd.choice(['N2', 'nitrogen', 'CO2', 'water'])      # conversions need adsorbate properties
                s['mprops'].setdefault('density', 2.1)
                s['mprops'].setdefault('molar_mass', 60.08)
                if rnd.random() < 0.6:
                    s['data']['cols'] = {}
                    s['data']['branch'] = rnd.choice(['guess', 'ads'])      # (desorption marks: known finding C06-F1 hides the identifier)
            s['convert'] = ch.gen_conversions(rnd, s)
        elif kind == 'namesake':
            if rnd.random() < 0.8 and not s['mprops']:
                s['mprops'] = ch.typed_mprops(rnd)
            s['namesake'] = 'c06-ns/%d/%d' % (seed, k)
        else:
            if rnd.random() < 0.7:
                s['meta'][rnd.choice(['cycles', 'tags', 'history'])] = rnd.choice([[1, 2, 3], ['a', 'b'], [0.5], {'a': [1, 2], 'b': {'c': 1}}, [[1, 2], [3]]])
            if rnd.random() < 0.4:
                s['mprops']['composition'] = rnd.choice([['Cu', 'BTC'], {'Cu': 3, 'BTC': [2]}])
            s['reimport'] = 'c06-re/%d/%d' % (seed, k)
        out.append(s)
    return out


def gen_history_specs(tier, seed):
    """isotherms that are QUERIED before they are exported: (spec, seed of the query history)"""
    rnd = random.Random(seed * 7919 + 11)
    n = 900 if tier == 'thorough' else 100
    out = []
    for k in range(n):
        s = cc.gen_spec(rnd, 'json', cls=rnd.choice(['point', 'point', 'point', 'point', 'model', 'model', 'base']))
        if s['cls'] == 'point' and k % 3 == 0:
            s['data']['cols'] = {}           # plain pressure / loading tables are what most queries accept
        out.append((s, 'c06-hist/%d/%d' % (seed, k)))
    return out


def run(rep, tier, seed):
    vlib.standard_proof_phase(rep, 'C06', extra_targets=['Codec/JsonShow.vo'])
    explore(rep, tier, seed)
    if rep.broken and not rep.violations and tier != 'thorough':
        explore(rep, 'thorough', seed + 1)


def explore(rep, tier, seed):
    specs = gen_specs(tier, seed)
    results = []
    skipped = 0
    for k, spec in enumerate(specs):
        try:
            results.append(run_case(spec, k, 'file' if k % 4 == 3 else 'string'))
        except Exception as e:  # noqa  (the generator produced something the constructor refuses: not a codec case)
            skipped += 1
            if skipped > len(specs) // 20:
                raise
    n_hist = 0
    for k, (spec, hs) in enumerate(gen_history_specs(tier, seed)):
        try:
            results.append(run_case(spec, len(specs) + k, 'file' if k % 4 == 3 else 'string', hist_seed=hs))
            n_hist += 1
        except Exception:  # noqa
            skipped += 1
    n_multi = 0
    for k, spec in enumerate(gen_multistep_specs(tier, seed)):
        try:
            results.append(run_case(spec, 100000 + k, 'file' if k % 3 == 2 else 'string'))
            n_multi += 1
        except Exception:  # noqa
            skipped += 1
    # ---------------- correspondence (model executed in Coq)
    tbl = cc.ads_canon_table()
    terms = []
    results_all = results
    results = [r for r in results_all if not r['spec'].get('nomodel')]
    for r in results:
        o0 = r['o0']
        # the state of an isotherm that was queried: same content, interpolator caches possibly filled (opaque objects)
        ca = tuple('VOpaque' if f else 'VNone' for f in o0.get('caches', (False, False)))
        if r['exp'] != 'Ok':
            terms.append('(chk_json %s %s %s %s (%d)%%Z VNone 0%%Z %s)' % (tbl, cc.coq_iso(o0, ca), cc.cstr(r['pk']), cc.cstr(r['lk']),
                                                                          vlib.EXN.index(r['exp']) if r['exp'] in vlib.EXN else 99, cc.coq_iso(o0)))
            continue
        doc = json.loads(r['doc'])
        imp = r['imp']
        terms.append('(chk_json %s %s %s %s 0%%Z %s (%d)%%Z %s)' % (
            tbl, cc.coq_iso(o0, ca), cc.cstr(r['pk']), cc.cstr(r['lk']), cc.cval(doc),
            vlib.EXN.index(imp) if imp in vlib.EXN else 99, cc.coq_iso(r['o1'] if imp == 'Ok' else o0)))
    model = None
    try:
        model = vlib.run_coq_cases('c06m', cc.HEADER + 'From PG Require Import Codec.JsonShow.\n', 'fun x : list Z => x', terms, per_file=40, nested=True)
    except RuntimeError as e:
        rep.broken_obligation('correspondence:JsonDoc-evaluation', str(e)[-800:])
    n_dis = 0
    FIELDS = ['units', 'material name', 'material properties', 'adsorbate', 'temperature', 'metadata', 'class', 'cells', 'branch marks', 'model', 'keys']
    if model is not None:
        for r, mz in zip(results, model):
            bad = None
            if mz[1] != 1:
                bad = 'export outcome: model %s, implementation %s' % (vlib.EXN[mz[0]], r['exp'])
            elif mz[0] == 0:
                if mz[2] != 1:
                    bad = 'exported document differs from the model document'
                elif mz[4] != 1:
                    bad = 'import outcome: model %s, implementation %s' % (vlib.EXN[mz[3]], r['imp'])
                elif mz[3] == 0:
                    wrong = [FIELDS[i] for i, v in enumerate(mz[5:]) if v != 1]
                    if wrong:
                        bad = 're-imported state differs from the model in: ' + ', '.join(wrong)
            if bad:
                n_dis += 1
                if n_dis <= 5:
                    rep.broken_obligation('correspondence:JsonDoc-vs-implementation', {'what': bad, 'spec': r['spec']})
    # ---------------- property oracle on the implementation
    hist = {}
    nontrivial = set()
    results = results_all
    n_q = {}
    for r in results:
        spec, o0 = r['spec'], r['o0']
        key = spec['cls'] + ('+queries' if 'twin' in r else '')
        if 'twin' in r:
            for q in r['queries']:
                q = q.split('(')[0] + (' -> raised' if ' -> ' in q else '')
                n_q[q] = n_q.get(q, 0) + 1
            bad = history_diff(r)
            if bad:
                rep.failure('C06:unclassified:queries-before-export:%s' % bad[0],
                            'after the read-only queries %s %s' % (r['queries'], bad[1]), replay_dict(r, 'queries-before-export', bad[1]))
                hist[key + '/differs-from-untouched-twin'] = hist.get(key + '/differs-from-untouched-twin', 0) + 1
                continue
        if r['exp'] != 'Ok':
            tag = classify(r, 'export-raised')
            rep.failure(tag, 'export raised %s: %s' % (r['exp'], r.get('exp_msg')), replay_dict(r, 'export-raised'))
            hist[key + '/export-raised'] = hist.get(key + '/export-raised', 0) + 1
            continue
        if r['imp'] != 'Ok':
            tag = classify(r, 'import-raised')
            rep.failure(tag, 'import of the exported document raised %s: %s' % (r['imp'], r.get('imp_msg')), replay_dict(r, 'import-raised'))
            hist[key + '/import-raised'] = hist.get(key + '/import-raised', 0) + 1
            continue
        hist[key + '/' + r['target']] = hist.get(key + '/' + r['target'], 0) + 1
        d = content_diff(o0, r['o1'])
        for tagk in ('convert', 'namesake', 'reimport'):
            if spec.get(tagk):
                hist[key + '/+' + tagk] = hist.get(key + '/+' + tagk, 0) + 1
        if d:
            how = ('after-permanent-conversion:' if spec.get('convert') and d[0] == 'units' else '') + ('registered-namesake:' if spec.get('namesake') and d[0].startswith('material') else '')
            tag = classify(r, 'content', d)
            if how and tag.startswith('C06:unclassified:content:'):
                tag = 'C06:unclassified:content:' + how + d[0]
            what = 're-imported isotherm differs from the original in %s' % (d,)
            if d[0] == 'units':
                what += '; labels one by one (exported -> re-imported): %s' % ', '.join('%s: %r -> %r' % (n, a, b) for n, a, b in zip(cc.UNIT_ORDER, o0['units'], r['o1']['units']) if a != b)
            if spec.get('convert'):
                what += '; permanent conversions before the export: %s' % (r.get('converted'),)
            if spec.get('namesake'):
                what += '; while importing, pygaps.MATERIAL_LIST held a material of the same name with properties %s' % (r.get('registered'),)
            rep.failure(tag, what, replay_dict(r, 'content', d))
            continue
        if spec.get('reimport') and r.get('reimport_diff'):
            rep.failure('C06:unclassified:second-import-after-in-place-edit:%s' % r['reimport_diff'][0],
                        'the imported isotherm was edited in place (%s); importing the SAME document again gives an isotherm that differs from the first import in %s' % (
                            r.get('edits'), r['reimport_diff']), replay_dict(r, 'reimport', r['reimport_diff']))
            continue
        if spec['cls'] == 'model' and not r.get('pred_same', True):
            rep.failure(classify(r, 'predictions'), 're-imported model predicts other loadings', replay_dict(r, 'predictions'))
        if not r['eq'] or r['id0'] != r['id1']:
            rep.failure(classify(r, 'id'), 'content is equal but the identifier differs after a JSON round trip (%s vs %s)' % (r['id0'], r['id1']),
                        replay_dict(r, 'id', {'dtypes': (o0.get('dtypes'), r['o1'].get('dtypes')), 'columns': (o0.get('columns'), r['o1'].get('columns'))}))
        if r['doc2'] != r['doc']:
            rep.failure(classify(r, 'second-export'), 'exporting the re-imported isotherm does not reproduce the document', replay_dict(r, 'second-export'))
        nontrivial.add((spec['cls'], tuple(sorted((k, type(v).__name__) for k, v in o0['meta'].items())), len(o0.get('rows', [])),
                        tuple(o0['units']), tuple(sorted(o0.get('dtypes', {}).items()))))
    rep.cov['evaluations'] += len(results)
    rep.cov['distinct_nontrivial'] = len(nontrivial)
    rep.cov['rule'] = ('generated isotherms: class {base, point x3, model} x unit configuration (relative / fraction forced in 30%) x 1-40 points x '
                       'branch {guess, ads, des, int list, bool list} x extra float/int/bool/text columns x custom key names x metadata from a '
                       'structured generator (unicode, text spelled like numbers/booleans/None/lists, ints incl. negative and > 2^53, floats incl. '
                       '1e-320 and 1e308, bools, None, lists, nested dicts) x string/file target, plus directed cases. non-trivial = distinct '
                       '(class, typed metadata shape, number of rows, unit labels, column dtypes) whose round trip preserved the content; multi-step cases: '
                       '{1-3 permanent conversions before the export | registered namesake of the material (same keys, other values) and of an unknown adsorbate '
                       'during the import | in-place edit of the imported copy then second import of the same text}; model isotherms: 70% built by assigning '
                       'parameters / ranges / fit error as attributes of a fresh model instance (as a fit does), 30% through the model constructor; 40% of '
                       'them with falsy values (0, 0.0, -0.0, (0, 0)) in parameters, ranges and fit error')
    rep.cov['query_histories'] = {'cases': n_hist, 'queries_performed': dict(sorted(n_q.items())),
                                  'rule': 'every public method / property found on the class except from_* / guess / convert* / plot / print_info / '
                                          'to_xl / to_db, 1-6 per history with drawn optional arguments (branch, units of the returned value, '
                                          'limits, interpolation options, scalar / list arguments), then export; compared with an untouched twin'}
    rep.cov['multi_step_cases'] = n_multi
    rep.cov['input_distribution'] = dict(sorted(hist.items()), skipped_by_constructor=skipped)
    rep.cov['correspondence'] = {'cases': len(results), 'disagreements': n_dis,
                                 'what': 'model export vs implementation document; model import vs state of the re-imported object (typed, compared inside Coq)'}
    rep.cov['samples'] += [{'spec': str(results[i]['spec'])[:600], 'export': results[i]['exp'], 'import': results[i].get('imp'), 'equal': results[i].get('eq')}
                           for i in (0, len(results) // 2, len(results) - 1)]
    rep.cov['trusted_base'] += ['translator tools/py2v_tables.py (pure data)', 'oracle: json.dumps/loads, pandas from_dict/to_dict for rectangular rows',
                                'oracle: adsorbate registry (canonical names), label tables of C01/C02',
                                'abstraction function tools/props/codec_common.py observe/coq_iso']
    rep.assumptions += ['metadata keys are not reserved constructor parameter names (property text)',
                        'a material registered under the same name has the property keys of the document (extra keys of the registered one are not judged)',
                        'dict key order is not content (Python ==)']


def replay(d):
    import logging
    logging.disable(logging.CRITICAL)
    r = run_case(d['replay']['spec'], 0, d['replay'].get('target', 'string'), hist_seed=d['replay'].get('hist_seed'))
    if 'twin' in r:
        print('read-only queries performed before the export:', r['queries'])
        print('difference to an untouched twin:', history_diff(r))
    print('export:', r['exp'], r.get('exp_msg', ''))
    if r['exp'] == 'Ok':
        print('document:', r['doc'][:1500])
        print('import:', r.get('imp'), r.get('imp_msg', ''))
    if r.get('imp') == 'Ok':
        print('content difference:', content_diff(r['o0'], r['o1']))
        print('identifier:', r['id0'], r['id1'], '==' if r['eq'] else '!=')
        print('dtypes:', r['o0'].get('dtypes'), '->', r['o1'].get('dtypes'))
        print('second export byte-equal:', r['doc2'] == r['doc'])
    print('kind of failure recorded:', d['replay'].get('kind'))
    return 1
