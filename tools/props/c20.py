"""C20 - shipped adsorbates resolve uniquely; their thermodynamic data are consistent.

proof phase   : Props/C20.v. Registry data GENERATED from data/adsorbates.json + data/default.db (tools/py2v_adsorbates.py ->
                Gen/AdsorbatesGen.v), property methods GENERATED from core/adsorbate.py (tools/py2v_adsmethods.py ->
                Gen/AdsMethodsGen.v); alias normalisation / __eq__ / find / setter hand-written (Registry/Adsorbates.v).
correspondence: (a) the implementation's ADSORBATE_LIST vs the model's registry (from the database AND from the JSON list);
                (b) Adsorbate.find on every alias in four letter cases + unknown strings vs `find_index reg_db` (in Coq);
                (c) Adsorbate(name, alias=...) on synthetic inputs vs norm_alias / eq_str;
                (d) every property method on shipped and synthetic adsorbates vs the generated method fed with the raw
                    CoolProp reads (oracle), compared inside Coq.
oracle/search : on the implementation: every alias x case variant resolves to its adsorbate and to exactly one; isotherms
                created with the string are linked to it; JSON list == database; for backend adsorbates x temperatures in
                (T_triple, T_critical): density consistency, p_triple <= p_sat <= p_critical, monotone, h_vap > 0, unit argument
                (against the SI spec evaluated in Coq); without backend: dictionary value or CalculationError.
"""
import json
import math
import os
import random

import vlib
from vlib import flit, fme

MANIFEST = dict(
    text="Machine-checked (Coq 8.16): for ALL registries and ALL strings, Adsorbate.find depends only on the lower-cased string, returns the "
         "first match, and returns adsorbate a (and the isotherm setter links to a) whenever the lower-cased string is an alias of exactly "
         "one adsorbate; a constructed adsorbate answers to its own name in any case. For THIS tree (176 adsorbates, 817 alias strings, 81 "
         "with backend; data regenerated from adsorbates.json and default.db on every run) exhaustively by vm_compute: JSON list and database "
         "agree after normalisation, names distinct, all ASCII, every name and every alias in any letter case resolves to its adsorbate "
         "(find AND the isotherm setter) and designates only it - no string exempted (alias_resolves, name_resolves, alias_unique, "
         "string_designates_at_most_one; the former collision 'cyclopentane' is fixed in the data). "
         "Thermodynamic half, partial: the 12 property methods are regenerated from adsorbate.py and proved equal to a hand-written "
         "three-way spec (backend value x SI factor | user property x factor | CalculationError - no fourth outcome), the unit argument is "
         "c_unit from Pa (= p / pa_per u for the 8 units, ParameterError otherwise), C01's adsorbate oracle is the generated method, and IF the "
         "backend satisfies rho_mass = rho_molar*M THEN liquid/gas density = molar density x molar mass (C01's ads_at hypothesis, so the C01 "
         "loading factor theorem applies to backend adsorbates). CoolProp's values themselves are an oracle: density consistency, "
         "p_triple <= p_sat <= p_critical, monotonicity and h_vap > 0 are VALIDATED on the 81 backend adsorbates, not proved.",
    note="Trusted: Coq kernel; Reals axioms for the thermodynamic theorems (registry theorems are axiom-free); translators py2v_adsorbates.py "
         "(validated against the loaded ADSORBATE_LIST) and py2v_adsmethods.py (validated by feeding raw CoolProp reads to the generated methods); "
         "hand-written normalisation/find model (validated on every alias x 4 cases + unknown strings + synthetic constructor calls); "
         "CoolProp (oracle); sqlite3/json loaders; ASCII lower-casing = str.lower on ASCII.",
    technique="Coq proof: exhaustive vm_compute over generated registry data lifted by forallb_forall + structural lemmas for all strings; "
              "generated method bodies vs three-way spec; implementation validated against the model inside Coq")

HEADER = """From Coq Require Import QArith ZArith String List Bool.
From PG Require Import Lib.Num Lib.Py Lib.Show Units.UnitsSpec Units.UnitsSpecQ Registry.AliasArg Gen.AdsorbatesGen Registry.Adsorbates Registry.Backend Gen.AdsMethodsGen Registry.AdsShow.
Import ListNotations. Open Scope string_scope.
"""
PUNITS = ["Pa", "kPa", "MPa", "mbar", "bar", "atm", "mmHg", "torr"]
METHOD_ORDER = ['molar_mass', 'p_triple', 't_triple', 'p_critical', 't_critical', 'saturation_pressure', 'surface_tension',
                'liquid_density', 'liquid_molar_density', 'gas_density', 'gas_molar_density', 'enthalpy_vaporisation(T)',
                'enthalpy_vaporisation(press)', 'enthalpy_liquefaction(T,press)', 'pressure_saturation', 'liquid_density(calculate=False)'] + \
               ['saturation_pressure(unit=%s)' % u for u in PUNITS + ['bogus']]


def cs(s):
    assert all(32 <= ord(c) < 127 for c in s), s
    return '"%s"' % s.replace('"', '""')


def cl(xs):
    return '[' + '; '.join(cs(x) for x in xs) + ']'


def shipped():
    """the registry as loaded at import time (before this process adds anything)"""
    from pygaps.data import ADSORBATE_LIST
    return list(ADSORBATE_LIST)


def call(fn, *a, **k):
    try:
        return ('Ok', fn(*a, **k))
    except Exception as e:  # noqa
        return (vlib.exn_class(e), None)


def variants(s, rnd):
    rc = ''.join(c.upper() if rnd.random() < 0.5 else c.lower() for c in s)
    return [s.lower(), s.upper(), s.title(), rc]


def classify_resolution(s):
    return 'C20:unclassified:resolution:%s' % s.lower()[:30]


# --------------------------------------------------------------------------------------------- registry
def registry_part(rep, tier, seed, L):
    import pygaps
    rnd = random.Random(seed)
    idx = {id(a): i for i, a in enumerate(L)}
    n_eval = 0
    nontrivial = set()
    hist = {}
    # (a) the loaded list vs the model's registry, from the database and from the JSON list
    impl_list = '[' + '; '.join('(%s, %s, %s)' % (cs(a.name), cl(a.alias), 'true' if a.properties.get('backend_name') is not None else 'false') for a in L) + ']'
    # (b) find on every alias x 4 cases + unknown strings
    strings = []
    for a in L:
        for al in a.alias:
            for v in variants(al, rnd):
                strings.append((v, idx[id(a)], al))
    unknown = ['', ' ', 'nitrogen ', ' nitrogen', 'nitrogenn', 'n 2', 'N-2', 'cyclo pentane', 'none', 'verif_not_an_adsorbate']
    alpha = 'abcdefghijklmnopqrstuvwxyzABCDEFGHIJKLMNOPQRSTUVWXYZ0123456789 ,-()'
    for _ in range(300 if tier == 'quick' else 3000):
        k = rnd.random()
        if k < 0.4:
            unknown.append(''.join(rnd.choice(alpha) for _ in range(rnd.randint(1, 12))))
        else:   # perturbation of a real alias: drop / double / swap a character
            al = rnd.choice(rnd.choice(L).alias)
            i = rnd.randrange(len(al))
            unknown.append(rnd.choice([al[:i] + al[i + 1:], al[:i] + al[i] + al[i:], al[::-1], al + rnd.choice(alpha)]))
    allstr = [s for s, _, _ in strings] + unknown
    impl_find = []
    for s in allstr:
        oc, r = call(pygaps.Adsorbate.find, s)
        impl_find.append(idx.get(id(r), -2) if oc == 'Ok' else (-1 if oc == 'ParameterError' else -3))
    # (c) synthetic constructor calls
    synth = []
    names = ['Verif One', 'verifTWO', 'V3', 'x', 'MiXeD caSe Name', 'a-b,c(d)']
    for n in names:
        for al in [None, n, n.upper(), 'other', 'OTHER Alias', [n.lower(), 'zz'], ['ZZ', 'Yy'], [], [n.swapcase()], ['b', 'B', 'b']]:
            synth.append((n, al))
    synth_terms, eq_terms, synth_impl, eq_impl = [], [], [], []
    for n, al in synth:
        a = pygaps.Adsorbate(n) if al is None else pygaps.Adsorbate(n, alias=list(al) if isinstance(al, list) else al)
        carg = 'ANone' if al is None else ('(AStr %s)' % cs(al) if isinstance(al, str) else '(AList %s)' % cl(al))
        synth_terms.append('(norm_cmp %s %s %s)' % (cs(n), carg, cl(a.alias)))
        for other in [n, n.upper(), n.lower(), 'zz', 'ZZ', 'Other', 'nope', '']:
            eq_terms.append('(eq_cmp %s %s %s)' % (cs(n), carg, cs(other)))
            eq_impl.append(1 if (a == other) else 0)
    terms = ['(reg_cmp %s)' % impl_list] + ['(fi %s)' % cs(s) for s in allstr] + synth_terms + eq_terms
    model = None
    try:
        model = vlib.run_coq_cases('c20r', HEADER, 'fun x : Z*Z => x', terms, per_file=400)
    except RuntimeError as e:
        rep.broken_obligation('correspondence:registry-evaluation', str(e)[-800:])
    n_dis = 0
    if model is not None:
        d_db, d_json = model[0]
        if d_db != -1:
            n_dis += 1
            i = min(d_db, len(L) - 1)
            rep.broken_obligation('correspondence:ADSORBATE_LIST-vs-generated-database-registry',
                                  {'first_difference_at_index': d_db, 'implementation': [L[i].name, L[i].alias]})
        if d_json != -1:
            n_dis += 1
            rep.broken_obligation('correspondence:ADSORBATE_LIST-vs-generated-json-registry', {'first_difference_at_index': d_json})
        mf = model[1:1 + len(allstr)]
        for s, got, (want, _) in zip(allstr, impl_find, mf):
            if got != want:
                n_dis += 1
                if n_dis <= 5:
                    rep.broken_obligation('correspondence:find-vs-model', {'string': s, 'implementation_index': got, 'model_index': want})
        ms = model[1 + len(allstr):1 + len(allstr) + len(synth_terms)]
        for (n, al), (ok, _) in zip(synth, ms):
            if ok != 1:
                n_dis += 1
                if n_dis <= 5:
                    rep.broken_obligation('correspondence:alias-normalisation-vs-model', {'name': n, 'alias': al})
        me = model[1 + len(allstr) + len(synth_terms):]
        for t, got, (want, _) in zip(eq_terms, eq_impl, me):
            if got != want:
                n_dis += 1
                if n_dis <= 5:
                    rep.broken_obligation('correspondence:__eq__-vs-model', {'term': t, 'implementation': got, 'model': want})
    n_eval += len(terms)
    # ---- property oracle on the implementation
    # every alias x case variant -> its adsorbate; designates exactly one adsorbate; isotherm linked
    for (s, want, al), got in zip(strings, impl_find[:len(strings)]):
        hist['find:' + ('hit' if got == want else 'miss')] = hist.get('find:' + ('hit' if got == want else 'miss'), 0) + 1
        if got != want:
            rep.failure(classify_resolution(s), 'Adsorbate.find(%r) returns %s, the string is an alias of %r' % (
                s, L[got].name if got >= 0 else 'ParameterError', L[want].name), {'kind': 'find', 'string': s, 'expected': L[want].name})
        else:
            nontrivial.add((want, al))
    owners = {}
    for i, a in enumerate(L):
        for al in set(a.alias):
            owners.setdefault(al, []).append(i)
    for al, own in sorted(owners.items()):
        n_eval += 1
        matches = [i for i, a in enumerate(L) if a == al]
        if len(matches) != 1 or len(own) != 1:
            rep.failure(classify_resolution(al), 'the string %r designates %d adsorbates: %s' % (al, len(matches), [L[i].name for i in matches]),
                        {'kind': 'unique', 'string': al, 'expected': 'exactly one'})
    link = strings if tier == 'thorough' else [strings[4 * k + rnd.randrange(4)] for k in range(len(strings) // 4)]
    for s, want, al in link:
        n_eval += 1
        oc, iso = call(pygaps.PointIsotherm, pressure=[1, 2], loading=[1, 2], material='verif_c20_m', adsorbate=s, temperature=300)
        ok = oc == 'Ok' and iso.adsorbate is L[want]
        if not ok:
            rep.failure(classify_resolution(s), 'PointIsotherm(adsorbate=%r).adsorbate is %s, expected the shipped adsorbate %r' % (
                s, oc if oc != 'Ok' else repr(iso.adsorbate), L[want].name), {'kind': 'link', 'string': s, 'expected': L[want].name})
    for s in unknown[:50]:
        if impl_find[len(strings) + unknown.index(s)] == -1:   # not a known name: the isotherm gets a fresh adsorbate of that name
            oc, iso = call(pygaps.PointIsotherm, pressure=[1, 2], loading=[1, 2], material='verif_c20_m', adsorbate=s, temperature=300)
            n_eval += 1
            if oc == 'Ok' and any(iso.adsorbate is a for a in L):
                rep.failure('C20:unclassified:unknown-string-linked', 'unknown adsorbate string %r was linked to %r' % (s, iso.adsorbate.name),
                            {'kind': 'link', 'string': s, 'expected': None})
    # JSON source list vs database list, on the implementation
    jpath = os.path.join(vlib.REPO_SRC, 'pygaps', 'data', 'adsorbates.json')
    J = json.load(open(jpath, encoding='utf8'))
    if len(J) != len(L):
        rep.failure('C20:unclassified:json-db-length', 'adsorbates.json has %d entries, the database %d' % (len(J), len(L)), {'kind': 'jsondb'})
    for d, a in zip(J, L):
        n_eval += 1
        b = pygaps.Adsorbate(**dict(d))
        if b.name != a.name or b.alias != a.alias or b.properties.get('backend_name') != a.properties.get('backend_name'):
            rep.failure('C20:unclassified:json-db-disagree:%s' % a.name, 'adsorbates.json entry %r and database entry %r differ (name / aliases / backend)' % (
                d.get('name'), a.name), {'kind': 'jsondb', 'string': a.name})
    rep.cov['registry'] = {'adsorbates': len(L), 'alias_strings': sum(len(a.alias) for a in L), 'find_calls': len(allstr), 'unknown_strings': len(unknown),
                           'isotherms_created': len(link), 'synthetic_constructor_calls': len(synth), 'disagreements_with_model': n_dis}
    return n_eval, nontrivial, hist


# --------------------------------------------------------------------------------------------- thermodynamics
def raw_reads(bn, T, P):
    """what CoolProp itself answers (a fresh state, not the adsorbate's), as the oracle table of Registry/AdsShow.v"""
    import CoolProp as CP
    reads = []
    if bn is None:
        return reads
    try:
        st = CP.AbstractState('HEOS', bn)
    except BaseException:  # noqa
        return reads

    def rd(name, code, f):
        try:
            v = float(f())
        except BaseException:  # noqa
            v = None
        reads.append((name, code, v))
    for n in ('molar_mass', 'Ttriple', 'p_critical', 'T_critical'):
        rd(n, 0, getattr(st, n))
    rd('PropsSI:PTRIPLE', 0, lambda: CP.CoolProp.PropsSI('PTRIPLE', bn))
    for code, args in ((1, (CP.QT_INPUTS, 0.0, T)), (2, (CP.QT_INPUTS, 1.0, T)), (3, (CP.PQ_INPUTS, P, 0.0)), (4, (CP.PQ_INPUTS, P, 1.0))):
        try:
            st.update(*args)
            ok = True
        except BaseException:  # noqa
            ok = False
        for n in ('p', 'surface_tension', 'rhomass', 'rhomolar', 'hmolar'):
            if ok:
                rd(n, code, getattr(st, n))
            else:
                reads.append((n, code, None))
    return reads


def run_methods(a, T, P):
    out = [call(a.molar_mass), call(a.p_triple), call(a.t_triple), call(a.p_critical), call(a.t_critical),
           call(a.saturation_pressure, T), call(a.surface_tension, T), call(a.liquid_density, T), call(a.liquid_molar_density, T),
           call(a.gas_density, T), call(a.gas_molar_density, T), call(a.enthalpy_vaporisation, T), call(a.enthalpy_vaporisation, press=P),
           call(a.enthalpy_liquefaction, T, P), call(a.pressure_saturation, T), call(a.liquid_density, T, calculate=False)]
    out += [call(a.saturation_pressure, T, unit=u) for u in PUNITS + ['bogus']]
    return out


def finite(x):
    return x is not None and isinstance(x, (int, float)) and math.isfinite(x)


def thermo_part(rep, tier, seed, L):
    import pygaps
    rnd = random.Random(seed + 1)
    cases = []   # (label, adsorbate, T, P)
    fracs = [0.1, 0.5, 0.9] if tier == 'quick' else [0.02, 0.1, 0.2, 0.3, 0.4, 0.5, 0.6, 0.7, 0.8, 0.9, 0.95, 0.99]
    backend_ads = [a for a in L if a.properties.get('backend_name') is not None]
    series = {}
    for a in backend_ads:
        tt, tc = call(a.t_triple), call(a.t_critical)
        if tt[0] != 'Ok' or tc[0] != 'Ok' or not (finite(tt[1]) and finite(tc[1]) and tt[1] < tc[1]):
            rep.failure('C20:unclassified:thermo:triple-critical:%s' % a.name, 't_triple/t_critical of %r: %r %r' % (a.name, tt, tc),
                        {'kind': 'thermo', 'adsorbate': a.name, 'T': None})
            continue
        fs = list(fracs) + ([rnd.uniform(0.01, 0.99)] if tier == 'quick' else [rnd.uniform(0.01, 0.99) for _ in range(3)])
        for f in sorted(fs):
            cases.append(('backend', a, tt[1] + f * (tc[1] - tt[1]), None))
        for T in ([1.2 * tc[1]] if tier == 'quick' else [1.2 * tc[1], 0.5 * tt[1], tc[1], tt[1]]):
            cases.append(('backend-out-of-range', a, T, None))
    for a in L:
        if a.properties.get('backend_name') is None:
            cases.append(('no-backend', a, 300.0, None))
    synth = [pygaps.Adsorbate('verif_c20_s1', backend_name='NITROGEN', saturation_pressure=12345.0, liquid_density=0.5),
             pygaps.Adsorbate('verif_c20_s2', molar_mass=10.0, p_critical=30.0, p_triple=0.5, enthalpy_liquefaction=5.5, t_triple=50.0),
             pygaps.Adsorbate('verif_c20_s3', backend_name='NOT_A_FLUID', saturation_pressure=2.5e4, gas_density=0.001, surface_tension=7.0),
             pygaps.Adsorbate('verif_c20_s4'),
             pygaps.Adsorbate('verif_c20_s5', backend_name='WATER', liquid_molar_density=0.05, gas_molar_density=1e-5, t_critical=1.0)]
    for a in synth:
        for T in (77.3, 300.0, 700.0):
            cases.append(('synthetic', a, T, None))
    terms, impls, readss = [], [], []
    for label, a, T, _ in cases:
        ps = call(a.saturation_pressure, T)
        P = ps[1] if ps[0] == 'Ok' and finite(ps[1]) and ps[1] > 0 else 101325.0
        impl = run_methods(a, T, P)
        reads = raw_reads(a.properties.get('backend_name'), T, P)
        props = [(k, float(v)) for k, v in a.properties.items() if isinstance(v, (int, float)) and not isinstance(v, bool) and math.isfinite(v)]
        exp = []
        for oc, v in impl:
            if oc == 'Ok' and finite(v):
                exp.append('((0)%%Z, (%d)%%Z, (%d)%%Z)' % fme(v))
            elif oc == 'Ok':
                exp.append('((98)%Z, 0%Z, 0%Z)')
            else:
                exp.append('((%d)%%Z, 0%%Z, 0%%Z)' % (vlib.EXN.index(oc) if oc in vlib.EXN else 99))
        rt = '[' + '; '.join('(%s, (%d)%%Z, %s)' % (cs(n), c, 'None' if (v is None or not math.isfinite(v)) else '(Some %s)' % flit(v)) for n, c, v in reads) + ']'
        pt = '[' + '; '.join('(%s, %s)' % (cs(k), flit(v)) for k, v in props) + ']'
        terms.append('(show_methods %s %s %s %s [%s])' % (flit(T), flit(P), rt, pt, '; '.join(exp)))
        impls.append(impl)
        readss.append(reads)
    model = None
    try:
        model = vlib.run_coq_cases('c20t', HEADER, 'fun x : list Z => x', terms, per_file=100, nested=True)
    except RuntimeError as e:
        rep.broken_obligation('correspondence:AdsMethodsGen-evaluation', str(e)[-800:])
    n_dis = 0
    hist = {}
    nontrivial = set()
    for ci, ((label, a, T, _), impl, reads) in enumerate(zip(cases, impls, readss)):
        rd = {(n, c): v for n, c, v in reads}
        for mi, (oc, v) in enumerate(impl):
            hist['%s/%s' % (label, oc)] = hist.get('%s/%s' % (label, oc), 0) + 1
            if model is not None and not (oc == 'Ok' and not finite(v)):
                code, ok = model[ci][2 * mi], model[ci][2 * mi + 1]
                if ok != 1:
                    n_dis += 1
                    if n_dis <= 5:
                        rep.broken_obligation('correspondence:property-method-vs-generated-model',
                                              {'adsorbate': a.name, 'T': T, 'method': METHOD_ORDER[mi], 'implementation': [oc, v],
                                               'model_outcome': vlib.EXN[code] if code < len(vlib.EXN) else code,
                                               'backend_reads': {'%s@%d' % k: x for k, x in rd.items()}})
            # never a silent wrong number: the outcome is a value or a CalculationError (ParameterError only for the bogus unit)
            allowed = ('Ok', 'CalculationError') if mi != len(impl) - 1 else ('ParameterError', 'CalculationError')
            if oc not in allowed:
                rep.failure('C20:unclassified:thermo:outcome:%s:%s' % (METHOD_ORDER[mi], oc),
                            '%s of %r at T=%r ends with %s (allowed: %s)' % (METHOD_ORDER[mi], a.name, T, oc, allowed),
                            {'kind': 'thermo', 'adsorbate': a.name, 'T': T, 'method': METHOD_ORDER[mi]})
        if label != 'backend':
            continue
        val = {METHOD_ORDER[i]: (impl[i][1] if impl[i][0] == 'Ok' and finite(impl[i][1]) else None) for i in range(len(impl))}

        def bad(clause, what):
            rep.failure('C20:unclassified:thermo:%s:%s' % (clause, a.name), '%r at T=%.6g K: %s' % (a.name, T, what),
                        {'kind': 'thermo', 'adsorbate': a.name, 'T': T, 'clause': clause})
        M, rl, rml, rg, rmg = (val[k] for k in ('molar_mass', 'liquid_density', 'liquid_molar_density', 'gas_density', 'gas_molar_density'))
        from_backend = all(rd.get(k) is not None for k in (('rhomass', 1), ('rhomolar', 1), ('rhomass', 2), ('rhomolar', 2), ('molar_mass', 0), ('p', 1)))
        if not from_backend:
            continue    # the backend could not answer here: the fallback clause (checked above) applies, not the consistency clause
        if None in (M, rl, rml, rg, rmg):
            bad('value-missing', 'backend answers but a density / molar mass method gives no value')
            continue
        if abs(rl - rml * M) > 1e-9 * abs(rl):
            bad('liquid-density-consistency', 'liquid_density %r != liquid_molar_density*molar_mass %r' % (rl, rml * M))
        if abs(rg - rmg * M) > 1e-9 * abs(rg):
            bad('gas-density-consistency', 'gas_density %r != gas_molar_density*molar_mass %r' % (rg, rmg * M))
        ps, pt, pc = val['saturation_pressure'], val['p_triple'], val['p_critical']
        if ps is None or pt is None or pc is None or not (pt * (1 - 1e-9) <= ps <= pc * (1 + 1e-9)):
            bad('p-range', 'p_triple %r <= p_sat %r <= p_critical %r fails' % (pt, ps, pc))
        h = val['enthalpy_vaporisation(T)']
        if h is None or not h > 0:
            bad('h-vap-positive', 'enthalpy_vaporisation = %r' % (h,))
        if val['pressure_saturation'] != ps:
            bad('alias-method', 'pressure_saturation %r != saturation_pressure %r' % (val['pressure_saturation'], ps))
        series.setdefault(a.name, []).append((T, ps, ci))
        nontrivial.add((a.name, round(T, 6)))
    for name, pts in series.items():
        pts.sort()
        for (T1, p1, _), (T2, p2, _) in zip(pts, pts[1:]):
            if p1 is not None and p2 is not None and T2 > T1 and not p2 > p1:
                rep.failure('C20:unclassified:thermo:monotone:%s' % name, 'saturation pressure of %r does not rise: p(%r)=%r, p(%r)=%r' % (name, T1, p1, T2, p2),
                            {'kind': 'thermo', 'adsorbate': name, 'T': T2, 'clause': 'monotone'})
    # the property methods of one (shared, registry) adsorbate object called in ANY order, interleaving two temperatures: every value
    # must be the one that was judged above (a number that depends on which method ran before is a silent wrong number: it cannot
    # satisfy density = molar density x molar mass / the saturation-line clauses that the reference value satisfies)
    n_inter = 0
    by_ads = {}
    for ci, (label, a, T, _) in enumerate(cases):
        if label == 'backend':
            by_ads.setdefault(id(a), []).append(ci)
    TM = [5, 6, 7, 8, 9, 10, 11, 12]     # indices in METHOD_ORDER of the methods that flash the backend state
    for cis in by_ads.values():
        if len(cis) < 2:
            continue
        c1, c2 = rnd.sample(cis, 2)
        a = cases[c1][1]
        seq = []
        for step in range(14 if tier == 'quick' else 40):
            ci = rnd.choice((c1, c2))
            mi = rnd.choice(TM)
            T = cases[ci][2]
            ref = impls[ci][mi]
            if mi == 12:
                ps_ = impls[ci][5]
                P = ps_[1] if ps_[0] == 'Ok' and finite(ps_[1]) and ps_[1] > 0 else 101325.0
                got = call(a.enthalpy_vaporisation, press=P)
            else:
                got = call([a.saturation_pressure, a.surface_tension, a.liquid_density, a.liquid_molar_density, a.gas_density, a.gas_molar_density,
                            a.enthalpy_vaporisation][mi - 5], T)
            seq.append([METHOD_ORDER[mi], T])
            n_inter += 1
            same = got[0] == ref[0] and (got[0] != 'Ok' or (finite(got[1]) and finite(ref[1]) and abs(got[1] - ref[1]) <= 1e-9 * abs(ref[1])) or (not finite(got[1]) and not finite(ref[1])))
            if not same:
                rep.failure('C20:unclassified:thermo:history-dependent:%s' % METHOD_ORDER[mi],
                            '%s of %r at T=%r returns %r after the calls %s; the same call gave %r before (the value that satisfies the consistency clauses)' % (
                                METHOD_ORDER[mi], a.name, T, got, seq[-4:-1], ref),
                            {'kind': 'thermo-sequence', 'adsorbate': a.name, 'T': T, 'sequence': seq, 'expected': list(ref)})
                break
    hist['interleaved-calls'] = n_inter
    # unit argument against the SI specification (pa_per), evaluated in Coq
    uterms, ucases = [], []
    for ci, ((label, a, T, _), impl) in enumerate(zip(cases, impls)):
        if impl[5][0] == 'Ok' and finite(impl[5][1]) and all(impl[16 + k][0] == 'Ok' and finite(impl[16 + k][1]) for k in range(8)):
            uterms.append('(unit_spec %s [%s])' % (flit(impl[5][1]), '; '.join('((%d)%%Z, (%d)%%Z)' % fme(impl[16 + k][1]) for k in range(8))))
            ucases.append(ci)
        elif impl[5][0] == 'Ok' and label == 'backend':
            rep.failure('C20:unclassified:thermo:unit-argument:%s' % a.name, 'saturation_pressure(T) has a value but saturation_pressure(T, unit) fails for a valid unit',
                        {'kind': 'thermo', 'adsorbate': a.name, 'T': T, 'clause': 'unit'})
    try:
        um = vlib.run_coq_cases('c20u', HEADER, 'fun x : list Z => x', uterms, per_file=400, nested=True)
        for ci, flags in zip(ucases, um):
            for k, ok in enumerate(flags):
                if ok != 1:
                    label, a, T, _ = cases[ci]
                    rep.failure('C20:unclassified:thermo:unit-argument:%s' % PUNITS[k], 'saturation_pressure(%r, unit=%r) of %r = %r is not the pascal value %r / (Pa per %s)' % (
                        T, PUNITS[k], a.name, impls[ci][16 + k][1], impls[ci][5][1], PUNITS[k]), {'kind': 'thermo', 'adsorbate': a.name, 'T': T, 'clause': 'unit', 'unit': PUNITS[k]})
    except RuntimeError as e:
        rep.broken_obligation('oracle:unit-spec-evaluation', str(e)[-800:])
    rep.cov['thermo'] = {'cases': len(cases), 'method_calls': sum(len(i) for i in impls), 'backend_adsorbates': len(backend_ads),
                         'temperatures_per_backend_adsorbate': len(fracs) + (1 if tier == 'quick' else 3), 'disagreements_with_model': n_dis,
                         'unit_argument_cases': len(ucases) * 8}
    return sum(len(i) for i in impls) + len(ucases) * 8 + n_inter, nontrivial, hist


def run(rep, tier, seed):
    L = shipped()
    vlib.standard_proof_phase(rep, 'C20', extra_targets=['Registry/AdsShow.vo'])
    explore(rep, tier, seed, L)
    if rep.broken and not rep.violations and tier != 'thorough':
        explore(rep, 'thorough', seed + 1, L)


def explore(rep, tier, seed, L):
    n1, nt1, h1 = registry_part(rep, tier, seed, L)
    n2, nt2, h2 = thermo_part(rep, tier, seed, L)
    rep.cov['evaluations'] = n1 + n2
    rep.cov['distinct_nontrivial'] = len(nt1) + len(nt2)
    rep.cov['rule'] = ('registry: every (adsorbate, alias) of the loaded list x {lower, UPPER, Title, random case} through Adsorbate.find and (one variant per '
                       'alias in quick, all in thorough) through PointIsotherm(adsorbate=...); unknown / perturbed strings; synthetic constructor calls; '
                       'thermo: 81 backend adsorbates x temperatures across (T_triple, T_critical) (3+1 random in quick, 12+3 in thorough) + out-of-range '
                       'temperatures, 95 adsorbates without backend, 5 synthetic adsorbates with partial user properties, 25 method calls each. '
                       'non-trivial = distinct (adsorbate, alias) resolved correctly + distinct (backend adsorbate, T) on which all consistency clauses were evaluated')
    h1.update(h2)
    rep.cov['input_distribution'] = h1
    rep.cov['samples'] += [{'find': 'NiTrOgEn', 'result': 'nitrogen'}, {'find': 'CYCLOPENTANE', 'result': 'cyclopentane'}]
    rep.cov['trusted_base'] += ['translators tools/py2v_adsorbates.py, tools/py2v_adsmethods.py (validated by the correspondences above)',
                                'oracle: CoolProp AbstractState / PropsSI (values validated, not proved)', 'sqlite3 / json loaders of pygaps.data',
                                'ASCII lower-casing (Lib/Py.v lower) = str.lower on ASCII strings (translator refuses non-ASCII data)']
    rep.assumptions += ['CoolProp satisfies rhomass = rhomolar*molar_mass, p_triple <= p_sat <= p_critical, monotone p_sat, h_vap > 0 (validated on this run, not proved)',
                        'a backend read is a function of the last update in the same method (translator enforces update-before-read)',
                        'registry theorems are about THIS tree: 176 adsorbates, 817 alias strings (regenerated on every run)']


def replay(d):
    import logging
    logging.disable(logging.CRITICAL)
    import pygaps
    r = d['replay']
    if r['kind'] in ('find', 'link', 'unique'):
        s = r['string']
        oc, a = call(pygaps.Adsorbate.find, s)
        print('Adsorbate.find(%r) ->' % s, a.name if oc == 'Ok' else oc, '; expected', r.get('expected'))
        from pygaps.data import ADSORBATE_LIST
        print('adsorbates equal to the string:', [x.name for x in ADSORBATE_LIST if x == s])
        oc, iso = call(pygaps.PointIsotherm, pressure=[1, 2], loading=[1, 2], material='m', adsorbate=s, temperature=300)
        print('PointIsotherm(adsorbate=%r).adsorbate ->' % s, iso.adsorbate.name if oc == 'Ok' else oc)
        bad = oc != 'Ok' or (r.get('expected') not in (None, 'exactly one') and a.name != r['expected'])
        print('VIOLATION reproduced' if bad else 'see above')
        return 1 if bad else 0
    if r['kind'] == 'thermo':
        a = pygaps.Adsorbate.find(r['adsorbate'])
        T = r['T']
        if T is not None:
            for n, (oc, v) in zip(METHOD_ORDER, run_methods(a, T, 101325.0)):
                print('%-40s %s %r' % (n, oc, v))
        return 1
    if r['kind'] == 'thermo-sequence':
        a = pygaps.Adsorbate.find(r['adsorbate'])
        fns = {'saturation_pressure': a.saturation_pressure, 'surface_tension': a.surface_tension, 'liquid_density': a.liquid_density,
               'liquid_molar_density': a.liquid_molar_density, 'gas_density': a.gas_density, 'gas_molar_density': a.gas_molar_density,
               'enthalpy_vaporisation(T)': a.enthalpy_vaporisation}
        for name, T in r['sequence']:
            if name == 'enthalpy_vaporisation(press)':
                ps = call(a.saturation_pressure, T)
                print('%-32s T=%-10r' % (name, T), call(a.enthalpy_vaporisation, press=(ps[1] if ps[0] == 'Ok' else 101325.0)))
            else:
                print('%-32s T=%-10r' % (name, T), call(fns[name], T))
        print('last call expected:', r.get('expected'))
        return 1
    print(r)
    return 1
