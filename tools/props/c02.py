"""C02 - permanent conversions over any history.

proof phase   : Props/C02.v over the GENERATED model of convert / convert_pressure / convert_loading /
                convert_material / convert_temperature (Gen/IsoGen.v, tools/py2v_iso.py)
correspondence: histories of calls on real PointIsotherms vs the generated model (QNum): after EVERY call
                outcome class, the seven labels, raw temperature, both data columns, cache reset
oracle/search : on the implementation, after every call: labels accepted by the constructor, data == original
                converted directly, refusal changes nothing / combined refusal keeps completed steps,
                branch marks / extra columns / metadata / order untouched
"""
import itertools
import random
from fractions import Fraction

import numpy as np
import pandas as pd

import vlib
from vlib import qlit, ostr, flit, fme
from props import c01

EXTRA_TARGETS = ['Iso/IsoShow.vo', 'Iso/C02Show.vo']
MANIFEST = dict(
    text="Machine-checked (Coq 8.16) theorems about the model GENERATED on every run from convert / convert_pressure / convert_loading / "
         "convert_material / convert_temperature (pointisotherm.py, baseisotherm.py) on top of the generated converters of C01. "
         "Main theorem (history_arbitrary_strings, Iso/C02General.v): for ANY finite history of these calls with ARBITRARY argument strings "
         "(omitted, empty, repeated, impossible, garbage; single-quantity calls and the combined convert()), from any of the 10 x 27 x 19 x 2 "
         "configurations, any data, any adsorbate whose constants are read at the kelvin temperature: every call is refused exactly when an "
         "explicit reference semantics on representations (`resolve`, by string matching) says so; a refused single-quantity call changes "
         "nothing; convert() is its pressure, material, loading steps run until the first refusal (completed steps kept: "
         "combined_refusal_keeps_completed_steps, all states, all strings); after every call the data are the ORIGINAL data converted "
         "directly to the resolved representation, the labels name exactly that representation and pass the constructor's checks; "
         "converting back to the starting representation restores the original numbers (history_arbitrary_strings_back_restores, no side "
         "condition). On a fraction / percent isotherm a material-unit string that is no unit of the basis is refused and changes nothing, "
         "for all states and strings (unknown_material_unit_is_refused_on_fraction_isotherms; repaired in /repo by 4b4712e). Also: exact "
         "single-step theorems for all 100 + 729 + 2x361 representation pairs, 'refusal changes nothing' for ALL states and strings, omitted "
         "unit = no-op. Histories of real PointIsotherms (incl. CoolProp adsorbates stored in degC, ~15-50% malformed arguments) are compared "
         "after every call with the generated model (outcome class, labels, data) AND with the reference semantics evaluated inside Coq "
         "(refusal pattern, labels), and judged by an independent oracle: labels accepted by the constructor AND naming a representation, "
         "data == direct conversion of the original data, refusals change nothing, untouched parts untouched.",
    note="Trusted: Coq kernel; Reals axioms; translators tools/py2v_iso.py + py2v_units.py (validated by the per-call correspondence); pandas column "
         "arithmetic modelled as element-wise scalar arithmetic (conv_col); adsorbate/material property reads are oracles; RNum/QNum carrier argument. "
         "The history theorem assumes an adsorbate with every constant available and positive at the isotherm temperature and a material with "
         "positive density and molar mass; without them more calls are refused (covered by the refusal theorems and the correspondence only).",
    technique="Coq proof (string classification + evaluation over label space + induction over histories) on a model regenerated from source; "
              "per-call correspondence with the generated model and with the reference semantics")

HEADER = """From Coq Require Import QArith ZArith String List.
From PG Require Import Lib.Num Lib.Py Lib.Show Gen.UnitsGen1 Units.AdsOracle Gen.UnitsGen2 Iso.IsoState Gen.IsoGen Iso.IsoShow.
Import ListNotations. Open Scope string_scope.
"""
LABELS = ["absolute", "relative", "relative%", "mass", "volume_gas", "volume_liquid", "molar", "percent", "fraction", "volume",
          "Pa", "kPa", "MPa", "mbar", "bar", "atm", "mmHg", "torr",
          "mmol", "mol", "kmol", "cm3(STP)", "mL(STP)", "cc(STP)", "L(STP)",
          "amu", "mg", "cg", "dg", "g", "kg", "cm3", "mL", "cc", "dm3", "L", "m3",
          "K", "°C", "C", "celsius", "bogus", ""]


def lab_code(s):
    if s is None:
        return 0
    return LABELS.index(s) + 1 if s in LABELS else -1


PREPS, LREPS, MREPS = c01.PREPS, c01.LREPS, c01.MREPS
ADS_FULL = dict(c01.ADS['A'])
ADS_NODENS = dict(saturation_pressure=101325.0, molar_mass=28.0134)
MAT_FULL = dict(density=2.1, molar_mass=60.08)
P0 = [0.1, 0.25, 0.5, 0.75, 0.9, 0.6, 0.3]
L0 = [1.0, 2.5, 3.5, 4.25, 4.5, 4.4, 4.0]
BR = [0, 0, 0, 0, 0, 1, 1]


_ADS = {}


def make_iso(rp, rl, rm, tunit, T, ads_props, mat_props, tag='', P=None, L=None, B=None, index=None):
    import pygaps
    # NB: PointIsotherm(adsorbate=<Adsorbate object>) raises AttributeError in the pinned tree (`None in [material,
    # adsorbate, temperature]` calls Adsorbate.__eq__(None)); adsorbates are therefore registered and passed by name
    if isinstance(ads_props, str):
        key = ads_props          # a shipped adsorbate with a thermodynamic backend (CoolProp): temperature dependent
    else:
        key = 'verif_ads_' + '_'.join(sorted(ads_props))
        if key not in _ADS:
            _ADS[key] = pygaps.Adsorbate(key, store=True, **ads_props)
    a = key
    m = pygaps.Material('verif_mat' + tag, **mat_props)
    P = P0 if P is None else P
    L = L0 if L is None else L
    B = BR if B is None else B
    df = pd.DataFrame({'pressure': P, 'loading': L, 'enthalpy': [5.0 - 0.1 * i for i in range(len(P))], 'note': [chr(97 + i % 26) for i in range(len(P))]}, index=index)
    # a relative pressure has no unit: the constructor must deliver the same isotherm whether the unit is passed as None, not
    # passed at all (a default is filled in and cleared) or passed as some pressure unit (cleared) -- the three spellings cycle
    global _PU_STYLE
    labels = dict(pressure_mode=rp[0], pressure_unit=rp[1], loading_basis=rl[0], loading_unit=rl[1],
                  material_basis=rm[0], material_unit=rm[1], temperature_unit=tunit)
    if rp[0] != 'absolute':
        _PU_STYLE = (_PU_STYLE + 1) % 3
        if _PU_STYLE == 1:
            del labels['pressure_unit']
        elif _PU_STYLE == 2:
            labels['pressure_unit'] = ['bar', 'kPa', 'torr', 'Pa'][int(T * 1000) % 4]
    iso = pygaps.PointIsotherm(isotherm_data=df, pressure_key='pressure', loading_key='loading', branch=(B if isinstance(B, str) else list(B)),
                               material=m, adsorbate=a, temperature=T, operator='verif', batch=7, **labels)
    return iso


_PU_STYLE = 0


def ads_table(ads, temps):
    """the adsorbate as the model sees it: each temperature-dependent property as a finite table
    temperature -> value (exact rational of the float the implementation returns) | unavailable"""
    import pygaps
    a = pygaps.Adsorbate.find(ads) if isinstance(ads, str) else ads

    def get(fn, *args):
        try:
            v = fn(*args)
            return None if v is None else float(v)
        except Exception:  # noqa
            return None

    def table(fn):
        rows = [(t, get(fn, t)) for t in temps]
        body = 'None'
        for t, v in reversed(rows):
            body = '(if close_q 1 1000000000000 x %s then %s else %s)' % (flit(t), 'None' if v is None else '(Some %s)' % flit(v), body)
        return '(fun t : option Q => match t with Some x => %s | None => None end)' % body
    M = get(a.molar_mass)
    return '(mkAds QNum %s %s %s %s %s %s)' % (table(a.saturation_pressure), 'None' if M is None else '(Some %s)' % flit(M),
                                             table(a.liquid_density), table(a.gas_density), table(a.liquid_molar_density), table(a.gas_molar_density))


def coq_iso(rp, rl, rm, tunit, T, ads_name, mat_props, P=None, L=None, B=None):
    f = lambda d, n: ('(Some %s)' % flit(d[n])) if n in d else 'None'
    TK = T if tunit == 'K' else T + 273.15
    ads = ads_table(ads_name, sorted({float(T), float(TK)}))
    mat = '(mkMat QNum %s %s)' % (f(mat_props, 'density'), f(mat_props, 'molar_mass'))
    ql = lambda xs: '[' + '; '.join(flit(x) for x in xs) + ']'
    pu = rp[1] if rp[0] == 'absolute' else None   # constructor: relative -> unit None
    bl = '[' + '; '.join('true' if b else 'false' for b in (BR if B is None else B)) + ']'
    return '(mkIso QNum %s %s %s %s %s %s %s %s %s %s %s %s %s None None)' % (
        ostr(rp[0]), ostr(pu), ostr(rl[0]), ostr(rl[1]), ostr(rm[0]), ostr(rm[1]), ostr(tunit), flit(T), ads, mat,
        ql(P0 if P is None else P), ql(L0 if L is None else L), bl)


def coq_call(c):
    k, a = c
    if k == 'P': return '(CP %s %s)' % (ostr(a[0]), ostr(a[1]))
    if k == 'L': return '(CL %s %s)' % (ostr(a[0]), ostr(a[1]))
    if k == 'M': return '(CM %s %s)' % (ostr(a[0]), ostr(a[1]))
    if k == 'T': return '(CT %s)' % ostr(a[0])
    return '(CAll %s)' % ' '.join(ostr(x) for x in a)


def do_call(iso, c):
    k, a = c
    try:
        if k == 'P': iso.convert_pressure(mode_to=a[0], unit_to=a[1])
        elif k == 'L': iso.convert_loading(basis_to=a[0], unit_to=a[1])
        elif k == 'M': iso.convert_material(basis_to=a[0], unit_to=a[1])
        elif k == 'T': iso.convert_temperature(a[0])
        else: iso.convert(pressure_mode=a[0], pressure_unit=a[1], loading_basis=a[2], loading_unit=a[3], material_basis=a[4], material_unit=a[5])
        return 'Ok'
    except Exception as e:  # noqa
        return vlib.exn_class(e)


def snapshot_labels(iso):
    u = iso.units
    return [u['pressure_mode'], u['pressure_unit'], u['loading_basis'], u['loading_unit'], u['material_basis'], u['material_unit'], u['temperature_unit']]


def snapshot(iso):
    u = iso.units
    return dict(labels=[u['pressure_mode'], u['pressure_unit'], u['loading_basis'], u['loading_unit'], u['material_basis'], u['material_unit'], u['temperature_unit']],
                T=iso._temperature, p=[float(x) for x in iso.data_raw['pressure']], l=[float(x) for x in iso.data_raw['loading']],
                li=iso.l_interpolator is not None, pi=iso.p_interpolator is not None,
                other=(list(iso.data_raw['branch']), list(iso.data_raw['enthalpy']), list(iso.data_raw['note']), list(iso.data_raw.index),
                       dict(iso.properties), str(iso.material), str(iso.adsorbate)))


def parse_rep(labels):
    """-> (rp, rl, rm, tu) if the labels name a valid representation, else None"""
    pm, pu, lb, lu, mb, mu, tu = labels
    rp = (pm, pu) if (pm, pu) in PREPS else None
    rl = (lb, lu) if (lb, lu) in LREPS else None
    rm = (mb, mu) if (mb, mu) in MREPS else None
    if lb in ('fraction', 'percent') and lu is None:
        rl = (lb, None)
    if rp and rl and rm and tu in ('K', '°C'):
        return rp, rl, rm, tu
    return None


def names_full_rep(c):
    """the call names a complete valid target representation explicitly (so the theorem history_direct says it succeeds)"""
    k, a = c
    if k == 'P': return (a[0], a[1]) in PREPS
    if k == 'L': return (a[0], a[1]) in LREPS
    if k == 'M': return (a[0], a[1]) in MREPS
    if k == 'T': return a[0] in ('K', '°C')
    groups = [(a[0:2], PREPS), (a[2:4], LREPS), (a[4:6], MREPS)]
    return all((g == (None, None)) or (tuple(g) in reps) for g, reps in groups)


def constructor_accepts(snap):
    import pygaps
    pm, pu, lb, lu, mb, mu, tu = snap['labels']
    try:
        pygaps.PointIsotherm(pressure=[1, 2], loading=[1, 2], material='verif_m', adsorbate='verif_a', temperature=snap['T'],
                             pressure_mode=pm, pressure_unit=pu, loading_basis=lb, loading_unit=lu, material_basis=mb,
                             material_unit=mu, temperature_unit=tu)
        # the constructor forces pressure_unit None in relative mode; a stale unit there is an inconsistency too
        if pm and pm.startswith('relative') and pu is not None:
            return False
        return True
    except Exception:
        return False


def direct(orig, rep0, rep1, ads, mat, TK):
    """original data converted DIRECTLY to rep1 with the (C01-verified) converters"""
    from pygaps.units import converter_mode as cm
    (rp0, rl0, rm0, _), (rp1, rl1, rm1, _) = rep0, rep1
    p = cm.c_pressure(np.array(orig['p']), rp0[0], rp1[0], rp0[1], rp1[1], ads, TK)
    l = np.array(orig['l'])
    # loading per material: go through a physical basis so that the material change is well defined
    l = cm.c_loading(l, rl0[0], 'molar', rl0[1], 'mol', ads, TK, rm0[0], rm0[1])
    l = cm.c_material(l, rm0[0], rm1[0], rm0[1], rm1[1], mat)
    l = cm.c_loading(l, 'molar', rl1[0], 'mol', rl1[1], ads, TK, rm1[0], rm1[1])
    return p, l


GARBAGE = ['bogus', 'bogus', '', '', 'cm3', 'g', 'mol', 'K', 'C', 'mass', 'relative', 'furlong']


def gen_histories(tier, seed):
    rnd = random.Random(seed)
    H = []   # (init = (rp, rl, rm, tunit, T, ads_key, mat_key), [calls])
    modes = ['absolute', 'relative', 'relative%']
    lb_all = ['mass', 'volume_gas', 'volume_liquid', 'molar', 'percent', 'fraction']
    lunits = sorted(set(c01.MOLU + c01.MASSU + c01.VOLU))
    mb_all = ['mass', 'volume', 'molar']

    def init(rp=None, rl=None, rm=None, tu=None, ads='full', mat='full'):
        rp = rp or rnd.choice(PREPS); rl = rl or rnd.choice(LREPS); rm = rm or rnd.choice(MREPS)
        tu = tu or rnd.choice(['K', '°C'])
        TK = 573.15 if ads == 'water' else 77.355      # water at 300 degC: the raw number 300 is ALSO a valid temperature in K
        T = TK if tu == 'K' else round(TK - 273.15, 3)
        return (rp, rl, rm, tu, T, ads, mat)
    # (i) single steps, exhaustive per group (sampled for loading/material in quick)
    for rp in PREPS:
        for m, u in itertools.product(modes + [None, 'bogus', ''], c01.PUNITS + [None, 'bogus', '']):
            H.append((init(rp=rp, rl=('molar', 'mmol'), rm=('mass', 'g'), tu=rnd.choice(['K', '°C']), ads=rnd.choice(['full', 'water'])), [('P', (m, u))]))
    ls = [(rl, b, u, rm) for rl in LREPS for b in lb_all + [None, 'bogus', ''] for u in lunits + [None, 'bogus', '']
          for rm in [('mass', 'g'), ('volume', 'cm3'), ('molar', 'mmol')]]
    ms = [(rm, rl, b, u) for rm in MREPS for rl in [('molar', 'mmol'), ('fraction', None), ('percent', None), ('mass', 'mg')]
          for b in mb_all + [None, 'bogus', ''] for u in lunits + [None, 'bogus', '']]
    if tier == 'quick':
        ls = rnd.sample(ls, 1200); ms = rnd.sample(ms, 1200)
    for rl, b, u, rm in ls:
        H.append((init(rp=('absolute', 'bar'), rl=rl, rm=rm, tu=rnd.choice(['K', '°C']), ads=rnd.choice(['full', 'water'])), [('L', (b, u))]))
    for rm, rl, b, u in ms:
        H.append((init(rp=('absolute', 'bar'), rl=rl, rm=rm, tu=rnd.choice(['K', '°C']), ads=rnd.choice(['full', 'water'])), [('M', (b, u))]))
    for tu0 in ('K', '°C'):
        for u in ['K', '°C', 'C', 'celsius', None, 'bogus', '']:
            H.append((init(tu=tu0), [('T', (u,))]))
    # (ii) random histories, mostly valid, ~15 % malformed arguments
    def rcall(bad=0.15, k=None):
        k = k or rnd.choice('PPLLMMTA')

        def pick(valid, p_none=0.15):
            r = rnd.random()
            if r < bad / 2: return rnd.choice(GARBAGE)     # a string that names nothing here (unknown, empty, or a label of another kind)
            if r < bad / 2 + p_none: return None
            return rnd.choice(valid)
        if k == 'P':
            m = pick(modes)
            return ('P', (m, pick(c01.PUNITS) if m in (None, '', 'absolute') or rnd.random() < max(0.2, bad) else None))
        if k == 'L':
            b = pick(lb_all)
            us = {'mass': c01.MASSU, 'molar': c01.MOLU, 'volume_gas': c01.VOLU, 'volume_liquid': c01.VOLU}.get(b, lunits)
            return ('L', (b, pick(us) if b not in ('percent', 'fraction') or rnd.random() < max(0.2, bad) else None))
        if k == 'M':
            b = pick(mb_all)
            us = {'mass': c01.MASSU, 'molar': c01.MOLU, 'volume': c01.VOLU}.get(b, lunits)
            return ('M', (b, pick(us)))
        if k == 'T':
            return ('T', (pick(['K', '°C', 'K', '°C', 'C', 'celsius', 'Celsius', 'kcal'], 0.05),))
        p, l, m = rcall(bad, 'P'), rcall(bad, 'L'), rcall(bad, 'M')
        groups = [g[1] if rnd.random() < 0.6 else (None, None) for g in (p, l, m)]
        return ('A', groups[0] + groups[1] + groups[2])
    nh = 2500 if tier == 'thorough' else 250
    maxlen = 30 if tier == 'thorough' else 10
    for i in range(nh):
        ads = rnd.choice(['nodens', 'full', 'full', 'water', 'water', 'nitrogen', 'water', 'nitrogen', 'full', 'water'])
        H.append((init(ads=ads), [rcall() for _ in range(rnd.randint(2, maxlen))]))
    # (iii) garbage-heavy histories (half of the arguments omitted / empty / unknown / of another kind): the quantifier of the
    # history theorem over ARBITRARY strings
    for i in range(nh // 3):
        ads = rnd.choice(['full', 'full', 'water', 'nitrogen'])
        H.append((init(ads=ads), [rcall(bad=0.5) for _ in range(rnd.randint(3, maxlen))]))
    return H


HEADER_REF = """From Coq Require Import ZArith String List.
From PG Require Import Iso.C02General Iso.C02Show.
Import ListNotations. Open Scope string_scope.
"""


def coq_gop(c):
    k, a = c
    if k == 'P': return '(GP %s %s)' % (ostr(a[0]), ostr(a[1]))
    if k == 'L': return '(GL %s %s)' % (ostr(a[0]), ostr(a[1]))
    if k == 'M': return '(GM %s %s)' % (ostr(a[0]), ostr(a[1]))
    if k == 'T': return '(GT %s)' % ostr(a[0])
    return '(GC %s)' % ' '.join(ostr(x) for x in a)


def check_reference(rep, H, impl):
    """the reference semantics `resolve` of the history theorem (Iso/C02General.v), evaluated inside Coq on the same histories:
    which calls are refused and the seven labels after every call must be those of the implementation. Only histories whose
    adsorbate has every constant (the theorem's hypothesis): with a CoolProp / incomplete adsorbate more calls may be refused."""
    idx = [i for i, (init, calls) in enumerate(H) if init[5] == 'full']
    terms = ['(ref_trace_from %s [%s])' % (' '.join(ostr(x) for x in impl[i][0]['labels']), '; '.join(coq_gop(c) for c in H[i][1])) for i in idx]
    try:
        ref = vlib.run_coq_cases('c02r', HEADER_REF, 'fun x : list (list Z) => x', terms, per_file=400, nested=True)
    except RuntimeError as e:
        rep.broken_obligation('correspondence:reference-semantics-evaluation', str(e)[-800:])
        return 0, 0
    n = dis = 0
    for i, tr in zip(idx, ref):
        init, calls = H[i]
        steps = impl[i][1]
        for si, (c, (pre, oc, post)) in enumerate(zip(calls, steps)):
            n += 1
            want = [1 if oc == 'Ok' else 0] + [lab_code(x) for x in post['labels']]
            got = list(tr[si]) if si < len(tr) else None
            if got != want:
                dis += 1
                if dis <= 5:
                    rep.broken_obligation('correspondence:reference-semantics-vs-implementation',
                                          {'init': [str(x) for x in init], 'calls': [str(x) for x in calls[:si + 1]], 'step': si,
                                           'implementation': [oc, post['labels']],
                                           'reference': None if got is None else ['accepted' if got[0] == 1 else 'refused',
                                                                                   [LABELS[k - 1] if k > 0 else (None if k == 0 else '?') for k in got[1:]]]})
                break   # later steps of this history start from different states
    return n, dis


def classify(init, call, pre, post, outcome, kind):
    """tag of a failing step from its input pattern: the call, the labels before it, the kind of failed clause"""
    k, a = call
    pm, pu, lb, lu, mb, mu, tu = pre['labels']
    frac = lb in ('fraction', 'percent')
    def omitted(ki, ai, cur_basis, cur_unit):
        return ai[1] is None and (ai[0] in (None, '') or ai[0] == cur_basis) and cur_unit is not None
    if kind == 'labels-invalid' and outcome == 'Ok':
        calls = [(k, a)] if k != 'A' else [('P', a[0:2]), ('L', a[2:4]), ('M', a[4:6])]
        for ki, ai in calls:
            if ki == 'P' and pm == 'absolute' and omitted(ki, ai, pm, pu): return 'C02:omitted-unit-label-None'
            if ki == 'L' and not frac and omitted(ki, ai, lb, lu): return 'C02:omitted-unit-label-None'
            if ki == 'M' and omitted(ki, ai, mb, mu): return 'C02:omitted-unit-label-None'
        if k == 'T' and a[0] and 'c' in a[0].lower() and a[0] != '°C': return 'C02:temperature-alias-label'
    if kind == 'refusal-changed-state' and k in ('M', 'A') and frac and init[5] == 'nodens':
        return 'C02:fraction-material-not-atomic'
    return 'C02:unclassified:%s:%s:%s' % (kind, k, outcome)


def run(rep, tier, seed):
    proofs_ok = vlib.standard_proof_phase(rep, 'C02', extra_targets=EXTRA_TARGETS)
    explore(rep, tier, seed)
    if rep.broken and not rep.violations and tier != 'thorough':
        explore(rep, 'thorough', seed + 1)


def explore(rep, tier, seed):
    H = gen_histories(tier, seed)
    ADSK = {'full': ADS_FULL, 'nodens': ADS_NODENS, 'water': 'water', 'nitrogen': 'nitrogen'}
    MATK = {'full': MAT_FULL}
    # ---- implementation
    impl = []
    for hi, (init, calls) in enumerate(H):
        rp, rl, rm, tu, T, ak, mk = init
        iso = make_iso(rp, rl, rm, tu, T, ADSK[ak], MATK[mk], tag=str(hi % 7))
        s0 = snapshot(iso)
        # every third history has SIBLINGS: other isotherms made from this one's data (its DataFrame handed to from_isotherm / to the
        # constructor, its columns handed over as arrays). A permanent conversion changes the isotherm it is called on and no other.
        sibs = []
        if hi % 3 == 0:
            import pygaps
            try:
                sibs.append(('from_isotherm(isotherm_data=data_raw)', pygaps.PointIsotherm.from_isotherm(iso, isotherm_data=iso.data_raw, pressure_key=iso.pressure_key, loading_key=iso.loading_key)))
                sibs.append(('from_isotherm(pressure=column, loading=column)', pygaps.PointIsotherm.from_isotherm(iso, pressure=iso.data_raw[iso.pressure_key], loading=iso.data_raw[iso.loading_key])))
                d = iso.to_dict()
                sibs.append(('constructor(isotherm_data=data_raw, **to_dict())', pygaps.PointIsotherm(isotherm_data=iso.data_raw, pressure_key=iso.pressure_key, loading_key=iso.loading_key, **d)))
            except Exception as e:  # noqa
                rep.cov.setdefault('notes', []).append('sibling construction skipped: %r' % (e,))
        snapl = lambda b: dict(labels=snapshot_labels(b), T=b._temperature, p=[float(x) for x in b.data_raw[b.pressure_key]], l=[float(x) for x in b.data_raw[b.loading_key]])
        sib0 = [(how, snapl(b)) for how, b in sibs]
        steps = []
        for ci, c in enumerate(calls):
            pre = snapshot(iso)
            oc = do_call(iso, c)
            steps.append((pre, oc, snapshot(iso)))
            for (how, b), (_, b0) in zip(sibs, sib0):
                if snapl(b) != b0:
                    rep.failure('C02:unclassified:conversion-changes-another-isotherm', 'after %r on an isotherm, the isotherm made from it by %s has changed (labels %r -> %r, first pressure %r -> %r)'
                                % (c, how, b0['labels'], snapl(b)['labels'], b0['p'][:1], snapl(b)['p'][:1]),
                                {'init': list(init), 'calls': [list(x) for x in calls[:ci + 1]], 'failing_step': ci, 'kind': 'conversion-changes-another-isotherm', 'sibling': how})
                    sibs, sib0 = [], []
                    break
        # ... and a conversion of a sibling leaves this isotherm alone
        if sibs:
            post = snapshot(iso)
            for how, b in sibs:
                do_call(b, ('P', ('absolute', 'kPa'))); do_call(b, ('L', ('mass', 'mg'))); do_call(b, ('M', ('mass', 'kg')))
                if snapshot(iso) != post:
                    rep.failure('C02:unclassified:conversion-changes-another-isotherm', 'converting the isotherm made by %s changed the isotherm it was made from' % how,
                                {'init': list(init), 'calls': [list(x) for x in calls], 'failing_step': len(calls), 'kind': 'conversion-changes-another-isotherm', 'sibling': how})
                    break
        impl.append((s0, steps, iso))
    # ---- model
    def expected(post):
        return '[' + '; '.join('((%d)%%Z, (%d)%%Z)' % fme(x) for x in [post['T']] + post['p'] + post['l']) + ']'
    terms = ['(run_hist_cmp 1 1000000000 %s [%s])' % (coq_iso(*init[:5], iso0.adsorbate, MATK[init[6]]),
                                                      '; '.join('(%s, %s)' % (coq_call(c), expected(st[2])) for c, st in zip(calls, steps)))
             for (init, calls), (s0, steps, iso0) in zip(H, impl)]
    model = None
    try:
        model = vlib.run_coq_cases('c02m', HEADER, 'fun x : list (list Z) => x', terms, per_file=200, nested=True)
    except RuntimeError as e:
        rep.broken_obligation('correspondence:IsoGen-evaluation', str(e)[-800:])
    n_dis = n_steps = 0
    nontrivial = set()
    hist = {}
    from pygaps.units import converter_mode as cm
    for hi, ((init, calls), (s0, steps, iso)) in enumerate(zip(H, impl)):
        known_bad = False
        rep0 = parse_rep(s0['labels'])
        TK = iso.temperature if True else None
        TK0 = s0['T'] if s0['labels'][6] == 'K' else s0['T'] + 273.15
        for si, (c, (pre, oc, post)) in enumerate(zip(calls, steps)):
            n_steps += 1
            hist[(c[0], oc)] = hist.get((c[0], oc), 0) + 1
            # (a) correspondence with the generated model
            if model is not None:
                mz = model[hi][si]
                moc = vlib.EXN[mz[0]]
                mlabels = mz[1:8]
                mli, mpi, agree = mz[8], mz[9], mz[10]
                ok = (moc == oc and list(mlabels) == [lab_code(x) for x in post['labels']] and agree == 1
                      and (not mli) == (not post['li']) and (not mpi) == (not post['pi']))
                if not ok:
                    n_dis += 1
                    if n_dis <= 5:
                        rep.broken_obligation('correspondence:IsoGen-vs-implementation',
                                              {'init': [str(x) for x in init], 'calls': [str(x) for x in calls[:si + 1]], 'step': si,
                                               'implementation': [oc, post['labels'], post['T'], post['p'][:2], post['l'][:2]],
                                               'model': [moc, [LABELS[k - 1] if k > 0 else (None if k == 0 else '?') for k in mlabels], 'values agree' if agree else 'values differ']})
            # (b) property oracle on the implementation
            def fail(kind, what):
                tag = classify(init, c, pre, post, oc, kind)
                rep.failure(tag, what, {'init': list(init), 'calls': [list(x) for x in calls[:si + 1]], 'failing_step': si, 'kind': kind,
                                        'before': pre['labels'], 'after': post['labels'], 'outcome': oc})
                return tag
            if post['other'] != pre['other']:
                fail('untouched-parts-changed', 'branch marks / extra columns / metadata / order changed by %r' % (c,))
            if known_bad:
                continue   # the object was already corrupted by a recorded finding earlier in this history
            if oc != 'Ok' and init[5] != 'nodens' and parse_rep(pre['labels']) and names_full_rep(c):
                fail('wrongly-refused', 'call %r naming a valid representation was refused (%s) on a valid isotherm %r' % (c, oc, pre['labels'])); known_bad = True
            if oc != 'Ok':
                changed = (post['labels'], post['T'], post['p'], post['l']) != (pre['labels'], pre['T'], pre['p'], pre['l'])
                if c[0] != 'A' and changed:
                    fail('refusal-changed-state', 'refused %r changed the isotherm' % (c,)); known_bad = True
                if c[0] == 'A' and changed:
                    # must equal the effect of the completed steps: replay them one by one on a twin
                    twin = make_iso(*init[:5], ADSK[init[5]], MATK[init[6]], tag='t')
                    for cc in calls[:si]:
                        do_call(twin, cc)
                    a = c[1]
                    for sub in (('P', a[0:2]), ('M', a[4:6]), ('L', a[2:4])):
                        if sub[1][0] or sub[1][1]:
                            if do_call(twin, sub) != 'Ok':
                                break
                    ts = snapshot(twin)
                    if (ts['labels'], ts['p'], ts['l']) != (post['labels'], post['p'], post['l']):
                        fail('refusal-changed-state', 'refused convert%r left something else than its completed steps' % (c[1],)); known_bad = True
                if oc not in ('ParameterError', 'CalculationError') and not known_bad:
                    # refusal with a non-pyGAPS exception type is not judged by C02 (C01 covers the converters)
                    pass
                continue
            if not constructor_accepts(post):
                fail('labels-invalid', 'after %r the labels %r are not accepted by the constructor' % (c, post['labels'])); known_bad = True
                continue
            rep1 = parse_rep(post['labels'])
            if rep1 is None:
                # accepted by the constructor's checks, yet the labels name no representation (e.g. a material unit that is no unit
                # of the material basis on a fraction / percent isotherm: the constructor does not look at it in that mode)
                fail('labels-name-no-representation', 'after the accepted call %r the labels %r name no representation' % (c, post['labels'])); known_bad = True
                continue
            if rep0 and rep1 and init[5] != 'nodens':
                ads, mat = iso.adsorbate, iso.material
                try:
                    p, l = direct(s0, rep0, rep1, ads, mat, TK0)
                    TK1 = post['T'] if post['labels'][6] == 'K' else post['T'] + 273.15
                    good = np.allclose(p, post['p'], rtol=1e-9, atol=0) and np.allclose(l, post['l'], rtol=1e-9, atol=0) and abs(TK1 - TK0) < 1e-9
                except Exception as e:  # noqa
                    good = False
                if not good:
                    fail('data-not-direct-conversion', 'after %r the data are not the original data converted directly to %r' % (calls[:si + 1], post['labels'])); known_bad = True
                elif post['labels'] != pre['labels']:
                    nontrivial.add((tuple(pre['labels']), c))
    n_ref, n_ref_dis = check_reference(rep, H, impl)
    rep.cov['evaluations'] = n_steps
    rep.cov['distinct_nontrivial'] = len(nontrivial)
    rep.cov['rule'] = ('single steps: every pressure state x (mode|None|bogus) x (unit|None|bogus) exhaustively; loading and material states x '
                       'argument combinations (sampled 1200+1200 in quick, exhaustive in thorough); random histories of convert_* / convert() / '
                       'convert_temperature calls (15% malformed arguments: unknown, empty, labels of another kind; plus garbage-heavy histories with 50%). non-trivial = distinct (labels before, call) that succeeded, '
                       'changed the labels and passed the direct-conversion oracle')
    rep.cov['input_distribution'] = {'%s/%s' % k: v for k, v in sorted(hist.items())}
    rep.cov['histories'] = len(H)
    rep.cov['correspondence'] = {'steps': n_steps, 'disagreements': n_dis, 'tolerance_rel': 1e-9,
                                 'what': 'generated IsoGen model (QNum) vs PointIsotherm after every call: outcome class, 7 labels, temperature, both columns, cache reset',
                                 'reference_semantics': {'steps': n_ref, 'disagreements': n_ref_dis,
                                                         'what': 'resolve (Iso/C02General.v, vm_compute) vs PointIsotherm after every call: refused or not, 7 labels; '
                                                                 'histories with the fully specified user adsorbate'}}
    rep.cov['samples'] += [{'init': [str(x) for x in H[i][0]], 'calls': [str(c) for c in H[i][1]], 'outcomes': [s[1] for s in impl[i][1]]} for i in (0, len(H) // 2, len(H) - 1)]
    rep.cov['trusted_base'] += ['translators tools/py2v_iso.py and tools/py2v_units.py (validated by the correspondence above)',
                                'oracle: Adsorbate/Material property reads; pandas column arithmetic = element-wise scalar arithmetic (Iso/IsoState.v conv_col)',
                                'carrier: theorems over RNum, execution over QNum']
    rep.assumptions += ['history theorem: adsorbate with every constant available and positive at the isotherm temperature, material with positive density and molar mass',
                        'IEEE rounding excluded (1e-9 relative over histories)']


def replay(d):
    import logging
    logging.disable(logging.CRITICAL)
    r = d['replay']
    init = r['init']
    ADSK = {'full': ADS_FULL, 'nodens': ADS_NODENS, 'water': 'water', 'nitrogen': 'nitrogen'}
    iso = make_iso(tuple(init[0]), tuple(init[1]), tuple(init[2]), init[3], init[4], ADSK[init[5]], MAT_FULL, tag='r')
    print('initial', snapshot(iso)['labels'])
    sib = None
    if r.get('sibling'):
        import pygaps
        sib = pygaps.PointIsotherm.from_isotherm(iso, isotherm_data=iso.data_raw, pressure_key=iso.pressure_key, loading_key=iso.loading_key)
        sib0 = (snapshot_labels(sib), [float(x) for x in sib.data_raw[sib.pressure_key]], [float(x) for x in sib.data_raw[sib.loading_key]])
    for c in r['calls']:
        oc = do_call(iso, (c[0], tuple(c[1])))
        s = snapshot(iso)
        print(c, '->', oc, s['labels'], s['p'][:2], s['l'][:2])
    if sib is not None:
        now = (snapshot_labels(sib), [float(x) for x in sib.data_raw[sib.pressure_key]], [float(x) for x in sib.data_raw[sib.loading_key]])
        print('isotherm made by from_isotherm(isotherm_data=data_raw): before', sib0[0], sib0[1][:2], 'after', now[0], now[1][:2])
        if now != sib0:
            print('VIOLATION reproduced: a conversion changed another isotherm')
            return 1
        post = snapshot(iso)
        for c in (('P', ('absolute', 'kPa')), ('L', ('mass', 'mg')), ('M', ('mass', 'kg'))):
            do_call(sib, c)
        if snapshot(iso) != post:
            print('VIOLATION reproduced: converting the derived isotherm changed the original')
            return 1
        print('not reproduced')
        return 0
    print('kind of failure recorded:', r['kind'])
    return 1
