"""C13 - IAST results satisfy the IAST equations and known closed forms (PARTIAL proof + certificate checking).

proof phase   : Props/C13.v - the IAST equations (Iast/IastSpec.v), a hand-written model of pgiast.py around the root finder
                (Iast/IastGlue.v), theorems connecting them (Iast/IastTheorems.v); scipy.optimize.root is a premise
correspondence: the model (QNum, vm_compute) is run beside the implementation on every generated call of iast_point /
                reverse_iast / iast_binary_svp / iast_binary_vle: the isotherm methods are tables of the implementation's own
                spreading_pressure_at / loading_at values, the root finder is replaced by what the real scipy call returned
                (captured by proxying the module attribute pgiast.optimize from this process); compared: outcome class,
                start vector, residual vector at the returned point (against the code's own closure), returned loadings /
                fractions / selectivities; the whitelist and the absolute-pressure guard over all 16 model names
oracle/search : certificate check of EVERY returned result on the implementation: fractions in [0,1] summing to one, equal
                spreading pressures at p_i/x_i and the mixing rule, recomputed through the isotherms' own methods; closed forms
                (Henry, equal-capacity Langmuir); permutation; forward o reverse; wrappers == point calculation PER POINT (fraction vectors that do
                not sum to one; sweeps in which some points have no solution: the helper returns iff every point returns); the same numbers handed over
                as ints / tuples / integer and float32 ndarrays / numpy scalars give the result of Python floats (certificate + closed forms);
                point-isotherm OBJECTS WITH A HISTORY (earlier queries with other interpolation kinds / fills / branches / units, inverse queries, spreading
                pressures with a fill, permanent conversions, an earlier IAST call): every IAST entry point gives what FRESH objects holding the same rows,
                marks and units give, the result satisfies the IAST equations for the isotherms given by the data (piecewise-linear interpolant and its
                spreading-pressure integral recomputed from the rows without the objects' query methods), and a default query on the used object returns the
                piecewise-linear interpolant of Iast/PointPL.v executed inside Coq (refused outside the measured range)
"""
import itertools
import math
import random
import warnings

import numpy as np

import vlib
from vlib import fme

MANIFEST = dict(
    text="PARTIAL proof. Machine-checked (Coq 8.16): (i) the IAST equations as a specification over R for any number of components "
         "(Iast/IastSpec.v) with their consequences proved by induction over the component list: invariance under permutation, uniqueness of "
         "the solution for strictly increasing spreading pressures, closed forms for Henry and equal-capacity Langmuir mixtures (extended "
         "Langmuir); forward and reverse IAST invert each other (reverse_iast's gas fractions fed back into iast_point give the same loadings; from "
         "uniqueness + the two post-condition theorems, root finders as premises); (ii) for a hand-written model of pgiast.py (residual vector with last fraction 1-sum, default guess, range test, ideal "
         "mixing, reverse_iast, the _IAST_MODELS whitelist and the absolute-pressure "
         "guard): the residual is zero iff all spreading pressures are equal, and WHENEVER the model returns, the returned loadings satisfy "
         "the IAST equations - under the explicit premise that scipy.optimize.root(method='lm') reports success only at a zero of the residual; "
         "(iii) for the definitions GENERATED from the source of iast_point_fraction / iast_binary_svp / iast_binary_vle (tools/py2v_iastwrap.py, fail-closed): "
         "the fraction helper IS the point calculation at y_i*P for every fraction vector (summing to one or not), the selectivity and vapour-liquid helpers ARE "
         "the map of the point calculation over the requested pressures / compositions - they return exactly when the point calculation returns at every point, "
         "with its values, and otherwise fail with the error of the first refused point (no value for a point without a solution). "
         "That premise is NOT proved (Levenberg-Marquardt is not modelled; its success flag means a convergence test fired, not that the "
         "residual vanished): it is validated on every run by substituting every result the implementation returns back into the IAST "
         "equations through the isotherms' own spreading_pressure_at / loading_at (certificate check), together with the closed forms, "
         "permutation, forward/reverse and wrapper clauses, and by repeating calls with the same numbers in other numeric types (Python ints, "
         "tuples, int16/32/64 and float32 arrays, numpy scalars for partial pressures, total pressure, fractions): same result as with Python floats, "
         "certificate and closed forms included. (iv) the isotherm GIVEN BY THE DATA of a point isotherm is the piecewise-linear interpolant of its rows (Iast/PointPL.v): it passes "
         "through the measured points, is monotone between two of them when they are, and stays within the bounds of the measured loadings (no overshoot); it is executed "
         "(QNum) beside loading_at on objects with a history of other queries, and IAST on such objects is compared with IAST on fresh objects holding the same rows. "
         "The model is tied to the code by executing it (QNum) beside the implementation "
         "on every generated call. Not modelled: exceptions raised inside isotherm methods while the solver iterates, logging, user guesses "
         "rejected by assert_almost_equal, numpy's inf/nan arithmetic at a zero fraction.",
    note="Trusted: Coq kernel; Reals axioms as printed by Print Assumptions; the hand-written model Iast/IastGlue.v (validated by the per-call "
         "correspondence, 1e-9); scipy.optimize.root, scipy.integrate.quad (Toth/Jensen-Seaton spreading pressure) and the pure-component "
         "isotherm methods are oracles (C10/C11 cover the model formulas); theorems over RNum, execution over QNum; certificate tolerance 1e-6 "
         "relative on spreading pressures, 1e-6 of the total loading on loadings.",
    technique="Coq proof of solver glue + consequences of the solver post-condition; certificate checking of actual outputs; model/code correspondence")

HEADER = """From Coq Require Import QArith ZArith String List.
From PG Require Import Lib.Num Lib.Py Lib.Show Iast.IastGlue Iast.IastShow Iast.PointPLShow.
Import ListNotations. Open Scope string_scope. Open Scope Z_scope.
"""
ALL_MODELS = ["Henry", "Langmuir", "DSLangmuir", "TSLangmuir", "BET", "GAB", "Freundlich", "DA", "DR", "Quadratic", "TemkinApprox",
              "Virial", "Toth", "JensenSeaton", "FHVST", "WVST"]
# IAST-capable models whose spreading pressure is defined for every p > 0 (BET is not: 1 - N p must stay positive)
FAMILIES = ['Henry', 'Langmuir', 'DSLangmuir', 'TSLangmuir', 'Quadratic', 'TemkinApprox', 'Toth', 'JensenSeaton']
RTOL_SP = 1e-6      # equal spreading pressures: (max - min) / max|Pi|
RTOL_N = 1e-6       # loadings: relative to the total loading
TRACE = 1e-4       # a component whose returned adsorbed fraction is below this is a trace component


# ------------------------------------------------------------------ building inputs
def lu(rnd, a, b):
    return math.exp(rnd.uniform(math.log(a), math.log(b)))


def rparams(rnd, fam):
    K = lambda: lu(rnd, 0.05, 20)
    M = lambda: lu(rnd, 0.5, 10)
    if fam == 'Henry': return {'K': K()}
    if fam == 'Langmuir': return {'K': K(), 'n_m': M()}
    if fam == 'DSLangmuir': return {'K1': K(), 'n_m1': M(), 'K2': K(), 'n_m2': M()}
    if fam == 'TSLangmuir': return {'K1': K(), 'n_m1': M(), 'K2': K(), 'n_m2': M(), 'K3': K(), 'n_m3': M()}
    if fam == 'Quadratic': return {'n_m': M(), 'Ka': K(), 'Kb': lu(rnd, 0.01, 5)}
    if fam == 'TemkinApprox': return {'n_m': M(), 'K': K(), 'tht': rnd.uniform(0, 0.5)}
    if fam == 'Toth': return {'n_m': M(), 'K': K(), 't': rnd.uniform(0.3, 1.5)}
    if fam == 'JensenSeaton': return {'K': lu(rnd, 0.5, 20), 'a': M(), 'b': lu(rnd, 0.01, 1), 'c': rnd.uniform(0.3, 2)}
    raise KeyError(fam)


def make_iso(spec):
    """spec = ('model', name, params|None, mode) | ('point', name, params, npts, pmax)"""
    import pygaps
    from pygaps.modelling import get_isotherm_model
    if spec[0] == 'model':
        _, name, params, mode = spec
        kw = dict(pressure_range=(0.0, 100.0), loading_range=(0.0, 100.0))
        if params:
            kw['parameters'] = params
        m = get_isotherm_model(name, **kw)
        return pygaps.ModelIsotherm(model=m, material='verif_m', adsorbate='N2', temperature=300, pressure_mode=mode,
                                    pressure_unit='bar' if mode == 'absolute' else None)
    name, params, npts, pmax = spec[1:5]
    m = get_isotherm_model(name, parameters=params)
    p = np.geomspace(pmax * 1e-4, pmax, npts)
    l = [float(m.loading(x)) for x in p]
    if spec[0] == 'point2':          # measured with a desorption run (higher loadings: hysteresis), marks given
        pd_ = np.geomspace(pmax * 0.9, pmax * 1e-3, spec[5])
        ld = [float(m.loading(x)) * (1.0 + 0.3 * (1 - x / pmax)) for x in pd_]
        return pygaps.PointIsotherm(pressure=list(p) + list(pd_), loading=l + ld, branch=[False] * len(p) + [True] * len(pd_), material='verif_m', adsorbate='N2',
                                    temperature=300, pressure_mode='absolute', pressure_unit='bar')
    return pygaps.PointIsotherm(pressure=list(p), loading=l, material='verif_m', adsorbate='N2',
                                temperature=300, pressure_mode='absolute', pressure_unit='bar')


INTERP_KINDS = ['cubic', 'quadratic', 'nearest', 'zero', 'slinear', 'linear']


def random_history(rnd, spec, n_ops):
    """what a user may have done with a point isotherm before handing it to IAST: queries with other interpolation kinds / fills / branches / units,
    inverse queries, spreading pressures with a fill, permanent unit conversions (there and back, or staying). json-able list of operations"""
    ops = []
    menu = ['kind', 'kind', 'kind', 'fill', 'units', 'pressure_at', 'spreading', 'convert-roundtrip', 'convert-loading', 'linear-then-kind', 'kind-fill']
    if spec[0] == 'point2':
        menu += ['branch', 'branch-kind']
    for _ in range(n_ops):
        w = rnd.choice(menu)
        f = rnd.uniform(0.02, 0.9)       # where in the measured range the query lies
        kind = rnd.choice(INTERP_KINDS[:5])
        if w == 'kind':
            ops.append(['loading_at', f, {'interpolation_type': kind}])
        elif w == 'fill':
            ops.append(['loading_at', f, {'interp_fill': rnd.choice(['extrapolate', 0.0, 7.5])}])
        elif w == 'kind-fill':
            ops.append(['loading_at', f, {'interpolation_type': kind, 'interp_fill': 'extrapolate'}])
        elif w == 'units':
            ops.append(['loading_at', f, rnd.choice([{'pressure_unit': 'kPa', 'pressure_mode': 'absolute'}, {'loading_unit': 'mol'}, {'material_unit': 'kg'},
                                                     {'loading_basis': 'mass', 'loading_unit': 'mg', 'interpolation_type': kind}])])
        elif w == 'pressure_at':
            ops.append(['pressure_at', f, {'interpolation_type': kind} if rnd.random() < 0.7 else {}])
        elif w == 'spreading':
            ops.append(['spreading_pressure_at', f, {'interp_fill': rnd.choice(['extrapolate', 5.0])} if rnd.random() < 0.6 else {}])
        elif w == 'convert-roundtrip':
            u = rnd.choice(['kPa', 'torr', 'Pa'])
            ops.append(['convert_pressure', None, {'unit_to': u}])
            if rnd.random() < 0.6:
                ops.append(['loading_at', f, {'interpolation_type': kind}])
            ops.append(['convert_pressure', None, {'unit_to': 'bar'}])
        elif w == 'convert-loading':
            ops.append(['convert_loading', None, {'unit_to': rnd.choice(['mol', 'mmol'])}])
            if rnd.random() < 0.5:
                ops.append(['loading_at', f, {'interpolation_type': kind}])
        elif w == 'linear-then-kind':
            ops.append(['loading_at', f, {}])
            ops.append(['loading_at', f, {'interpolation_type': kind}])
        elif w == 'branch':
            ops.append(['loading_at', f, {'branch': 'des'}])
        elif w == 'branch-kind':
            ops.append(['loading_at', f, {'branch': 'des', 'interpolation_type': kind}])
    return ops


def apply_history(iso, ops):
    """run the operations on the object (outcomes are not judged here: a refused query is part of the history too). -> list of outcome classes"""
    import pygaps
    out = []
    if not isinstance(iso, pygaps.PointIsotherm):
        return out
    for name, f, kw in ops:
        kw = dict(kw)
        if isinstance(kw.get('interp_fill'), list):
            kw['interp_fill'] = tuple(kw['interp_fill'])
        br = kw.get('branch', 'ads')
        if name in ('loading_at', 'spreading_pressure_at'):
            ps = np.asarray(iso.pressure(branch=br, pressure_unit=kw.get('pressure_unit'), pressure_mode=kw.get('pressure_mode')), dtype=float)
            x = float(ps.min() + f * (ps.max() - ps.min()))
            out.append(call(getattr(iso, name), x, **kw)[0])
        elif name == 'pressure_at':
            ls = np.asarray(iso.loading(branch=br), dtype=float)
            out.append(call(iso.pressure_at, float(ls.min() + f * (ls.max() - ls.min())), **kw)[0])
        else:
            out.append(call(getattr(iso, name), **kw)[0])
    return out


def fresh_twin(iso):
    """a NEW object holding what the given isotherm holds now (same rows, marks, units, metadata) and nothing else: no query was ever made on it"""
    import pygaps
    if not isinstance(iso, pygaps.PointIsotherm):
        return iso          # model isotherms hold parameters only (no interpolators); they get no history here
    return pygaps.PointIsotherm(pressure=[float(v) for v in iso.pressure()], loading=[float(v) for v in iso.loading()],
                                branch=[bool(v) for v in iso.data_raw['branch']], material='verif_m', adsorbate='N2', temperature=float(iso.temperature),
                                temperature_unit=iso.temperature_unit, pressure_mode=iso.pressure_mode, pressure_unit=iso.pressure_unit, loading_basis=iso.loading_basis,
                                loading_unit=iso.loading_unit, material_basis=iso.material_basis, material_unit=iso.material_unit)


def pl_pure(iso, p):
    """the pure-component isotherm GIVEN BY THE DATA of a point isotherm, recomputed without any of its query methods: loading = piecewise-linear
    interpolant of the adsorption rows (numpy.interp), spreading pressure = integral of n(p)/p over that interpolant with Henry's law below the first
    point. -> (loading, spreading pressure) | None outside the measured range"""
    P = np.asarray(iso.pressure(branch='ads'), dtype=float)
    L = np.asarray(iso.loading(branch='ads'), dtype=float)
    if not (np.all(np.diff(P) > 0) and P[0] <= p <= P[-1]):
        return None
    n = float(np.interp(p, P, L))
    area = float(L[0])                      # integral of (L0/P0) p / p from 0 to P0
    for i in range(len(P) - 1):
        hi = min(p, P[i + 1])
        if hi <= P[i]:
            break
        slope = (L[i + 1] - L[i]) / (P[i + 1] - P[i])
        icpt = L[i] - slope * P[i]
        area += slope * (hi - P[i]) + icpt * math.log(hi / P[i])
    return n, area


def pl_certificate(isos, p0, xs, loadings):
    """the IAST equations for the isotherms GIVEN BY THE DATA (point isotherms: pl_pure; model isotherms: their own methods). -> (None | failed clause, detail)"""
    import pygaps
    xs = [float(x) for x in xs]
    if min(xs) <= 0:
        return None, 'zero fraction'
    sp, ld = [], []
    for i, p, x in zip(isos, p0, xs):
        if isinstance(i, pygaps.PointIsotherm):
            v = pl_pure(i, p / x)
            if v is None:
                return None, 'outside the measured range'
            ld.append(v[0]); sp.append(v[1])
        else:
            a, b = pure(i, 'ld', p / x), pure(i, 'sp', p / x)
            if a is None or b is None:
                return None, 'pure-component value unavailable'
            ld.append(a); sp.append(b)
    if any(v == 0 for v in ld):
        return None, 'zero loading'
    scale = max(abs(v) for v in sp)
    if scale > 0 and (max(sp) - min(sp)) > RTOL_SP * scale:
        return 'unequal-spreading-pressure', {'spreading_pressures_of_the_piecewise_linear_isotherms': sp, 'fractions': xs}
    inv = sum(x / l for x, l in zip(xs, ld))
    tot = float(sum(loadings))
    if abs(tot * inv - 1.0) > 1e-8:
        return 'mixing-rule', {'n_total': tot, 'sum x_i/n0_i (piecewise-linear isotherms)': inv}
    return None, {'sp': sp, 'ld': ld}


def rspec(rnd, point_ok=True):
    if point_ok and rnd.random() < 0.2:
        fam = rnd.choice(['Langmuir', 'DSLangmuir', 'Toth'])
        return ('point', fam, rparams(rnd, fam), rnd.choice([25, 40, 80]), lu(rnd, 50, 5000))
    fam = rnd.choice(FAMILIES)
    return ('model', fam, rparams(rnd, fam), 'absolute')


def gen(tier, seed):
    rnd = random.Random(seed)
    big = tier == 'thorough'
    C = []

    def pressures(n, wide):
        base = lu(rnd, 1e-2, 20)
        span = 300 if wide else 8
        return [base * lu(rnd, 1 / span, 1.0) for _ in range(n)]
    # A: general mixtures
    for i in range(2500 if big else 260):
        n = rnd.choice([2, 2, 3, 4])
        specs = [rspec(rnd) for _ in range(n)]
        p = pressures(n, rnd.random() < 0.25)
        guess = None
        if rnd.random() < 0.25:
            g = [rnd.uniform(0.05, 1) for _ in range(n)]
            guess = [x / sum(g) for x in g]
        C.append(dict(kind='point', specs=specs, p=p, guess=guess))
    # B: closed forms
    for i in range(600 if big else 70):
        n = rnd.choice([2, 3, 4])
        Ks = [lu(rnd, 0.05, 20) for _ in range(n)]
        C.append(dict(kind='henry', specs=[('model', 'Henry', {'K': k}, 'absolute') for k in Ks], p=pressures(n, False), guess=None))
        M = lu(rnd, 0.5, 10)
        C.append(dict(kind='langmuir_eq', specs=[('model', 'Langmuir', {'K': k, 'n_m': M}, 'absolute') for k in Ks], p=pressures(n, False), guess=None))
    # B2: the same closed form through the numerically integrated model: Toth with t = 1 IS Langmuir, so a mixture of Langmuir / Toth(t=1) components of
    #     equal capacity must give the extended-Langmuir loadings - at ordinary AND at trace-level partial pressures (down to 1e-7). Own generator.
    rb2 = random.Random(seed * 49979687 + 5)
    for i in range(120 if big else 16):
        n = rb2.choice([2, 2, 3])
        Ks = [lu(rb2, 0.05, 20) for _ in range(n)]
        M = lu(rb2, 0.5, 10)
        toth = [rb2.random() < 0.6 for _ in range(n)]
        toth[rb2.randrange(n)] = True
        base = lu(rb2, 1e-7, 1e-2) if i % 4 else lu(rb2, 1e-2, 20)
        C.append(dict(kind='langmuir_eq', specs=[('model', 'Toth', {'K': k, 'n_m': M, 't': 1.0}, 'absolute') if tt else ('model', 'Langmuir', {'K': k, 'n_m': M}, 'absolute')
                                                  for k, tt in zip(Ks, toth)], p=[base * lu(rb2, 1 / 8.0, 1.0) for _ in range(n)], guess=None, sub2='toth-t1'))
    # C: permutations (model isotherms, moderate pressure ratios)
    for i in range(800 if big else 90):
        n = rnd.choice([2, 3, 3, 4])
        specs = [rspec(rnd, point_ok=rnd.random() < 0.3) for _ in range(n)]
        perm = list(range(n))
        while perm == list(range(n)):
            rnd.shuffle(perm)
        C.append(dict(kind='perm', specs=specs, p=pressures(n, False), perm=perm, guess=None))
    # D: forward o reverse (adsorbed fractions are multiples of 2^-10 so that they sum to exactly one in binary64 and in Q)
    for i in range(600 if big else 70):
        n = rnd.choice([2, 2, 3, 4])
        specs = [rspec(rnd, point_ok=False) for _ in range(n)]
        cuts = sorted(rnd.sample(range(64, 960), n - 1))
        xs = [(b - a) / 1024.0 for a, b in zip([0] + cuts, cuts + [1024])]
        guess = None
        if rnd.random() < 0.2:
            g = [rnd.uniform(0.05, 1) for _ in range(n)]
            guess = [x / sum(g) for x in g]
        C.append(dict(kind='reverse', specs=specs, x=xs, P=lu(rnd, 0.05, 20), guess=guess))
    # E: wrappers
    for i in range(60 if big else 8):
        specs = [rspec(rnd, point_ok=False) for _ in range(2)]
        y1 = rnd.choice([0.25, 0.5, 0.125, 0.75, 0.0625])
        C.append(dict(kind='svp', specs=specs, y=[y1, 1.0 - y1], Ps=sorted(lu(rnd, 0.05, 20) for _ in range(rnd.randint(2, 6)))))
        C.append(dict(kind='vle', specs=specs, P=lu(rnd, 0.05, 20), npoints=rnd.choice([3, 5, 9])))
        C.append(dict(kind='fraction', specs=[rspec(rnd, point_ok=False) for _ in range(rnd.choice([2, 3]))], P=lu(rnd, 0.05, 20)))
    # T: numeric TYPE of the inputs: whole-number partial pressures / total pressures and dyadic fractions, handed over as Python ints, tuples,
    #    integer (int16/32/64) / float32 ndarrays, numpy scalars ... must give what the same numbers give as Python floats
    for i in range(320 if big else 36):
        n = rnd.choice([2, 2, 3])
        sub = ['henry', 'langmuir_eq', 'general', 'general'][i % 4]
        Ks = [lu(rnd, 0.05, 5) for _ in range(n)]
        M = lu(rnd, 0.5, 10)
        if sub == 'henry':
            specs = [('model', 'Henry', {'K': k}, 'absolute') for k in Ks]
        elif sub == 'langmuir_eq':
            specs = [('model', 'Langmuir', {'K': k, 'n_m': M}, 'absolute') for k in Ks]
        else:
            specs = [rspec(rnd, point_ok=rnd.random() < 0.2) for _ in range(n)]
        base = rnd.choice([1, 1, 3, 10])
        C.append(dict(kind='types', sub=sub, specs=specs, p=[rnd.randint(1, 9) * base for _ in range(n)], variants=rnd.sample(sorted(TYPE_VARIANTS), 3)))
    for i in range(120 if big else 14):
        n = rnd.choice([2, 2, 3])
        specs = [rspec(rnd, point_ok=False) for _ in range(n)]
        cuts = sorted(rnd.sample(range(64, 960, 32), n - 1))
        xs = [(b - a) / 1024.0 for a, b in zip([0] + cuts, cuts + [1024])]
        C.append(dict(kind='types-wrappers', specs=specs, x=xs, P=rnd.randint(1, 12), variants=rnd.sample(sorted(TYPE_VARIANTS), 3)))
    # E2: the fraction helper on ARBITRARY fraction vectors: summing to one, diluted in a non-adsorbing carrier (sum < 1), sloppy (sum 0.9 .. 1.1),
    #     in excess (sum up to 3); closed-form families and general mixtures incl. point isotherms; default and user starting guesses
    rw = random.Random(seed * 104729 + 13)
    for i in range(320 if big else 48):
        n = rw.choice([2, 2, 3, 4])
        sub = ['general', 'henry', 'langmuir_eq', 'general'][i % 4]
        Ks = [lu(rw, 0.05, 20) for _ in range(n)]
        M = lu(rw, 0.5, 10)
        if sub == 'henry':
            specs = [('model', 'Henry', {'K': k}, 'absolute') for k in Ks]
        elif sub == 'langmuir_eq':
            specs = [('model', 'Langmuir', {'K': k, 'n_m': M}, 'absolute') for k in Ks]
        else:
            specs = [rspec(rw) for _ in range(n)]
        how = ['normalised', 'diluted', 'sloppy', 'excess'][(i // 4) % 4]
        raw = [rw.uniform(0.05, 1) for _ in range(n)]
        target = {'normalised': 1.0, 'diluted': rw.uniform(0.05, 0.9), 'sloppy': rw.choice([0.9, 0.95, 0.99, 1.01, 1.05, 1.1]), 'excess': rw.uniform(1.2, 3.0)}[how]
        ys = [r / sum(raw) * target for r in raw]
        guess = None
        if rw.random() < 0.2:
            g = [rw.uniform(0.05, 1) for _ in range(n)]
            guess = [x / sum(g) for x in g]
        C.append(dict(kind='fraction', sub=sub, how=how, specs=specs, y=ys, P=lu(rw, 0.05, 20), guess=guess))
    # E3: sweeps in which SOME points have no solution: point isotherms measured up to a few bar (the spreading pressure cannot be extrapolated
    #     beyond the data), total pressures / compositions on both sides of that limit, in increasing and in arbitrary order
    for i in range(240 if big else 36):
        pmax = lu(rw, 2, 30)
        def small_point():
            fam = rw.choice(['Langmuir', 'DSLangmuir', 'Toth'])
            return ('point', fam, rparams(rw, fam), rw.choice([25, 40]), pmax * rw.uniform(0.5, 1.5))
        specs = [small_point(), small_point() if rw.random() < 0.5 else rspec(rw, point_ok=False)]
        rw.shuffle(specs)
        y1 = rw.choice([0.25, 0.5, 0.125, 0.75, 0.0625, 0.875])
        if i % 3 != 2:
            Ps = [pmax * lu(rw, 0.005, 0.3) for _ in range(rw.randint(1, 3))] + [pmax * lu(rw, 0.05, 4) for _ in range(rw.randint(1, 4))]
            if rw.random() < 0.5:
                Ps.sort()
            else:
                rw.shuffle(Ps)
            guess = None if rw.random() < 0.8 else [y1, 1.0 - y1]
            C.append(dict(kind='svp', specs=specs, y=[y1, 1.0 - y1], Ps=Ps, guess=guess, sweep='partly-unsolvable'))
        else:
            C.append(dict(kind='vle', specs=specs, P=pmax * lu(rw, 0.02, 1.2), npoints=rw.choice([3, 5, 9]), sweep='partly-unsolvable'))
        if i % 4 == 1:      # the fraction helper where the point calculation may have no result
            raw = [rw.uniform(0.05, 1), rw.uniform(0.05, 1)]
            tgt = rw.choice([1.0, rw.uniform(0.1, 0.9), rw.uniform(1.1, 2.0)])
            C.append(dict(kind='fraction', sub='general', how='near-data-limit', specs=specs, y=[v / sum(raw) * tgt for v in raw], P=pmax * lu(rw, 0.05, 3), guess=None))
    # E4: selectivity sweeps with gas fractions that do NOT sum to one (documented: "Must add to 1"; the helper refuses them): whatever it does, it must not
    #     report values that differ from the point calculation at y*P
    for i in range(60 if big else 10):
        specs = [rspec(rw, point_ok=False) for _ in range(2)]
        raw = [rw.uniform(0.05, 1), rw.uniform(0.05, 1)]
        tgt = rw.choice([0.5, 0.9, 0.99, 1.01, 1.1, 2.0])
        C.append(dict(kind='svp', specs=specs, y=[v / sum(raw) * tgt for v in raw], Ps=sorted(lu(rw, 0.05, 20) for _ in range(rw.randint(2, 4))), guess=None,
                      sweep='fractions-not-normalised'))
    # H: point-isotherm OBJECTS WITH A HISTORY: before the IAST call the same objects were queried with other interpolation kinds / fills / branches /
    #    units, inverted, converted for good or there and back, or used in an earlier IAST call. The calculation must give what FRESH twins (new objects
    #    holding the same rows, marks and units) give, and satisfy the IAST equations for the isotherms given by the data (piecewise linear)
    rh = random.Random(seed * 15485863 + 7)
    fns = ['point', 'reverse', 'fraction', 'point', 'svp', 'vle']
    # second stream (own generator, the first one is left as it was): every point isotherm is QUERIED and then CONVERTED FOR GOOD (material unit, loading
    # unit or pressure unit, staying there) before the IAST call - what the object caches across a permanent conversion must not reach the result
    rc = random.Random(seed * 32452843 + 11)
    for i in list(range(360 if big else 54)) + [-1 - k for k in range(90 if big else 14)]:
        conv = i < 0
        if conv:
            rh_keep, rh, i = rh, rc, -1 - i
        fn = fns[i % len(fns)]
        n = 2 if fn in ('svp', 'vle') else rh.choice([2, 2, 3])
        pm_common = lu(rh, 50, 1500)
        specs = []
        for j in range(n):
            if rh.random() < 0.8 or (j == n - 1 and all(s_[0] == 'model' for s_ in specs)):
                fam = rh.choice(['Langmuir', 'DSLangmuir', 'Toth'])
                base = ('point', fam, rparams(rh, fam), rh.choice([10, 14, 20, 30]), pm_common if fn == 'vle' else lu(rh, 50, 1500))
                specs.append(base if rh.random() < 0.65 else ('point2',) + base[1:] + (rh.choice([6, 9, 12]),))
            else:
                specs.append(rspec(rh, point_ok=False))
        hist = [random_history(rh, s_, rh.randint(1, 3)) if s_[0] != 'model' else [] for s_ in specs]
        if conv:
            for s_, h_ in zip(specs, hist):
                if s_[0] == 'model':
                    continue
                for _ in range(rh.randint(1, 2)):
                    h_.append([rh.choice(['loading_at', 'loading_at', 'spreading_pressure_at', 'pressure_at']), rh.uniform(0.02, 0.9), {}])
                    h_.append(rh.choice([['convert_material', None, {'unit_to': rh.choice(['kg', 'mg', 'g'])}], ['convert_material', None, {'unit_to': rh.choice(['kg', 'mg'])}],
                                         ['convert_loading', None, {'unit_to': rh.choice(['mol', 'mmol'])}], ['convert_pressure', None, {'unit_to': rh.choice(['kPa', 'torr'])}]]))
        # pressures inside the measured range of every point isotherm (rows from pmax * 1e-4 to pmax)
        pms = [s_[4] for s_ in specs if s_[0] != 'model']
        lo, hi = 5e-4 * max(pms), 0.05 * min(pms)
        cuts = sorted(rh.sample(range(64, 960), n - 1))
        fr = [(b - a) / 1024.0 for a, b in zip([0] + cuts, cuts + [1024])]
        C.append(dict(kind='history', fn=fn, specs=specs, history=hist, earlier_iast=rh.random() < 0.3, iast_first=rh.random() < 0.5, p=[lu(rh, lo, hi) for _ in range(n)],
                      x=fr, P=hi * rh.uniform(0.6, 1.0) if fn == 'vle' else lu(rh, 16 * lo, 4 * hi), Ps=sorted(lu(rh, 16 * lo, 4 * hi) for _ in range(rh.randint(2, 4))),
                      npoints=rh.choice([3, 5])))
        if conv:
            rh = rh_keep
    # F: guards: every model name (whitelist), relative pressure, one component, wrong number of pressures, wrapper argument checks
    for name in ALL_MODELS:
        for fn in ('point', 'reverse'):
            C.append(dict(kind='guard', fn=fn, specs=[('model', name, None, 'absolute'), ('model', 'Henry', {'K': 1.0}, 'absolute')], p=[0.5, 0.5]))
    for mode in ('relative', 'relative%'):
        for fn in ('point', 'reverse', 'svp', 'vle'):
            C.append(dict(kind='guard', fn=fn, specs=[('model', 'Langmuir', {'K': 1.0, 'n_m': 2.0}, mode), ('model', 'Henry', {'K': 1.0}, 'absolute')], p=[0.5, 0.5]))
    h = ('model', 'Henry', {'K': 1.0}, 'absolute')
    for fn in ('point', 'reverse'):
        C.append(dict(kind='guard', fn=fn, specs=[h], p=[1.0]))
        C.append(dict(kind='guard', fn=fn, specs=[h, h], p=[0.25, 0.25, 0.5]))
        C.append(dict(kind='guard', fn=fn, specs=[h, h, h], p=[0.5, 0.5]))
    C.append(dict(kind='guard', fn='reverse', specs=[h, h], p=[0.5, 0.25]))        # fractions do not sum to one
    C.append(dict(kind='guard', fn='svp', specs=[h, h, h], p=[0.5, 0.5]))
    C.append(dict(kind='guard', fn='svp', specs=[h, h], p=[0.5, 0.25]))
    C.append(dict(kind='guard', fn='svp', specs=[h, h], p=[0.25, 0.25, 0.5]))
    C.append(dict(kind='guard', fn='vle', specs=[h, h, h], p=[0.5, 0.5]))
    return C


# the same numbers in another numeric type (values are whole numbers or dyadic fractions, exactly representable in every one of them)
TYPE_VARIANTS = {
    'int-list': lambda v: [int(a) if float(a).is_integer() else float(a) for a in v],
    'int-tuple': lambda v: tuple(int(a) if float(a).is_integer() else float(a) for a in v),
    'int64-array': lambda v: np.array(v, dtype=np.int64) if all(float(a).is_integer() for a in v) else np.array(v, dtype=np.float64),
    'int32-array': lambda v: np.array(v, dtype=np.int32) if all(float(a).is_integer() for a in v) else np.array(v, dtype=np.float64),
    'int16-array': lambda v: np.array(v, dtype=np.int16) if all(float(a).is_integer() for a in v) else np.array(v, dtype=np.float64),
    'npint-list': lambda v: [np.int64(a) if float(a).is_integer() else np.float64(a) for a in v],
    'float32-array': lambda v: np.array(v, dtype=np.float32),
    'npfloat32-list': lambda v: [np.float32(a) for a in v],
    'float64-array': lambda v: np.array(v, dtype=np.float64),
    'mixed-list': lambda v: [int(a) if (j % 2 == 0 and float(a).is_integer()) else float(a) for j, a in enumerate(v)],
}
LOWP = ('float32-array', 'npfloat32-list')     # reduced precision: the default start vector is computed in that precision
SCALAR_VARIANTS = {'int-list': int, 'int-tuple': int, 'int64-array': np.int64, 'int32-array': np.int32, 'int16-array': np.int16, 'npint-list': np.int64,
                   'float32-array': np.float32, 'npfloat32-list': np.float32, 'float64-array': np.float64, 'mixed-list': int}


# ------------------------------------------------------------------ running the implementation
class OptProxy:
    """stands in for the module attribute pgiast.optimize: records what scipy.optimize.root was given and returned"""

    def __init__(self, real):
        self._real = real
        self.calls = []

    def __getattr__(self, k):
        return getattr(self._real, k)

    def root(self, fun, x0, *a, **kw):
        res = self._real.root(fun, x0, *a, **kw)
        self.calls.append((fun, np.array(x0, dtype=float), res))
        return res


def call(fn, *a, **kw):
    with warnings.catch_warnings():
        warnings.simplefilter('ignore')
        with np.errstate(all='ignore'):
            try:
                return 'Ok', fn(*a, **kw)
            except Exception as e:  # noqa
                return vlib.exn_class(e), None


def pure(iso, what, p):
    """the isotherm's own method; None when it refuses or gives a non-finite value"""
    with warnings.catch_warnings():
        warnings.simplefilter('ignore')
        with np.errstate(all='ignore'):
            try:
                v = float(iso.spreading_pressure_at(p, branch='ads')) if what == 'sp' else float(iso.loading_at(p))
            except Exception:  # noqa
                return None
    return v if math.isfinite(v) else None


def certificate(isos, p0, xs, loadings):
    """substitute a returned result back into the IAST equations through the isotherms' own methods.
    -> (None | kind of failed clause, detail)"""
    xs = [float(x) for x in xs]
    if any((not math.isfinite(x)) or x < -1e-12 or x > 1 + 1e-12 for x in xs):
        return 'fraction-out-of-range', xs
    if abs(sum(xs) - 1.0) > 1e-9:
        return 'fractions-do-not-sum-to-one', sum(xs)
    if min(xs) <= 0:
        return None, 'zero fraction: fictitious pressure undefined, not judged'
    sp = [pure(i, 'sp', p / x) for i, p, x in zip(isos, p0, xs)]
    ld = [pure(i, 'ld', p / x) for i, p, x in zip(isos, p0, xs)]
    if any(v is None for v in sp + ld) or any(v == 0 for v in ld):
        return None, 'pure-component value unavailable at the fictitious pressure, not judged'
    scale = max(abs(v) for v in sp)
    if scale > 0 and (max(sp) - min(sp)) > RTOL_SP * scale:
        return 'unequal-spreading-pressure', {'spreading_pressures': sp, 'fractions': xs}
    inv = sum(x / l for x, l in zip(xs, ld))
    tot = float(sum(loadings))
    if abs(tot * inv - 1.0) > 1e-8:
        return 'mixing-rule', {'n_total': tot, 'sum x_i/n0_i': inv}
    return None, {'sp': sp, 'ld': ld}


def zme(x):
    return '((%d), (%d))' % fme(float(x))


def zlist(xs):
    return '[' + '; '.join(zme(x) for x in xs) + ']'


def coq_comp(spec, iso, sp_keys, ld_keys, x=1.0, xmax=1.0):
    """-> Coq term of the component with tables of the implementation's own values, or None when a value is unavailable.
    x: the fraction the fictitious pressures were divided by; its binary64 value (1 - sum of the others for the last component)
    differs from the exact one by up to ~1e-16 * max(1, max|x_j|) absolute, hence the key tolerance 1e-12 + 1e-14 * max(1, max|x_j|) / |x|"""
    rows = {'sp': [], 'ld': []}
    td = int(1.0 / (1e-12 + 1e-14 * max(1.0, xmax) / max(abs(x), 1e-300)))
    for what, keys in (('sp', sp_keys), ('ld', ld_keys)):
        for j, k in enumerate(keys):
            if not (math.isfinite(k)):
                return None
            v = pure(iso, what, k)
            if v is None:
                return None
            exact_key = what == 'ld' and len(keys) == 2 and j == 0       # the partial pressure itself (default guess)
            rows[what].append('(%s, %s, %d)' % (zme(k), zme(v), 10 ** 12 if exact_key else max(td, 1)))
    is_model = spec[0] == 'model'
    name = spec[1] if is_model else ''
    mode = spec[3] if is_model else 'absolute'
    return '(qcomp %s "%s" "%s" [%s] [%s])' % ('true' if is_model else 'false', name, mode, '; '.join(rows['sp']), '; '.join(rows['ld']))


def occode(oc):
    return vlib.EXN.index(oc) if oc in vlib.EXN else 99


def classify(kind, case, xs=None):
    """narrow tag from the input pattern / the kind of failed clause"""
    if kind == 'unequal-spreading-pressure' and xs is not None and min(xs) < TRACE:
        return 'C13:trace-component-unequal-spreading'
    return 'C13:unclassified:%s:%s' % (case.get('kind'), kind)


def jsonable(case):
    return {k: (v if not isinstance(v, tuple) else list(v)) for k, v in case.items()}


EXTRA_TARGETS = ['Iast/IastShow.vo', 'Iast/IastExamples.vo', 'Iast/PointPLShow.vo']


def run(rep, tier, seed):
    vlib.standard_proof_phase(rep, 'C13', extra_targets=EXTRA_TARGETS)
    explore(rep, tier, seed)
    if rep.broken and not rep.violations and tier != 'thorough':
        explore(rep, 'thorough', seed + 1)


def explore(rep, tier, seed):
    import pygaps.iast.pgiast as pg
    import scipy.optimize
    cases = gen(tier, seed)
    proxy = OptProxy(scipy.optimize)
    pg.optimize = proxy
    try:
        _explore(rep, tier, cases, pg, proxy)
    finally:
        pg.optimize = scipy.optimize


def _explore(rep, tier, cases, pg, proxy):
    terms, term_case = [], []          # Coq correspondence terms and the case each belongs to
    hist, nontrivial = {}, set()
    n_eval = 0
    worst = {'sp_rel': 0.0, 'root_resid_rel': 0.0}

    def note(k):
        hist[k] = hist.get(k, 0) + 1

    def fail(case, kind, what, xs=None, extra=None):
        tag = classify(kind, case, xs)
        rp = jsonable(case)
        rp['failed_clause'] = kind
        if extra is not None:
            rp['observed'] = extra
        rep.failure(tag, what, rp)

    def point_call(case, isos, specs, p, guess, label, p_arg=None, coq=True):
        """iast_point with capture; certificate; correspondence term. -> (oc, loadings|None, fractions|None)
        p_arg: the object actually handed over as partial pressures (same numbers as p in another numeric type)"""
        nonlocal n_eval
        n_eval += 1
        ncalls = len(proxy.calls)
        oc, out = call(pg.iast_point, isos, list(p) if p_arg is None else p_arg, warningoff=True, adsorbed_mole_fraction_guess=None if guess is None else list(guess))
        cap = proxy.calls[-1] if len(proxy.calls) > ncalls else None
        note('%s/%s' % (label, oc))
        xs = None
        if oc == 'Ok':
            out = np.array(out, dtype=float)
            tot = float(out.sum())
            xs = [float(v) / tot for v in out] if tot != 0 and math.isfinite(tot) else None
            if xs is None:
                fail(case, 'non-finite-result', 'iast_point returned %r' % (out,), extra=[float(v) for v in out])
            else:
                kind, det = certificate(isos, p, xs, out)
                if kind:
                    fail(case, kind, 'iast_point%r returned loadings %r which violate the IAST equations: %s %r' % (
                        ([s[1] for s in specs], [float(v) for v in p]), [float(v) for v in out], kind, det), xs=xs,
                        extra={'loadings': [float(v) for v in out], 'detail': det})
                elif isinstance(det, dict):
                    sp = det['sp']
                    worst['sp_rel'] = max(worst['sp_rel'], (max(sp) - min(sp)) / max(abs(v) for v in sp))
                    nontrivial.add((tuple(s[1] for s in specs), tuple(round(math.log10(v), 1) for v in p), guess is None))
        # ---- correspondence term
        if coq and oc in ('Ok', 'ParameterError', 'CalculationError'):
            t = fwd_term(specs, isos, p, guess, cap, oc, out)
            if t:
                terms.append(t); term_case.append((case, label))
        return oc, out, xs

    def fwd_term(specs, isos, p, guess, cap, oc, out):
        n = len(isos)
        if cap is None:
            if oc != 'ParameterError':
                return None
            comps = [coq_comp(s, i, [], []) for s, i in zip(specs, isos)]
            return 'cmp_fwd [%s] %s %s false [] (%d) [] [] (1, 0) (1, 0) []' % ('; '.join(comps), zlist(p), 'None' if guess is None else '(Some %s)' % zlist(guess), occode(oc))
        fun, x0, res = cap
        xr = [float(v) for v in np.atleast_1d(res.x)]
        if len(xr) != n - 1 or len(p) != n or not all(math.isfinite(v) for v in xr):
            return None
        xf = xr + [1.0 - float(np.sum(res.x))]
        inrange = all(0.0 <= v <= 1.0 for v in xf)
        if any(v == 0.0 for v in xf):
            return None
        with np.errstate(all='ignore'), warnings.catch_warnings():
            warnings.simplefilter('ignore')
            try:
                resid = [float(v) for v in fun(np.array(res.x, dtype=float))]
            except Exception:  # noqa
                return None
        if not all(math.isfinite(v) for v in resid):
            return None
        p0 = [float(np.asarray(p)[i] / xf[i]) for i in range(n)]
        comps = [coq_comp(s, i, [p0[k]], ([float(p[k])] if guess is None else []) + ([p0[k]] if (res.success and inrange) else []), xf[k], max(abs(v) for v in xf))
                 for k, (s, i) in enumerate(zip(specs, isos))]
        if any(c is None for c in comps):
            return None
        spv = [pure(i, 'sp', q) for i, q in zip(isos, p0)]
        scale = max([abs(v) for v in spv if v is not None] + [1e-300])
        worst['root_resid_rel'] = max(worst['root_resid_rel'], max(abs(v) for v in resid) / scale if res.success and inrange else 0.0)
        return 'cmp_fwd [%s] %s %s %s %s (%d) %s %s %s %s %s' % (
            '; '.join(comps), zlist(p), 'None' if guess is None else '(Some %s)' % zlist(guess), 'true' if res.success else 'false', zlist(xr),
            occode(oc), zlist(x0), zlist(resid), zme(scale), zme(float(np.sum(np.abs(out))) if oc == 'Ok' else 1.0), zlist(out) if oc == 'Ok' else '[]')

    def rev_term(specs, isos, xs, P, guess, cap, oc, out):
        n = len(isos)
        if cap is None:
            if oc != 'ParameterError':
                return None
            comps = [coq_comp(s, i, [], []) for s, i in zip(specs, isos)]
            return 'cmp_rev [%s] %s %s %s false [] (%d) [] (1, 0) (1, 0) [] []' % ('; '.join(comps), zlist(xs), zme(P), 'None' if guess is None else '(Some %s)' % zlist(guess), occode(oc))
        fun, x0, res = cap
        yr = [float(v) for v in np.atleast_1d(res.x)]
        if len(yr) != n - 1 or not all(math.isfinite(v) for v in yr):
            return None
        yf = yr + [1.0 - float(np.sum(res.x))]
        inrange = all(0.0 <= v <= 1.0 for v in yf)
        with np.errstate(all='ignore'), warnings.catch_warnings():
            warnings.simplefilter('ignore')
            try:
                resid = [float(v) for v in fun(np.array(res.x, dtype=float))]
            except Exception:  # noqa
                return None
        if not all(math.isfinite(v) for v in resid):
            return None
        p0 = [float(P * yf[i] / xs[i]) for i in range(n)]
        comps = [coq_comp(s, i, [p0[k]], [p0[k]] if (res.success and inrange) else [], yf[k], max(abs(v) for v in yf)) for k, (s, i) in enumerate(zip(specs, isos))]
        if any(c is None for c in comps):
            return None
        spv = [pure(i, 'sp', q) for i, q in zip(isos, p0)]
        scale = max([abs(v) for v in spv if v is not None] + [1e-300])
        return 'cmp_rev [%s] %s %s %s %s %s (%d) %s %s %s %s %s' % (
            '; '.join(comps), zlist(xs), zme(P), 'None' if guess is None else '(Some %s)' % zlist(guess), 'true' if res.success else 'false', zlist(yr),
            occode(oc), zlist(resid), zme(scale), zme(float(np.sum(np.abs(out[1]))) if oc == 'Ok' else 1.0),
            zlist(out[0]) if oc == 'Ok' else '[]', zlist(out[1]) if oc == 'Ok' else '[]')

    def close_n(a, b):
        a = np.array(a, dtype=float); b = np.array(b, dtype=float)
        return a.shape == b.shape and bool(np.all(np.abs(a - b) <= RTOL_N * max(float(np.sum(np.abs(b))), 1e-300)))

    for case in cases:
        kind = case['kind']
        specs = case['specs']
        try:
            isos = [make_iso(s) for s in specs]
        except Exception as e:  # noqa  (harness problem, not a verdict)
            raise RuntimeError('cannot build the input isotherms of %r: %r' % (case, e))
        if kind in ('point', 'henry', 'langmuir_eq', 'perm'):
            oc, out, xs = point_call(case, isos, specs, case['p'], case.get('guess'), kind)
            if oc != 'Ok' or xs is None:
                continue
            trace = min(xs) < TRACE
            if kind == 'henry':
                exp = [s[2]['K'] * p for s, p in zip(specs, case['p'])]
                if not close_n(out, exp):
                    fail(case, 'henry-closed-form', 'Henry mixture: returned %r, closed form n_i = K_i p_i = %r' % (list(out), exp), xs=xs, extra=[float(v) for v in out])
            if kind == 'langmuir_eq':
                M = specs[0][2]['n_m']
                c = sum(s[2]['K'] * p for s, p in zip(specs, case['p']))
                exp = [M * s[2]['K'] * p / (1 + c) for s, p in zip(specs, case['p'])]
                if not close_n(out, exp):
                    fail(case, 'langmuir-closed-form', 'equal-capacity Langmuir mixture: returned %r, extended Langmuir gives %r' % (list(out), exp), xs=xs, extra=[float(v) for v in out])
            if kind == 'perm' and not trace:
                pm = case['perm']
                oc2, out2, xs2 = point_call(case, [isos[k] for k in pm], [specs[k] for k in pm], [case['p'][k] for k in pm], None, 'perm2')
                if oc2 == 'Ok' and xs2 is not None and min(xs2) >= TRACE and not close_n(out2, [out[k] for k in pm]):
                    fail(case, 'permutation', 'components permuted by %r: %r, expected the permuted %r' % (pm, list(out2), [float(out[k]) for k in pm]), xs=xs,
                         extra=[float(v) for v in out2])
        elif kind == 'reverse':
            n_eval += 1
            xs, P, guess = case['x'], case['P'], case.get('guess')
            ncalls = len(proxy.calls)
            oc, out = call(pg.reverse_iast, isos, list(xs), P, warningoff=True, gas_mole_fraction_guess=None if guess is None else list(guess))
            cap = proxy.calls[-1] if len(proxy.calls) > ncalls else None
            note('reverse/%s' % oc)
            if oc in ('Ok', 'ParameterError', 'CalculationError'):
                t = rev_term(specs, isos, xs, P, guess, cap, oc, out)
                if t:
                    terms.append(t); term_case.append((case, 'reverse'))
            if oc != 'Ok':
                continue
            ys, nr = [float(v) for v in out[0]], np.array(out[1], dtype=float)
            if any(v < -1e-12 or v > 1 + 1e-12 for v in ys) or abs(sum(ys) - 1) > 1e-9:
                fail(case, 'gas-fraction-range', 'reverse_iast returned gas fractions %r' % ys, extra=ys)
                continue
            pp = [P * y for y in ys]
            tot = float(nr.sum())
            xr = [float(v) / tot for v in nr]
            if max(abs(a - b) for a, b in zip(xr, xs)) > 1e-9:
                fail(case, 'reverse-loadings-not-requested-fractions', 'reverse_iast loadings %r do not have the requested fractions %r' % (list(nr), xs), extra=[float(v) for v in nr])
            ck, det = certificate(isos, pp, xs, nr)
            if ck:
                fail(case, ck, 'reverse_iast(%r, x=%r, P=%r) returned y=%r, n=%r violating the IAST equations: %s %r' % ([s[1] for s in specs], xs, P, ys, list(nr), ck, det),
                     xs=ys, extra={'y': ys, 'n': [float(v) for v in nr], 'detail': det})
                continue
            if min(ys) <= 0:
                continue
            # forward o reverse: the point calculation at p = P*y gives the same loadings (hence the requested fractions)
            oc2, out2, xs2 = point_call(case, isos, specs, pp, None, 'reverse-then-forward')
            if oc2 == 'Ok' and xs2 is not None and min(xs2) >= TRACE and min(ys) >= TRACE and not close_n(out2, nr):
                fail(case, 'forward-reverse', 'reverse_iast gave y=%r, n=%r but iast_point at P*y gives %r' % (ys, list(nr), list(out2)), xs=xs2, extra=[float(v) for v in out2])
            elif oc2 == 'Ok':
                nontrivial.add(('fr', tuple(s[1] for s in specs), round(P, 3)))
        elif kind == 'history':
            n_eval += 1
            fn = case['fn']
            n = len(isos)
            if case.get('earlier_iast') and case.get('iast_first'):
                call(pg.iast_point, isos, [v * 0.5 for v in case['p']], warningoff=True)
            outcomes = [apply_history(i, h) for i, h in zip(isos, case['history'])]
            if case.get('earlier_iast') and not case.get('iast_first'):
                call(pg.iast_point, isos, [v * 0.5 for v in case['p']], warningoff=True)       # an earlier calculation on the same objects, then more queries
                outcomes = [o + apply_history(i, [op for op in h if op[0] in ('loading_at', 'pressure_at')][:1]) for o, i, h in zip(outcomes, isos, case['history'])]
            twins = [fresh_twin(i) for i in isos]
            unit_f = [1.0 if s_[0] == 'model' else float(np.max(np.asarray(i.pressure(branch='ads'), dtype=float))) / s_[4] for s_, i in zip(specs, isos)]
            pp = [float(v * f) for v, f in zip(case['p'], unit_f)]              # partial pressures in the unit each isotherm is in NOW

            def run_on(objs):
                if fn == 'point':
                    return call(pg.iast_point, objs, list(pp), warningoff=True)
                if fn == 'reverse':
                    return call(pg.reverse_iast, objs, list(case['x']), case['P'] * unit_f[0], warningoff=True)
                if fn == 'fraction':
                    return call(pg.iast_point_fraction, objs, list(case['x']), case['P'] * unit_f[0], warningoff=True)
                if fn == 'svp':
                    return call(pg.iast_binary_svp, objs, list(case['x']), [v * unit_f[0] for v in case['Ps']], warningoff=True)
                return call(pg.iast_binary_vle, objs, case['P'] * unit_f[0], npoints=case['npoints'], warningoff=True)
            a = run_on(isos)
            b = run_on(twins)
            note('history-%s/%s' % (fn, a[0]))
            # Coq: after all that, a query with the default arguments on the used object must return the piecewise-linear interpolant of its adsorption rows
            # (Iast/PointPL.v executed on QNum), and be refused outside the measured range
            for s_, i in zip(specs, isos):
                if s_[0] == 'model':
                    continue
                Pa, La = np.asarray(i.pressure(branch='ads'), dtype=float), np.asarray(i.loading(branch='ads'), dtype=float)
                qs = []
                for q_ in [Pa[0], Pa[-1], Pa[0] + 0.13 * (Pa[-1] - Pa[0]), math.sqrt(Pa[0] * Pa[-1]), Pa[0] * 1.7, 0.5 * (Pa[3] + Pa[4]), Pa[-1] * 1.5, Pa[0] * 0.5]:
                    o_, v_ = call(i.loading_at, float(q_))
                    if o_ == 'Ok' and not math.isfinite(float(v_)):
                        continue
                    qs.append('(%s, %d, %s)' % (zme(q_), 0 if o_ == 'Ok' else 1, zme(float(v_)) if o_ == 'Ok' else '(0, 0)'))
                terms.append('cmp_pl [%s] [%s]' % ('; '.join('(%s, %s)' % (zme(u), zme(v)) for u, v in zip(Pa, La)), '; '.join(qs)))
                term_case.append((case, 'history-default-query-is-piecewise-linear'))
            pick = {'point': lambda o: [o], 'fraction': lambda o: [o], 'reverse': lambda o: [o[0], o[1]], 'svp': lambda o: [o['selectivity']],
                    'vle': lambda o: [o['x'], o['y']]}[fn]
            flat = lambda o: [[float(v) for v in np.atleast_1d(u)] for u in pick(o)]
            if a[0] != b[0] or (a[0] == 'Ok' and not all(close_n(u, v) and np.allclose(u, v, rtol=1e-7, atol=0, equal_nan=True) for u, v in zip(pick(a[1]), pick(b[1])))):
                fail(case, 'object-history', '%s on point isotherms that were used before (%r) gives %s %r; fresh objects holding the same rows, marks and units give %s %r' % (
                    fn, case['history'], a[0], flat(a[1]) if a[0] == 'Ok' else None, b[0], flat(b[1]) if b[0] == 'Ok' else None),
                    extra={'with_history': flat(a[1]) if a[0] == 'Ok' else a[0], 'fresh': flat(b[1]) if b[0] == 'Ok' else b[0], 'history_outcomes': outcomes})
                continue
            if a[0] != 'Ok':
                continue
            # the IAST equations for the isotherms given by the data, recomputed without the query methods of the used objects
            if fn in ('point', 'fraction', 'reverse'):
                if fn == 'reverse':
                    ys, nr = [float(v) for v in a[1][0]], np.array(a[1][1], dtype=float)
                    p_eq, out = [case['P'] * unit_f[0] * y for y in ys], nr
                else:
                    p_eq = pp if fn == 'point' else [float(v) * case['P'] * unit_f[0] for v in case['x']]
                    out = np.array(a[1], dtype=float)
                tot = float(out.sum())
                xs = [float(v) / tot for v in out] if tot != 0 and math.isfinite(tot) else None
                if xs is not None and min(xs) >= TRACE:
                    same_units = all(abs(f - 1.0) < 1e-9 for f in unit_f) or fn == 'point'
                    ck, det = pl_certificate(isos, p_eq, xs, out) if same_units else (None, None)
                    if not ck and same_units:
                        ck, det = certificate([fresh_twin(i) for i in isos], p_eq, xs, out)
                    if ck:
                        fail(case, 'history-' + ck, '%s on point isotherms used before (%r) returned %r which violate the IAST equations for the isotherms given by the data '
                             '(piecewise linear between the measured points): %s %r' % (fn, case['history'], flat(a[1]), ck, det), xs=xs, extra={'returned': flat(a[1]), 'detail': det})
                        continue
            nontrivial.add(('history', fn, tuple(s_[1] for s_ in specs), tuple(tuple(op[0] + ':' + ','.join('%s=%s' % kv for kv in sorted(op[2].items())) for op in h) for h in case['history'])))
        elif kind == 'types':
            pf = [float(v) for v in case['p']]
            oc, out, xs = point_call(case, isos, specs, pf, None, 'types-float')
            if oc != 'Ok' or xs is None:
                continue
            if case['sub'] == 'henry':
                exp = [s_[2]['K'] * v for s_, v in zip(specs, pf)]
            elif case['sub'] == 'langmuir_eq':
                c = sum(s_[2]['K'] * v for s_, v in zip(specs, pf))
                exp = [s_[2]['n_m'] * s_[2]['K'] * v / (1 + c) for s_, v in zip(specs, pf)]
            else:
                exp = None
            for j, vn in enumerate(case['variants']):
                arg = TYPE_VARIANTS[vn](case['p'])
                c2 = dict(case, variant=vn)
                exact_vs = [v for v in case['variants'] if v not in LOWP]
                oc2, out2, xs2 = point_call(c2, isos, specs, pf, None, 'types-' + vn, p_arg=arg, coq=bool(exact_vs) and vn == exact_vs[0])
                if vn in LOWP and min(xs) < TRACE:
                    continue      # reduced-precision start vector + trace component: the solver's own tolerance dominates, not judged
                if oc2 != 'Ok' or xs2 is None or not close_n(out2, out):
                    fail(c2, 'input-type', 'iast_point with partial pressures %r (%s) gives %s %r, the same numbers as Python floats give %r' % (
                        arg, vn, oc2, None if out2 is None else [float(v) for v in np.atleast_1d(out2)], [float(v) for v in out]), xs=xs,
                        extra=None if out2 is None else [float(v) for v in np.atleast_1d(out2)])
                elif exp is not None and min(xs) >= TRACE and not close_n(out2, exp):
                    fail(c2, case['sub'] + '-closed-form', '%s mixture with partial pressures %r (%s): returned %r, closed form %r' % (case['sub'], arg, vn, list(out2), exp), xs=xs,
                         extra=[float(v) for v in out2])
                else:
                    nontrivial.add(('types', vn, case['sub'], tuple(s_[1] for s_ in specs)))
        elif kind == 'types-wrappers':
            n = len(isos)
            xs_, P = case['x'], case['P']
            ref_f = call(pg.iast_point_fraction, isos, list(xs_), float(P), warningoff=True)
            ref_r = call(pg.reverse_iast, isos, list(xs_), float(P), warningoff=True)
            ref_s = call(pg.iast_binary_svp, isos[:2], [0.25, 0.75], [float(P), float(P) + 1.0, float(P) + 3.0], warningoff=True)
            ref_v = call(pg.iast_binary_vle, isos[:2], float(P), npoints=3, warningoff=True)
            for vn in case['variants']:
                if vn in LOWP:
                    continue      # float32 / float16 change the default start vector; wrappers are compared for the exact types only
                n_eval += 1
                xa, Pa = TYPE_VARIANTS[vn](xs_), SCALAR_VARIANTS[vn](P)
                c2 = dict(case, variant=vn)
                got_f = call(pg.iast_point_fraction, isos, xa, Pa, warningoff=True)
                got_r = call(pg.reverse_iast, isos, xa, Pa, warningoff=True)
                got_s = call(pg.iast_binary_svp, isos[:2], TYPE_VARIANTS[vn]([0.25, 0.75]), TYPE_VARIANTS[vn]([P, P + 1, P + 3]), warningoff=True)
                got_v = call(pg.iast_binary_vle, isos[:2], Pa, npoints=3, warningoff=True)
                note('types-wrappers-%s/%s' % (vn, got_f[0]))
                def same(a, b, pick):
                    if a[0] != b[0]:
                        return False
                    return a[0] != 'Ok' or all(close_n(u, v) for u, v in zip(pick(a[1]), pick(b[1])))
                bad = [w for w, a, b, pick in (('iast_point_fraction', got_f, ref_f, lambda o: [o]), ('reverse_iast', got_r, ref_r, lambda o: [o[0], o[1]]),
                                               ('iast_binary_svp', got_s, ref_s, lambda o: [o['selectivity']]), ('iast_binary_vle', got_v, ref_v, lambda o: [o['x'], o['y']]))
                       if not same(a, b, pick)]
                if bad:
                    fail(c2, 'input-type', '%s with fractions %r and total pressure %r (%s) differ from the same numbers as Python floats' % (bad, xa, Pa, vn))
                elif got_f[0] == 'Ok':
                    nontrivial.add(('types-wrappers', vn, tuple(s_[1] for s_ in specs)))
        elif kind == 'fraction':
            # iast_point_fraction(isos, y, P) against iast_point(isos, y * P) for ANY fraction vector the helper accepts (it refuses none):
            # same outcome, same loadings; the loadings it returns satisfy the IAST equations AT the partial pressures y_i * P; closed forms
            n_eval += 1
            n = len(isos)
            ys = case.get('y') or [1.0 / n] * n
            P, guess = case['P'], case.get('guess')
            pp = [float(v) for v in np.asarray(ys) * P]
            a = call(pg.iast_point_fraction, isos, list(ys), P, warningoff=True, adsorbed_mole_fraction_guess=None if guess is None else list(guess))
            b = call(pg.iast_point, isos, np.asarray(ys) * P, warningoff=True, adsorbed_mole_fraction_guess=None if guess is None else list(guess))
            note('fraction-%s/%s' % (case.get('how', 'equal'), a[0]))
            okb = b[0] == 'Ok'
            if (a[0] == 'Ok') != okb:
                fail(case, 'fraction-wrapper', 'iast_point_fraction(y=%r, P=%r) -> %s but iast_point at y*P = %r -> %s' % (ys, P, a[0], pp, b[0]),
                     extra={'wrapper': a[0], 'point': b[0]})
            elif okb and not close_n(a[1], b[1]):
                fail(case, 'fraction-wrapper', 'iast_point_fraction(y=%r (sum %r), P=%r) returned %r, iast_point at the partial pressures y*P = %r returns %r' % (
                    ys, sum(ys), P, [float(v) for v in a[1]], pp, [float(v) for v in b[1]]), extra={'wrapper': [float(v) for v in a[1]], 'point': [float(v) for v in b[1]]})
            elif okb:
                out = np.array(a[1], dtype=float)
                tot = float(out.sum())
                xs = [float(v) / tot for v in out] if tot != 0 and math.isfinite(tot) else None
                ck, det = certificate(isos, pp, xs, out) if xs is not None else (None, None)
                exp = None
                if case.get('sub') == 'henry':
                    exp = [s_[2]['K'] * v for s_, v in zip(specs, pp)]
                elif case.get('sub') == 'langmuir_eq':
                    c_ = sum(s_[2]['K'] * v for s_, v in zip(specs, pp))
                    exp = [s_[2]['n_m'] * s_[2]['K'] * v / (1 + c_) for s_, v in zip(specs, pp)]
                if ck:
                    fail(case, ck, 'iast_point_fraction(y=%r, P=%r) returned %r which violate the IAST equations at the partial pressures y*P = %r: %s %r' % (
                        ys, P, [float(v) for v in out], pp, ck, det), xs=xs, extra={'loadings': [float(v) for v in out], 'detail': det})
                elif exp is not None and xs is not None and min(xs) >= TRACE and not close_n(out, exp):
                    fail(case, case['sub'] + '-closed-form', '%s mixture through iast_point_fraction(y=%r, P=%r): returned %r, closed form at y*P %r' % (
                        case['sub'], ys, P, [float(v) for v in out], exp), xs=xs, extra=[float(v) for v in out])
                else:
                    nontrivial.add(('fraction', tuple(s_[1] for s_ in specs), case.get('how', 'equal'), round(math.log10(P), 1), guess is None))
            if a[0] in ('Ok', 'ParameterError', 'CalculationError') and b[0] in ('Ok', 'ParameterError', 'CalculationError'):
                row = '(%s, %s)' % (zlist(pp), 'Ok %s' % zlist(b[1]) if okb else 'Err %s' % b[0])
                terms.append('(fun r : Z*Z*Z => (fst (fst r), snd (fst r), 1, 1, snd r)) (cmp_frac [%s] %s %s (%d) %s %s)' % (
                    row, zlist(ys), zme(P), occode(a[0]), zme(float(np.sum(np.abs(a[1]))) if a[0] == 'Ok' else 1.0), zlist(a[1]) if a[0] == 'Ok' else '[]'))
                term_case.append((case, 'fraction'))
        elif kind == 'svp':
            # the sweep against the point calculation, PER POINT: it returns iff the point calculation returns at every requested pressure, and then
            # with exactly those selectivities; it never reports a value for a pressure at which the point calculation has no result
            n_eval += 1
            ys, Ps, guess = case['y'], case['Ps'], case.get('guess')
            gkw = dict(adsorbed_mole_fraction_guess=None if guess is None else list(guess))
            oc, out = call(pg.iast_binary_svp, isos, list(ys), list(Ps), warningoff=True, **gkw)
            note('svp%s/%s' % ('-' + case['sweep'] if case.get('sweep') else '', oc))
            rows, good, points = [], True, []
            for P in Ps:
                pp = np.asarray(ys) * P
                o2, n2 = call(pg.iast_point, isos, pp, warningoff=True, **gkw)
                points.append((o2, n2))
                if o2 == 'Ok':
                    rows.append('(%s, Ok %s)' % (zlist(pp), zlist(n2)))
                elif o2 in ('ParameterError', 'CalculationError'):
                    rows.append('(%s, Err %s)' % (zlist(pp), o2))
                else:
                    good = False
            refused = [k for k, (o2, _) in enumerate(points) if o2 != 'Ok']
            if oc == 'Ok':
                sel = list(out['selectivity'])
                if refused:
                    k = refused[0]
                    fail(case, 'svp-value-for-refused-point', 'iast_binary_svp returned selectivity[%d] = %r for total pressure %r, at which iast_point(y*P = %r) raises %s (whole result %r)' % (
                        k, sel[k] if k < len(sel) else None, Ps[k], [float(v) for v in np.asarray(ys) * Ps[k]], points[k][0], [float(v) for v in sel]),
                         extra={'selectivity': [float(v) for v in sel], 'point_outcomes': [o for o, _ in points]})
                elif len(sel) != len(Ps):
                    fail(case, 'svp-wrapper', '%d selectivities for %d pressures' % (len(sel), len(Ps)))
                else:
                    for k, (o2, n2) in enumerate(points):
                        exp = (n2[0] / ys[0]) / (n2[1] / ys[1])
                        if not math.isfinite(exp):
                            continue
                        if not (sel[k] == exp or abs(sel[k] - exp) <= 1e-9 * abs(exp)):
                            fail(case, 'svp-wrapper', 'selectivity[%d] = %r but the point calculation gives (n1/y1)/(n2/y2) = %r' % (k, sel[k], exp),
                                 extra={'selectivity': [float(v) for v in sel]})
                            break
                    else:
                        nontrivial.add(('svp', tuple(s[1] for s in specs), len(Ps), case.get('sweep')))
                if not np.array_equal(np.asarray(out['pressure'], dtype=float), np.asarray(Ps, dtype=float)):
                    fail(case, 'svp-wrapper', 'pressures returned %r differ from the pressures requested' % (out['pressure'],))
            elif oc == 'ParameterError' and sum(ys) != 1:
                nontrivial.add(('svp-fractions-refused', tuple(s[1] for s in specs)))      # the documented argument check ("Must add to 1"): nothing returned, nothing to compare
            elif not refused:
                fail(case, 'svp-refuses-solvable-sweep', 'iast_binary_svp raised %s although iast_point returns at every requested pressure %r' % (oc, Ps), extra={'outcome': oc})
            else:
                nontrivial.add(('svp-refused', tuple(s[1] for s in specs), len(Ps), refused[0]))
            if good and oc in ('Ok', 'ParameterError', 'CalculationError'):
                comps = [coq_comp(s, i, [], []) for s, i in zip(specs, isos)]
                terms.append('(fun r : Z*Z*Z => (fst (fst r), snd (fst r), 1, 1, snd r)) (cmp_svp [%s] [%s] %s %s (%d) %s %s)' % (
                    '; '.join(comps), '; '.join(rows), zlist(ys), zlist(Ps), occode(oc), zlist(out['pressure']) if oc == 'Ok' else '[]',
                    zlist(out['selectivity']) if oc == 'Ok' and all(math.isfinite(float(v)) for v in out['selectivity']) else '[]'))
                term_case.append((case, 'svp'))
        elif kind == 'vle':
            n_eval += 1
            P, npnt = case['P'], case['npoints']
            oc, out = call(pg.iast_binary_vle, isos, P, npoints=npnt, warningoff=True)
            note('vle%s/%s' % ('-' + case['sweep'] if case.get('sweep') else '', oc))
            ygrid = [float(v) for v in np.linspace(0.01, 0.99, npnt)]     # numpy's grid is an input of the model, not modelled
            rows, good, points = [], True, []
            for k, y in enumerate(ygrid):
                pp = np.array([y, 1 - y]) * P
                o2, n2 = call(pg.iast_point, isos, pp, warningoff=True)
                points.append((o2, n2))
                if o2 == 'Ok':
                    rows.append('(%s, Ok %s)' % (zlist(pp), zlist(n2)))
                elif o2 in ('ParameterError', 'CalculationError'):
                    rows.append('(%s, Err %s)' % (zlist(pp), o2))
                else:
                    good = False
            refused = [k for k, (o2, _) in enumerate(points) if o2 != 'Ok']
            if oc == 'Ok':
                xo = [float(v) for v in out['x']]
                if refused:
                    k = refused[0]
                    fail(case, 'vle-value-for-refused-point', 'iast_binary_vle returned x[%d] = %r for the gas fraction %r at total pressure %r, at which iast_point raises %s' % (
                        k + 1, xo[k + 1] if k + 1 < len(xo) else None, ygrid[k], P, points[k][0]), extra={'x': xo, 'point_outcomes': [o for o, _ in points]})
                elif len(xo) != npnt + 2:
                    fail(case, 'vle-wrapper', '%d points for a grid of %d' % (len(xo), npnt))
                else:
                    for k, (o2, n2) in enumerate(points):
                        exp = n2[0] / (n2[0] + n2[1])
                        if not math.isfinite(exp):
                            continue
                        if not (xo[k + 1] == exp or abs(xo[k + 1] - exp) <= 1e-9 * abs(exp)):
                            fail(case, 'vle-wrapper', 'x[%d] = %r but the point calculation gives n1/(n1+n2) = %r' % (k + 1, xo[k + 1], exp), extra={'x': xo})
                            break
                    else:
                        nontrivial.add(('vle', tuple(s[1] for s in specs), npnt, case.get('sweep')))
                if not (out['x'][0] == 0 and out['x'][-1] == 1 and out['y'][0] == 0 and out['y'][-1] == 1 and list(out['y'][1:-1]) == ygrid):
                    fail(case, 'vle-wrapper', 'end points / gas-fraction grid of the vapour-liquid curve: x=%r y=%r' % (list(out['x']), list(out['y'])))
            elif not refused:
                fail(case, 'vle-refuses-solvable-sweep', 'iast_binary_vle raised %s although iast_point returns at every composition of the grid (P = %r)' % (oc, P), extra={'outcome': oc})
            else:
                nontrivial.add(('vle-refused', tuple(s[1] for s in specs), npnt, refused[0]))
            if good and oc in ('Ok', 'ParameterError', 'CalculationError'):
                comps = [coq_comp(s, i, [], []) for s, i in zip(specs, isos)]
                finite = oc == 'Ok' and all(math.isfinite(float(v)) for v in out['x'])
                terms.append('(fun r : Z*Z*Z => (fst (fst r), snd (fst r), 1, 1, snd r)) (cmp_vle [%s] [%s] %s %s (%d) %s %s)' % (
                    '; '.join(comps), '; '.join(rows), zme(P), zlist(ygrid), occode(oc),
                    zlist(out['x']) if finite else '[]', zlist(out['y']) if finite else '[]'))
                term_case.append((case, 'vle'))
        elif kind == 'guard':
            n_eval += 1
            fn, p = case['fn'], case['p']
            comps = [coq_comp(s, i, [], []) for s, i in zip(specs, isos)]
            if fn == 'point':
                ncalls = len(proxy.calls)
                oc, out = call(pg.iast_point, isos, list(p), warningoff=True)
                if len(proxy.calls) > ncalls:
                    t = fwd_term(specs, isos, p, None, proxy.calls[-1], oc, out) if oc in ('Ok', 'CalculationError') else None
                else:
                    t = fwd_term(specs, isos, p, None, None, oc, out)
            elif fn == 'reverse':
                ncalls = len(proxy.calls)
                oc, out = call(pg.reverse_iast, isos, list(p), 1.5, warningoff=True)
                if len(proxy.calls) > ncalls:
                    t = rev_term(specs, isos, p, 1.5, None, proxy.calls[-1], oc, out) if oc in ('Ok', 'CalculationError') else None
                else:
                    t = rev_term(specs, isos, p, 1.5, None, None, oc, out)
            elif fn == 'svp':
                oc, out = call(pg.iast_binary_svp, isos, list(p), [1.0], warningoff=True)
                t = None
                if oc == 'ParameterError':
                    t = '(fun r : Z*Z*Z => (fst (fst r), snd (fst r), 1, 1, snd r)) (cmp_svp [%s] [] %s %s (%d) [] [])' % ('; '.join(comps), zlist(p), zlist([1.0]), occode(oc))
            else:
                oc, out = call(pg.iast_binary_vle, isos, 1.0, npoints=3, warningoff=True)
                t = None
                if oc == 'ParameterError':
                    t = '(fun r : Z*Z*Z => (fst (fst r), snd (fst r), 1, 1, snd r)) (cmp_vle [%s] [] %s %s (%d) [] [])' % ('; '.join(comps), zme(1.0), zlist([0.01, 0.5, 0.99]), occode(oc))
            note('guard-%s/%s' % (fn, oc))
            # the property's whitelist / absolute-pressure clause, judged directly: a non-IAST model or a relative pressure must be refused
            names = [s[1] for s in specs]
            must_refuse = any(s[3].startswith('relative') for s in specs) or (fn in ('point', 'reverse') and any(
                nm.lower() not in ('henry', 'langmuir', 'dslangmuir', 'tslangmuir', 'quadratic', 'bet', 'temkinapprox', 'toth', 'jensenseaton') for nm in names))
            if must_refuse and oc != 'ParameterError':
                fail(case, 'guard-not-refused', '%s with models %r / pressure modes %r was not refused with ParameterError (%s)' % (fn, names, [s[3] for s in specs], oc))
            if t:
                terms.append(t); term_case.append((case, 'guard-' + fn))
                if oc == 'ParameterError':
                    nontrivial.add(('guard', fn, tuple(names), tuple(s[3] for s in specs), len(p)))

    # ---- correspondence: the model executed inside Coq beside the implementation
    n_dis = 0
    fields = ['outcome', 'start-vector', 'residual-at-returned-point', 'returned-values']
    try:
        res = vlib.run_coq_cases('c13m', HEADER, 'fun x : Z*Z*Z*Z*Z => x', terms, per_file=60)
        for (case, label), r in zip(term_case, res):
            bad = [f for f, v in zip(fields, r[1:]) if v != 1]
            if bad:
                n_dis += 1
                if n_dis <= 5:
                    rep.broken_obligation('correspondence:IastGlue-vs-implementation',
                                          {'call': label, 'case': jsonable(case), 'disagrees_on': bad, 'model_outcome': vlib.EXN[r[0]] if r[0] < len(vlib.EXN) else r[0]})
    except RuntimeError as e:
        rep.broken_obligation('correspondence:IastGlue-evaluation', str(e)[-800:])
    rep.cov['evaluations'] = rep.cov.get('evaluations', 0) + n_eval
    rep.cov['distinct_nontrivial'] = len(nontrivial)
    rep.cov['rule'] = ('non-trivial = distinct (model families, decade-rounded partial pressures, default/user guess) for which the calculation returned and '
                       'the certificate (IAST equations through the isotherms\' own methods) was evaluated and passed; plus distinct forward/reverse, wrapper and '
                       'refused-guard inputs. Cases where the calculation raised (solver failure, fractions outside [0,1], exceptions of isotherm methods during '
                       'the iteration) are not judged: the property speaks about returned results')
    rep.cov['input_distribution'] = dict(sorted(hist.items()))
    rep.cov['generators'] = ('2-4 components; 8 model families with log-uniform parameters (K 0.05-20, capacities 0.5-10), 20% point isotherms (25-80 points sampled '
                             'from Langmuir/DSLangmuir/Toth); partial pressures log-uniform with ratio <= 8 (75%) or <= 300 (25%); 25% user guesses; closed-form '
                             'families; random permutations; reverse problems with dyadic fractions; svp/vle/fraction wrappers; the fraction helper on fraction vectors summing to one / '
                             'diluted (sum 0.05-0.9) / sloppy (0.9-1.1) / in excess (1.2-3) for closed-form and general mixtures; selectivity and vapour-liquid sweeps over '
                             'point isotherms measured up to 1-45 bar with pressures on both sides of that limit (some points without a solution), increasing and '
                             'arbitrary order, default and user guesses; all 16 model names x guards; whole-number '
                             'partial / total pressures and dyadic fractions in 9 numeric representations (int list, tuple, int16/32/64 arrays, numpy int scalars, '
                             'float32 array / scalars, float64 array, mixed int-float list) for iast_point, iast_point_fraction, reverse_iast, iast_binary_svp / vle; '
                             'equal-capacity mixtures of Langmuir and Toth(t=1) components (extended-Langmuir closed form through the numerically integrated model) at partial pressures 1e-8..20; '
                             'a second history stream where every point isotherm is queried and then converted for good (material unit kg/mg/g, loading unit, pressure unit); '
                             'point isotherms (10-30 rows over four decades, a third with a marked desorption run) carrying a history of 1-3 operations each (loading_at with '
                             'cubic / quadratic / nearest / zero / slinear, fills, the other branch, other units; pressure_at; spreading_pressure_at with a fill; pressure unit '
                             'there and back; loading unit for good; linear then another kind; an earlier IAST call before or after) x iast_point / reverse_iast / '
                             'iast_point_fraction / iast_binary_svp / iast_binary_vle with pressures inside the measured ranges')
    rep.cov['correspondence'] = {'calls_compared_in_coq': len(terms), 'disagreements': n_dis, 'tolerance_rel': 1e-9,
                                 'what': 'IastGlue (QNum) vs pgiast: outcome class, start vector, residual at the returned point vs the code\'s closure, returned values; '
                                         'the helpers: the GENERATED definitions (Gen/IastWrapGen.v, QNum) over a table of what iast_point returned / raised per point; '
                                         'default loading_at on point isotherms with a history vs the piecewise-linear interpolant Iast/PointPL.v (8 queries per object, two outside the range)'}
    rep.cov['certificate'] = {'rtol_spreading_pressure': RTOL_SP, 'rtol_loading_of_total': RTOL_N, 'worst_relative_spread_accepted': worst['sp_rel'],
                              'worst_root_residual_rel_when_success': worst['root_resid_rel']}
    rep.cov['samples'] += [{'case': jsonable(c)} for c in (cases[0], cases[len(cases) // 3], cases[-1])]
    rep.cov['trusted_base'] += ['hand-written model Iast/IastGlue.v (validated by the per-call correspondence above)',
                                'translator tools/py2v_iastwrap.py (helpers -> Gen/IastWrapGen.v; its reading of numpy broadcasting / the loop as mapM is validated by executing '
                                'the generated definitions beside the implementation)',
                                'oracle: scipy.optimize.root(method=lm) - success => residual zero (validated by the certificate check on every returned result)',
                                'oracle: pure-component spreading_pressure_at / loading_at (model formulas are C10/C11; scipy.integrate.quad for Toth, Jensen-Seaton)',
                                'carrier: theorems over RNum, execution over QNum']
    rep.assumptions += ['numeric types: narrow dtypes that overflow inside the pure-component formulas (uint8 / int8: p**2 wraps; float16: overflow to inf) are not generated; '
                        'float32 inputs are compared with the float64 result only when no component is a trace component (the default start vector is computed in float32)',
                        'Levenberg-Marquardt convergence is not modelled; its post-condition is a premise of post_satisfies_spec_partial / reverse_satisfies_spec_partial',
                        'results with a fraction equal to 0 (fictitious pressure undefined) and calls that raise are outside the property (whenever the calculation returns)',
                        'uniqueness / permutation / forward-reverse hold for strictly increasing spreading pressures and positive fractions',
                        'IEEE rounding excluded (1e-6 relative on the certificate, 1e-9 on the model/code correspondence)']


def replay(d):
    import logging
    logging.disable(logging.CRITICAL)
    import pygaps.iast.pgiast as pg
    r = d['replay']
    specs = [tuple(s) for s in r['specs']]
    isos = [make_iso(s) for s in specs]
    print('components:', specs)
    kind = r.get('kind')
    if kind == 'reverse':
        oc, out = call(pg.reverse_iast, isos, r['x'], r['P'], warningoff=True, gas_mole_fraction_guess=r.get('guess'))
        print('reverse_iast(x=%r, P=%r) ->' % (r['x'], r['P']), oc, out)
        if oc == 'Ok':
            print('certificate:', certificate(isos, [r['P'] * y for y in out[0]], r['x'], out[1]))
    elif kind == 'history':
        fn = r['fn']
        def run_on(objs):
            if fn == 'point':
                return call(pg.iast_point, objs, list(r['p']), warningoff=True)
            if fn == 'reverse':
                return call(pg.reverse_iast, objs, list(r['x']), r['P'], warningoff=True)
            if fn == 'fraction':
                return call(pg.iast_point_fraction, objs, list(r['x']), r['P'], warningoff=True)
            if fn == 'svp':
                return call(pg.iast_binary_svp, objs, list(r['x']), list(r['Ps']), warningoff=True)
            return call(pg.iast_binary_vle, objs, r['P'], npoints=r['npoints'], warningoff=True)
        if r.get('earlier_iast') and r.get('iast_first'):
            call(pg.iast_point, isos, [v * 0.5 for v in r['p']], warningoff=True)
        for i, h in zip(isos, r['history']):
            print('history of', i.adsorbate, ':', h, '->', apply_history(i, h))
        if r.get('earlier_iast') and not r.get('iast_first'):
            call(pg.iast_point, isos, [v * 0.5 for v in r['p']], warningoff=True)
            for i, h in zip(isos, r['history']):
                apply_history(i, [op for op in h if op[0] in ('loading_at', 'pressure_at')][:1])
        print(fn, 'on the objects with that history ->', run_on(isos))
        print(fn, 'on fresh objects holding the same rows ->', run_on([fresh_twin(i) for i in isos]))
    elif kind == 'types-wrappers':
        vn = r.get('variant', 'int-list')
        xa, Pa = TYPE_VARIANTS[vn](r['x']), SCALAR_VARIANTS[vn](r['P'])
        print('iast_point_fraction(%r, %r) ->' % (xa, Pa), call(pg.iast_point_fraction, isos, xa, Pa, warningoff=True), ' as floats ->',
              call(pg.iast_point_fraction, isos, list(r['x']), float(r['P']), warningoff=True))
        print('reverse_iast(%r, %r) ->' % (xa, Pa), call(pg.reverse_iast, isos, xa, Pa, warningoff=True), ' as floats ->',
              call(pg.reverse_iast, isos, list(r['x']), float(r['P']), warningoff=True))
    elif kind == 'fraction':
        n = len(isos)
        ys = r.get('y') or [1.0 / n] * n
        g = r.get('guess')
        print('iast_point_fraction(y=%r (sum %r), P=%r) ->' % (ys, sum(ys), r['P']), call(pg.iast_point_fraction, isos, list(ys), r['P'], warningoff=True, adsorbed_mole_fraction_guess=g))
        print('iast_point(y*P = %r) ->' % ([float(v) for v in np.asarray(ys) * r['P']],), call(pg.iast_point, isos, np.asarray(ys) * r['P'], warningoff=True, adsorbed_mole_fraction_guess=g))
    elif kind == 'svp':
        g = r.get('guess')
        print('iast_binary_svp(y=%r, pressures=%r) ->' % (r['y'], r['Ps']), call(pg.iast_binary_svp, isos, list(r['y']), list(r['Ps']), warningoff=True, adsorbed_mole_fraction_guess=g))
        for P in r['Ps']:
            o2, n2 = call(pg.iast_point, isos, np.asarray(r['y']) * P, warningoff=True, adsorbed_mole_fraction_guess=g)
            print('  point calculation at P = %r:' % P, o2, None if o2 != 'Ok' else ('loadings', [float(v) for v in n2], 'selectivity', (n2[0] / r['y'][0]) / (n2[1] / r['y'][1])))
    elif kind == 'vle':
        print('iast_binary_vle(P=%r, npoints=%r) ->' % (r['P'], r['npoints']), call(pg.iast_binary_vle, isos, r['P'], npoints=r['npoints'], warningoff=True))
        for y in np.linspace(0.01, 0.99, r['npoints']):
            o2, n2 = call(pg.iast_point, isos, np.array([y, 1 - y]) * r['P'], warningoff=True)
            print('  point calculation at y = %r:' % float(y), o2, None if o2 != 'Ok' else ('loadings', [float(v) for v in n2], 'x1', n2[0] / (n2[0] + n2[1])))
    elif 'p' in r:
        parg = r['p']
        if r.get('variant') in TYPE_VARIANTS:
            parg = TYPE_VARIANTS[r['variant']](r['p'])
            print('the same numbers as Python floats ->', call(pg.iast_point, isos, [float(v) for v in r['p']], warningoff=True))
        oc, out = call(pg.iast_point, isos, parg, warningoff=True, adsorbed_mole_fraction_guess=r.get('guess'))
        print('iast_point(p=%r) ->' % (parg,), oc, out)
        if oc == 'Ok':
            xs = [float(v) / float(sum(out)) for v in out]
            print('fractions', xs)
            print('spreading pressures at p_i/x_i:', [pure(i, 'sp', p / x) for i, p, x in zip(isos, r['p'], xs)])
            print('certificate:', certificate(isos, r['p'], xs, out)[0])
    print('failed clause recorded:', r.get('failed_clause'))
    return 1
