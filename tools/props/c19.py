"""C19 - enthalpy methods recover the enthalpy built into consistent synthetic data.

proof phase   : Props/C19.v: Clausius-Clapeyron recovery for any number >= 2 of distinct temperatures in any order (from ols_exact),
                invariance under a common pressure unit, van 't Hoff generators (Langmuir explicitly), Whittaker closed form for
                Toth / Langmuir over the GENERATED whittaker_point, which loadings the Whittaker loop omits, initial point = first
                enthalpy of the chosen branch.
correspondence: isosteric_enthalpy_raw / isosteric_enthalpy vs Charact/Enthalpy.v executed inside Coq (the implementation's own
                numpy.log rows as data); Whittaker values by certified interval goals over the generated expression, kept loadings
                by the executed loop; initial_enthalpy_point by the executed model.
oracle/search : on the implementation: dH returned at every loading (raw 1e-8, model isotherms 1e-6, dense point isotherms 1e-3),
                raw temperatures also as python ints / integer arrays / mixed; two-branch point isotherms (different dH per branch) analysed several
                times on the SAME objects (either branch, other interpolation settings in between) == freshly built twins == dH of the branch;
                any number/order of temperatures and common units; Whittaker = lambda + dh_vap + RT (CoolProp dh_vap as oracle) and
                omission exactly outside [0, min(p_c, p_sat)]; initial point = first enthalpy of the branch.
"""
import math
import random

import numpy as np

import vlib
import charact_lib as cl
from charact_lib import zpair, zlist, cbool, rel
from props import c14

MANIFEST = dict(
    text="Machine-checked (Coq 8.16) theorems: for pressures satisfying ln p = a(n) - dH/(R T) at ANY number >= 2 of distinct temperatures in ANY order "
         "and spacing, the loop of isosteric_enthalpy_raw (least squares of ln p against 1/T + the GENERATED line -R*slope/1000) returns dH at every "
         "loading with r^2 = 1 (induction over the temperature list via ols_exact); a common multiplicative pressure unit changes no enthalpy (any positive "
         "data); every isotherm family p = f(n)/K(T) with K = K0 exp(dH/RT), Langmuir explicitly, satisfies the premise; the GENERATED Whittaker expression "
         "equals (RT ln(p_sat K (theta^t/(1-theta^t))^((t-1)/t)) + dh_vap + RT)/1000 for all K, t, p_sat > 0 and 0 < n < n_m, Langmuir being t = 1; the "
         "Whittaker loop keeps exactly the loadings with n != 0 and 0 <= p <= min(p_c, p_sat); initial_enthalpy_point returns the first enthalpy of the "
         "chosen branch. Loops and skip conditions are hand-written models executed inside Coq against the implementation on every run; the Whittaker "
         "values are compared by certified interval evaluation of the generated expression. Partial in that the interpolation/inversion behind "
         "pressure_at (C03/C10), the model fit of a PointIsotherm and CoolProp's dh_vap are oracles.",
    note="Trusted: Coq kernel; Reals axioms; translator tools/py2v_charact.py; scipy.stats.linregress = least squares (compared on every case); numpy.log; "
         "pressure_at of model / point isotherms, pygaps.model_iso and CoolProp (enthalpy_vaporisation, p_critical, p_triple, saturation_pressure) are "
         "oracles; IEEE rounding excluded.",
    technique="Coq proof (induction + real analysis over generated formulas); model execution inside Coq and interval goals vs implementation")

HEADER = c14.HEADER.replace('Charact.QExec.', 'Charact.Enthalpy Charact.QExec Charact.QExecEnth.')
RGAS = 8.31446261815324
UNITS_P = {'bar': 1e5, 'Pa': 1.0, 'kPa': 1e3}
WH_ADS = [('nitrogen', 70.0, 110.0), ('carbon dioxide', 225.0, 295.0), ('methane', 100.0, 180.0), ('argon', 85.0, 140.0)]


def temps_of(rnd):
    k = rnd.randint(2, 5)
    ts = set()
    while len(ts) < k:
        ts.add(round(rnd.uniform(200, 400), rnd.choice([0, 1, 2])))
    ts = list(ts)
    rnd.shuffle(ts)
    return ts


def gen_cases(tier, seed):
    rnd = random.Random(seed)
    scale = 1 if tier == 'quick' else 12
    cases = []
    for _ in range(120 * scale):      # raw
        ts = temps_of(rnd)
        dH = rnd.uniform(5, 60)
        nl = rnd.randint(1, 12)
        a = [rnd.uniform(-5, 25) for _ in range(nl)]
        c = rnd.choice([1.0, 1.0, 1e-5, 1e-3, 7.50062e-3])
        kind = rnd.choice(['exact'] * 4 + ['noisy'])
        P = [[c * math.exp(ai - dH * 1000 / (RGAS * T)) * (1 + (rnd.uniform(-0.05, 0.05) if kind == 'noisy' else 0)) for T in ts] for ai in a]
        bad = rnd.random() < 0.05
        cases.append(dict(method='raw', temps=ts + ([300.0] if bad else []), P=P, dH=dH, kind=kind, bad=bad))
    for _ in range(45 * scale):       # isotherm entry
        ts = temps_of(rnd)
        dH = rnd.uniform(5, 60)
        model = rnd.choice(['Langmuir', 'Toth', 'DSLangmuir'])
        pu = rnd.choice(list(UNITS_P)); lu = rnd.choice(['mmol', 'mol']); mu = rnd.choice(['g', 'kg'])
        nm = rnd.uniform(1, 10)
        K0 = 10 ** rnd.uniform(-9, -5)
        par = dict(nm=nm, K0=K0, t=rnd.uniform(0.4, 1.5), nm2=rnd.uniform(1, 5), K02=K0 * 10 ** rnd.uniform(-2, -0.5))
        kind = rnd.choice(['model', 'model', 'point'])
        nload = rnd.randint(1, 8)
        loads = sorted(rnd.uniform(0.05, 0.7) * nm for _ in range(nload))
        if rnd.random() < 0.3:
            rnd.shuffle(loads)          # any loading points inside the common range, in any order
        cases.append(dict(method='iso', temps=ts, dH=dH, model=model, pu=pu, lu=lu, mu=mu, par=par, kind=kind, loads=loads,
                          default_grid=(kind == 'point' and rnd.random() < 0.3)))
    for _ in range(45 * scale):       # Whittaker
        ads, tlo, thi = rnd.choice(WH_ADS)
        T = round(rnd.uniform(tlo, thi), 2)
        model = rnd.choice(['Langmuir', 'Toth'])
        nm = rnd.uniform(1, 10)
        K = 10 ** rnd.uniform(-7, -3)
        t = rnd.uniform(0.4, 1.5)
        loads = [0.0] + sorted(rnd.uniform(0.01, 0.999) * nm for _ in range(rnd.randint(3, 10))) + [nm * (1 - 10 ** rnd.uniform(-9, -3))]
        kind = 'model' if rnd.random() < 0.85 else 'point'
        # "at each loading": the list a user passes need not be ascending (half of the cases: descending or shuffled)
        order = rnd.choice(['ascending', 'ascending', 'descending', 'shuffled'])
        if order == 'descending':
            loads = loads[::-1]
        elif order == 'shuffled':
            rnd.shuffle(loads)
        cases.append(dict(method='whittaker', ads=ads, T=T, model=model, nm=nm, K=K, t=t, loads=loads, kind=kind))
    for _ in range(40 * scale):       # initial point
        na = rnd.randint(1, 12); nd = rnd.choice([0, 0, rnd.randint(1, 8)])
        ent = [round(rnd.uniform(5, 60), 3) for _ in range(na + nd)]
        cases.append(dict(method='initial', na=na, nd=nd, ent=ent, branch=rnd.choice(['ads', 'ads', 'des']), key=rnd.choice(['enthalpy', 'enthalpy', 'missing'])))
    # raw entry point with temperatures of other numeric types ("whatever the temperatures"): whole-number kelvins given as python ints, as an
    # integer numpy array, as python ints mixed with floats. Own generator: the cases above are unchanged.
    rt = random.Random(seed * 104729 + 3)
    for i in range(16 * scale):
        k = rt.randint(2, 5)
        ts = [float(v) for v in rt.sample(range(200, 401), k)]
        dH = rt.uniform(5, 60)
        a = [rt.uniform(-5, 25) for _ in range(rt.randint(1, 6))]
        P = [[math.exp(ai - dH * 1000 / (RGAS * T)) for T in ts] for ai in a]
        cases.append(dict(method='raw', temps=ts, P=P, dH=dH, kind='exact', bad=False, ttype=('int', 'npint', 'mixed', 'npint32')[i % 4]))
    return cases


# ------------------------------------------------------------------ implementation
def model_iso(c, T, pu=None):
    import pygaps
    from pygaps.modelling import get_isotherm_model
    par = c['par']
    pfac = UNITS_P[c['pu']]
    lfac = {'mmol': 1.0, 'mol': 1e-3}[c['lu']] * {'g': 1.0, 'kg': 1e3}[c['mu']]
    K = par['K0'] * math.exp(c['dH'] * 1000 / (RGAS * T)) * pfac     # per pressure unit
    if c['model'] == 'Langmuir':
        p = {'n_m': par['nm'] * lfac, 'K': K}
    elif c['model'] == 'Toth':
        p = {'n_m': par['nm'] * lfac, 'K': K, 't': par['t']}
    else:
        K2 = par['K02'] * math.exp(c['dH'] * 1000 / (RGAS * T)) * pfac
        p = {'n_m1': par['nm'] * lfac, 'K1': K, 'n_m2': par['nm2'] * lfac, 'K2': K2}
    m = get_isotherm_model(c['model'], parameters=p, pressure_range=(0.0, 1e3 / K), loading_range=(0.0, par['nm'] * lfac))
    iso = pygaps.ModelIsotherm(model=m, material='verif_c19', adsorbate=cl.adsorbate('c19', molar_mass=28.0134, saturation_pressure=101325.0, liquid_density=0.808),
                               temperature=T, pressure_mode='absolute', pressure_unit=c['pu'], loading_basis='molar', loading_unit=c['lu'],
                               material_basis='mass', material_unit=c['mu'])
    if c['kind'] == 'model':
        return iso
    ps = np.exp(np.linspace(math.log(1e-4 / K), math.log(50 / K), 400))
    return pygaps.PointIsotherm(pressure=list(ps), loading=[float(x) for x in iso.loading_at(ps)], material='verif_c19', adsorbate=iso.adsorbate.name,
                                temperature=T, pressure_mode='absolute', pressure_unit=c['pu'], loading_basis='molar', loading_unit=c['lu'],
                                material_basis='mass', material_unit=c['mu'])


def whittaker_iso(c):
    import pygaps
    from pygaps.modelling import get_isotherm_model
    p = {'n_m': c['nm'], 'K': c['K']}
    if c['model'] == 'Toth':
        p['t'] = c['t']
    m = get_isotherm_model(c['model'], parameters=p, pressure_range=(0.0, 1e8), loading_range=(0.0, c['nm']))
    iso = pygaps.ModelIsotherm(model=m, material='verif_c19', adsorbate=c['ads'], temperature=c['T'], pressure_mode='absolute', pressure_unit='Pa',
                               loading_basis='molar', loading_unit='mmol', material_basis='mass', material_unit='g')
    if c['kind'] == 'model':
        return iso
    ps = np.exp(np.linspace(math.log(1e-3 / c['K']), math.log(30 / c['K']), 60))
    return pygaps.PointIsotherm(pressure=list(ps), loading=[float(x) for x in iso.loading_at(ps)], material='verif_c19', adsorbate=c['ads'],
                                temperature=c['T'], pressure_mode='absolute', pressure_unit='Pa', loading_basis='molar', loading_unit='mmol',
                                material_basis='mass', material_unit='g')


def initial_iso(c):
    import pandas as pd
    import pygaps
    na, nd = c['na'], c['nd']
    p = list(np.linspace(0.1, 1.0, na)) + list(np.linspace(0.9, 0.05, nd))
    l = list(np.linspace(0.5, 3.0, na)) + list(np.linspace(2.9, 0.6, nd))
    df = pd.DataFrame({'pressure': p, 'loading': l, 'enthalpy': c['ent']})
    return pygaps.PointIsotherm(isotherm_data=df, pressure_key='pressure', loading_key='loading', branch=[0] * na + [1] * nd, material='verif_c19',
                                adsorbate=cl.adsorbate('c19', molar_mass=28.0134, saturation_pressure=101325.0, liquid_density=0.808), temperature=300)


def run_impl(c):
    from pygaps.characterisation import isosteric_enth, enth_sorp_whittaker, initial_enth
    try:
        if c['method'] == 'raw':
            temps = c['temps']
            tt = c.get('ttype')
            if tt == 'int':
                temps = [int(v) for v in temps]
            elif tt == 'npint':
                temps = np.array([int(v) for v in temps])
            elif tt == 'mixed':
                temps = [int(v) for v in temps[:-1]] + [float(temps[-1])]
            elif tt == 'npint32':
                temps = np.array([int(v) for v in temps], dtype=np.int32)
            e, s, r, se = isosteric_enth.isosteric_enthalpy_raw(c['P'], temps)
            return dict(oc='Ok', enth=[float(x) for x in e], slopes=[float(x) for x in s], r=[float(x) for x in r],
                        logp=[[float(x) for x in row] for row in np.log(np.asarray(c['P']))])
        if c['method'] == 'iso':
            isos = [model_iso(c, T) for T in c['temps']]
            res = isosteric_enth.isosteric_enthalpy(isos, loading_points=None if c['default_grid'] else list(c['loads_units']))
            loads = [float(x) for x in res['loading']]
            largs = dict(branch='ads', loading_unit=isos[0].loading_unit, material_unit=isos[0].material_unit)
            P = np.array([iso.pressure_at(np.array(loads), **largs) for iso in [model_iso(c, T) for T in c['temps']]]).T
            return dict(oc='Ok', enth=[float(x) for x in res['isosteric_enthalpy']], slopes=[float(x) for x in res['slopes']],
                        r=[float(x) for x in res['correlation']], loads=loads, logp=[[float(x) for x in row] for row in np.log(P)])
        if c['method'] == 'whittaker':
            iso = whittaker_iso(c)
            res = enth_sorp_whittaker.enthalpy_sorption_whittaker(iso, model=c['model'], loading=list(c['loads']))
            ref = whittaker_iso(c)      # a fresh object: the call converts a PointIsotherm argument in place
            A = ref.adsorbate
            par = dict(res['model_params'])
            if c['kind'] == 'point':
                from pygaps.modelling import get_isotherm_model
                import pygaps
                m = get_isotherm_model(c['model'], parameters=par, pressure_range=(0.0, 1e8), loading_range=(0.0, par['n_m']))
                ref = pygaps.ModelIsotherm(model=m, material='verif_c19', adsorbate=c['ads'], temperature=c['T'], pressure_mode='absolute', pressure_unit='Pa',
                                           loading_basis='molar', loading_unit='mmol', material_basis='mass', material_unit='g')
            ps = []
            for n in c['loads']:
                try:
                    ps.append(float(ref.pressure_at(n, pressure_unit='Pa')))
                except Exception:  # noqa
                    ps.append(float('nan'))
            p_c, p_t, p_sat = float(A.p_critical()), float(A.p_triple()), float(A.saturation_pressure(temp=c['T']))
            hv = {}
            for n, p in zip(c['loads'], ps):
                if p == p and 0 <= p <= min(p_c, p_sat):
                    hv[n] = float(A.enthalpy_vaporisation(press=max(p, p_t)))
            return dict(oc='Ok', loading=[float(x) for x in res['loading']], enth=[float(x) for x in res['enthalpy_sorption']], par={k: float(v) for k, v in par.items()},
                        ps=ps, p_c=p_c, p_t=p_t, p_sat=p_sat, hv=hv)
        if c['method'] == 'initial':
            iso = initial_iso(c)
            res = initial_enth.initial_enthalpy_point(iso, c['key'], branch=c['branch'])
            return dict(oc='Ok', value=float(res['initial_enthalpy']))
    except Exception as ex:  # noqa
        return dict(oc=vlib.exn_class(ex), msg=str(ex)[:200])
    raise RuntimeError(c['method'])


# ------------------------------------------------------------------ objects with a history (oracle only)
HIST_OPS = [('enth', 'ads'), ('enth', 'des'), ('enth', 'ads'), ('enth', 'des'), ('pressure_at', 'ads'), ('pressure_at', 'des'),
            ('loading_at', 'ads'), ('loading_at', 'des'), ('pressure_at_other', 'ads'), ('pressure_at_other', 'des')]


def gen_history_cases(tier, seed):
    """Point isotherms carrying BOTH branches with different generating enthalpies, analysed several times on the SAME objects."""
    rnd = random.Random(seed * 7919 + 19)
    cases = []
    for _ in range(10 if tier == 'quick' else 80):
        ts = temps_of(rnd)[:3]
        dHa = rnd.uniform(5, 60)
        dHd = dHa + rnd.choice([-1, 1]) * rnd.uniform(2, 15)
        nm = rnd.uniform(1, 10)
        K0 = 10 ** rnd.uniform(-9, -5)
        nload = rnd.randint(1, 6)
        loads = sorted(rnd.uniform(0.05, 0.7) * nm for _ in range(nload))
        nops = rnd.randint(2, 6)
        ops = [rnd.choice(HIST_OPS) for _ in range(nops)]
        if not any(o[0] == 'enth' for o in ops):
            ops.append(('enth', rnd.choice(['ads', 'des'])))
        cases.append(dict(method='history', kind='point', model='Langmuir', temps=ts, dH={'ads': dHa, 'des': max(dHd, 2.0)}, nm=nm,
                          K0={'ads': K0, 'des': K0 * 10 ** rnd.uniform(0.0, 0.5)}, pu=rnd.choice(list(UNITS_P)), lu=rnd.choice(['mmol', 'mol']),
                          mu=rnd.choice(['g', 'kg']), loads=loads, ops=[list(o) for o in ops], default_grid=rnd.random() < 0.25))
    return cases


def history_iso(c, T):
    import pygaps
    pfac = UNITS_P[c['pu']]
    lfac = {'mmol': 1.0, 'mol': 1e-3}[c['lu']] * {'g': 1.0, 'kg': 1e3}[c['mu']]
    P, L = [], []
    for b in ('ads', 'des'):
        K = c['K0'][b] * math.exp(c['dH'][b] * 1000 / (RGAS * T)) * pfac
        ps = np.exp(np.linspace(math.log(1e-4 / K), math.log(50 / K), 300))
        if b == 'des':
            ps = ps[::-1]
        P += [float(x) for x in ps]
        L += [float(c['nm'] * lfac * K * x / (1 + K * x)) for x in ps]
    return pygaps.PointIsotherm(pressure=P, loading=L, branch=[0] * 300 + [1] * 300, material='verif_c19',
                                adsorbate=cl.adsorbate('c19', molar_mass=28.0134, saturation_pressure=101325.0, liquid_density=0.808),
                                temperature=T, pressure_mode='absolute', pressure_unit=c['pu'], loading_basis='molar', loading_unit=c['lu'],
                                material_basis='mass', material_unit=c['mu'])


def run_history(c):
    """Returns the list of (step, branch, enthalpies on the objects with a history, enthalpies on fresh twins, loadings)."""
    from pygaps.characterisation import isosteric_enth
    lfac = {'mmol': 1.0, 'mol': 1e-3}[c['lu']] * {'g': 1.0, 'kg': 1e3}[c['mu']]
    lp = None if c['default_grid'] else [x * lfac for x in c['loads']]
    isos = [history_iso(c, T) for T in c['temps']]
    out = []
    for k, (op, b) in enumerate(c['ops']):
        try:
            if op == 'enth':
                res = isosteric_enth.isosteric_enthalpy(isos, loading_points=lp, branch=b)
                fresh = isosteric_enth.isosteric_enthalpy([history_iso(c, T) for T in c['temps']], loading_points=lp, branch=b)
                out.append(dict(step=k, branch=b, oc='Ok', enth=[float(x) for x in res['isosteric_enthalpy']], loads=[float(x) for x in res['loading']],
                                fresh=[float(x) for x in fresh['isosteric_enthalpy']], fresh_loads=[float(x) for x in fresh['loading']]))
            else:
                mid = 0.3 * c['nm'] * lfac
                for iso in isos:
                    if op == 'pressure_at':
                        iso.pressure_at(mid, branch=b)
                    elif op == 'pressure_at_other':
                        iso.pressure_at(mid, branch=b, interpolation_type='slinear', interp_fill='extrapolate')
                    else:
                        iso.loading_at(float(iso.pressure(branch=b)[150]), branch=b)
        except Exception as ex:  # noqa
            out.append(dict(step=k, branch=b, oc=vlib.exn_class(ex), msg=str(ex)[:200]))
    return out


def judge_history(c, out, fail):
    ok = True
    for r in out:
        before = [tuple(o) for o in c['ops'][:r['step']]]
        if r['oc'] != 'Ok':
            fail('crash', 'step %d (%s) after %r: %s %s' % (r['step'], r['branch'], before, r['oc'], r.get('msg')))
            return False
        dH = c['dH'][r['branch']]
        if len(r['enth']) != len(r['fresh']) or any(rel(a, b) > 1e-10 for a, b in zip(r['enth'] + r['loads'], r['fresh'] + r['fresh_loads'])):
            fail('history-dependent', 'isosteric_enthalpy(branch=%r) on point isotherms (T=%r) previously used as %r returns %r, on freshly built twins %r '
                 '(generating dH: %r)' % (r['branch'], c['temps'], before, r['enth'][:3], r['fresh'][:3], c['dH']))
            return False
        badv = [(n, e) for n, e in zip(r['loads'], r['enth']) if not rel(e, dH) <= 1e-3]
        if badv:
            fail('recover', 'isosteric_enthalpy(branch=%r) of two-branch point isotherms at T=%r: dH=%r, returned %r' % (r['branch'], c['temps'], dH, badv[:3]))
            ok = False
    return ok



# ------------------------------------------------------------------ model terms
def coq_term(c, o):
    m = c['method']
    if m in ('raw', 'iso'):
        if o['oc'] != 'Ok':
            return '(0, 1)'
        return '(enth_case 1 100000000 %s [%s] %s %s %s)' % (zlist(c['temps']), '; '.join(zlist(r) for r in o['logp']), zlist(o['enth']), zlist(o['slopes']), zlist(o['r']))
    if m == 'whittaker':
        if o['oc'] != 'Ok':
            return '(0, 1)'
        ps = '[' + '; '.join('(%s, %s)' % (cbool(p == p), zpair(p if p == p else 0.0)) for p in o['ps']) + ']'
        return '(whittaker_kept_case %s %s %s %s %s %s)' % (zlist(c['loads']), ps, zpair(o['p_sat']), zpair(o['p_c']), zpair(o['p_t']), zlist(o['loading']))
    rows = '[' + '; '.join('(%s, %s)' % (cbool(i >= c['na']), zpair(x)) for i, x in enumerate(c['ent'])) + ']'
    return '(init_case %s %s %s %d %s)' % (cbool(c['key'] == 'enthalpy'), rows, cbool(c['branch'] == 'des'), c14.oc_code(o['oc']), zpair(o.get('value', 0.0)))


def whittaker_goals(c, o):
    if o['oc'] != 'Ok':
        return []
    r = cl.rlit
    par = o['par']
    t = par.get('t', 1.0)
    gs = []
    for n, h in list(zip(o['loading'], o['enth']))[:4]:
        if n in o['hv']:
            gs.append('Rabs (whittaker_point RNum ln Rpower %s %s %s %s %s %s %s - %s) <= %s' % (
                r(c['T']), r(par['K']), r(t), r(o['p_sat']), r(n), r(par['n_m']), r(o['hv'][n]), r(h), r(abs(h) * 1e-10 + 1e-12)))
    return gs


# ------------------------------------------------------------------ oracle
def judge(c, o, fail):
    m = c['method']
    if m == 'raw':
        if c['bad']:
            if o['oc'] != 'ParameterError':
                fail('refusal', 'different numbers of pressures and temperatures: %s' % o['oc'])
            return False
        if o['oc'] != 'Ok':
            fail('crash', '%s %s' % (o['oc'], o.get('msg')))
            return False
        if c['kind'] == 'exact':
            badv = [(i, e) for i, e in enumerate(o['enth']) if rel(e, c['dH']) > 1e-8]
            if badv or len(o['enth']) != len(c['P']):
                fail('recover', 'isosteric_enthalpy_raw on van t Hoff data (dH=%r, T=%r given as %s): %r' % (c['dH'], c['temps'], c.get('ttype', 'floats'), badv[:3]))
            return True
        return False
    if m == 'iso':
        if o['oc'] != 'Ok':
            fail('crash', '%s %s' % (o['oc'], o.get('msg')))
            return False
        tol = 1e-3 if c['kind'] == 'point' else (1e-5 if c['model'] == 'DSLangmuir' else 1e-7)
        badv = [(n, e) for n, e in zip(o['loads'], o['enth']) if not rel(e, c['dH']) <= tol]
        if badv:
            fail('recover', 'isosteric_enthalpy of %s %s isotherms at T=%r in %s, %s/%s: dH=%r, returned %r' % (
                c['kind'], c['model'], c['temps'], c['pu'], c['lu'], c['mu'], c['dH'], badv[:3]))
        return True
    if m == 'whittaker':
        if o['oc'] != 'Ok':
            fail('crash', '%s %s' % (o['oc'], o.get('msg')))
            return False
        par = o['par']
        t = par.get('t', 1.0)
        lim = min(o['p_c'], o['p_sat'])
        must = [n for n, p in zip(c['loads'], o['ps']) if n != 0 and p == p and 0 < p < lim * (1 - 1e-12)]
        mustnot = [n for n, p in zip(c['loads'], o['ps']) if n == 0 or p != p or p < 0 or p > lim * (1 + 1e-12)]
        if not set(must) <= set(o['loading']) or set(mustnot) & set(o['loading']):
            fail('omission', 'kept loadings %r; pressures %r; range [0, %r]' % (o['loading'], list(zip(c['loads'], o['ps'])), lim))
            return False
        RT = RGAS * c['T']
        for n, h in zip(o['loading'], o['enth']):
            if n not in o['hv']:
                continue
            th = (n / par['n_m']) ** t
            expect = (RT * math.log(o['p_sat'] * par['K'] * (th / (1 - th)) ** ((t - 1) / t)) + o['hv'][n] * 1000 + RT) / 1000
            if abs(h - expect) > 1e-9 * max(abs(expect), 1.0) * max(1.0, 1e-7 / (1 - th)):
                fail('closed-form', 'Whittaker at n=%r: returned %r, lambda + dh_vap + RT = %r' % (n, h, expect))
                return False
        return True
    if m == 'initial':
        rows = c['ent'][:c['na']] if c['branch'] == 'ads' else c['ent'][c['na']:]
        if c['key'] == 'missing' or not rows:
            if o['oc'] == 'Ok':
                fail('initial', 'no enthalpy data for the branch but a value was returned')
            return False
        if o['oc'] != 'Ok' or o['value'] != rows[0]:
            fail('initial', 'first enthalpy of the %s branch is %r, returned %r' % (c['branch'], rows[0], o.get('value', o['oc'])))
        return True
    return False


def classify(c, clause, o):
    return 'C19:unclassified:%s:%s:%s:%s' % (c['method'], clause, c.get('kind'), c.get('ttype') or c.get('model'))


def run(rep, tier, seed):
    vlib.standard_proof_phase(rep, 'C19', extra_targets=['Charact/QExecEnth.vo'])
    explore(rep, tier, seed)
    if rep.broken and not rep.violations and tier != 'thorough':
        explore(rep, 'thorough', seed + 1)


def explore(rep, tier, seed):
    import time
    t0 = time.time()
    cases = gen_cases(tier, seed)
    for c in cases:
        if c['method'] == 'iso':
            lfac = {'mmol': 1.0, 'mol': 1e-3}[c['lu']] * {'g': 1.0, 'kg': 1e3}[c['mu']]
            c['loads_units'] = [x * lfac for x in c['loads']]
    outs = [run_impl(c) for c in cases]
    t1 = time.time()
    model = None
    try:
        model = vlib.run_coq_cases('c19m', HEADER, 'fun x : Z * Z => x', [coq_term(c, o) for c, o in zip(cases, outs)], per_file=16, timeout=400)
    except RuntimeError as e:
        rep.broken_obligation('correspondence:Enthalpy-model-evaluation', str(e)[-800:])
    t2 = time.time()
    n_dis = 0
    hist = {}
    nontrivial = set()
    for ci, (c, o) in enumerate(zip(cases, outs)):
        key = '%s/%s/%s/%s' % (c['method'], c.get('kind'), c.get('model'), o['oc'])
        hist[key] = hist.get(key, 0) + 1

        def fail(clause, what, c=c, o=o):
            rep.failure(classify(c, clause, o), what, {'case': dict(c), 'clause': clause,
                                                      'outcome': {k: (v if not isinstance(v, list) else v[:6]) for k, v in o.items() if k != 'logp'}})
        if model is not None:
            code, agree = model[ci]
            if agree != 1 and not (c['method'] == 'initial' and o['oc'] not in ('Ok', 'ParameterError')):
                n_dis += 1
                if n_dis <= 5:
                    rep.broken_obligation('correspondence:Enthalpy-model-vs-implementation',
                                          {'case': {k: (v if not isinstance(v, list) else v[:4]) for k, v in c.items()},
                                           'implementation': {k: (v if not isinstance(v, list) else v[:4]) for k, v in o.items() if k != 'logp'}, 'model': [code, agree]})
        if judge(c, o, fail):
            nontrivial.add((c['method'], c.get('kind'), c.get('model'), len(c.get('temps', [])), c.get('pu'), c.get('ads'), c.get('branch')))
    hcases = gen_history_cases(tier, seed)
    for c in hcases:
        hout = run_history(c)
        hist['history/point/Langmuir'] = hist.get('history/point/Langmuir', 0) + 1

        def hfail(clause, what, c=c, hout=hout):
            rep.failure(classify(c, clause, None), what, {'case': dict(c), 'clause': clause, 'outcome': hout[:6]})
        if judge_history(c, hout, hfail):
            for r in hout:
                nontrivial.add(('history', 'point', 'Langmuir', len(c['temps']), c['pu'], None, r['branch']))
    goals = []
    rnd = random.Random(seed + 5)
    wi = [i for i, c in enumerate(cases) if c['method'] == 'whittaker' and outs[i]['oc'] == 'Ok']
    for i in (wi if tier == 'thorough' else rnd.sample(wi, min(25, len(wi)))):
        goals += whittaker_goals(cases[i], outs[i])
    ng_bad = 0
    if goals:
        for g, okk in zip(goals, cl.run_goals('c19i', goals)):
            if not okk:
                ng_bad += 1
                if ng_bad <= 3:
                    rep.broken_obligation('correspondence:generated-Whittaker-expression-vs-implementation (interval goal)', {'goal': g[:500]})
    rep.cov['timing_s'] = {'implementation': round(t1 - t0, 1), 'coq_model_evaluation': round(t2 - t1, 1), 'oracle_and_interval_goals': round(time.time() - t2, 1)}
    rep.cov['evaluations'] = rep.cov.get('evaluations', 0) + len(cases) + len(hcases)
    rep.cov['distinct_nontrivial'] = len(nontrivial)
    rep.cov['rule'] = ('raw: 2-5 shuffled distinct temperatures in 200-400 K, 1-12 loadings, dH 5-60 kJ/mol, pressure unit factor, exact or 5% noise, plus 16 cases with whole-number temperatures passed as python ints / int64 / int32 arrays / ints mixed with a float; isotherm entry: '
                       'Langmuir / Toth / DS-Langmuir model isotherms and 400-point point isotherms in bar|Pa|kPa, mmol|mol, g|kg; Whittaker: Langmuir / Toth in Pa for '
                       'nitrogen, carbon dioxide, methane, argon below the critical temperature, loadings from 0 to n_m(1-1e-9); initial point: 1-12 adsorption and 0-8 '
                       'desorption rows; history: 300+300-point two-branch Langmuir point isotherms (different dH per branch) analysed 2-6 times on the same objects (either branch, pressure_at / loading_at with other interpolation settings in between), each analysis compared with freshly built twins and the dH of the requested branch. non-trivial = distinct (method, kind, model, number of temperatures, unit, adsorbate, branch) that passed the recovery oracle')
    rep.cov['input_distribution'] = dict(sorted(hist.items()))
    rep.cov['correspondence'] = {'cases': len(cases), 'disagreements': n_dis, 'tolerance_rel': 1e-8, 'interval_goals': len(goals), 'interval_goals_failed': ng_bad,
                                 'what': 'isosteric_enthalpy_raw / isosteric_enthalpy vs Enthalpy.isosteric_from_logs (enthalpy, slope, r^2 per loading); Whittaker kept loadings '
                                         'vs whittaker_loop, values vs generated whittaker_point (interval); initial_enthalpy_point vs model'}
    for i in (0, len(cases) // 2, len(cases) - 1):
        c, o = cases[i], outs[i]
        rep.cov['samples'].append({'method': c['method'], 'temps': c.get('temps'), 'dH': c.get('dH'), 'outcome': o['oc'], 'enthalpy': (o.get('enth') or [o.get('value')])[:3]})
    rep.cov['trusted_base'] += ['translator tools/py2v_charact.py (interval goals / rational execution against the implementation)',
                                'oracles: scipy.stats.linregress, numpy.log, pressure_at (interpolation / model inversion), pygaps.model_iso fit, CoolProp properties',
                                'carrier: theorems over RNum, execution over a 256-bit float record of the same Num interface']
    rep.assumptions += ['IEEE rounding excluded (1e-8 raw, 1e-7 model isotherms, 1e-5 DS-Langmuir (numerical inverse), 1e-3 dense point isotherms)',
                        'DS-Langmuir satisfies the van t Hoff premise only when both sites share dH (generator does so)',
                        'loadings whose pressure equals the limit min(p_c, p_sat) within 1e-12 are not judged']


def replay(d):
    import logging
    logging.disable(logging.CRITICAL)
    c = d['replay']['case']
    if c['method'] == 'history':
        hout = run_history(c)
        print('case:', {k: (v if not isinstance(v, list) else v[:6]) for k, v in c.items()})
        print('implementation now returns:', hout[:6])
        msgs = []
        judge_history(c, hout, lambda clause, what: msgs.append((clause, what)))
        for m in msgs:
            print('FAILS:', m)
        return 1 if msgs else 0
    o = run_impl(c)
    print('case:', {k: (v if not isinstance(v, list) else v[:6]) for k, v in c.items()})
    print('implementation now returns:', {k: (v if not isinstance(v, list) else v[:6]) for k, v in o.items() if k != 'logp'})
    msgs = []
    judge(c, o, lambda clause, what: msgs.append((clause, what)))
    for m in msgs:
        print('FAILS:', m)
    print('clause recorded:', d['replay']['clause'])
    return 1 if msgs else 0
