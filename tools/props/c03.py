"""C03 - data accessors in requested units agree with permanent conversion; branch / limit selection; interpolation.

proof phase   : Props/C03.v over the hand-written accessor model Iso/IsoAccess.v (which calls the GENERATED converters)
correspondence: pressure() / loading() / loading_at() / pressure_at() on real PointIsotherms vs the model (QNum), outcome class and
                every returned number compared inside Coq
oracle/search : on the implementation: accessor == permanently convert a twin and read natively; selection == filter of the stored
                rows; interpolation at knots / midpoints / outside; branch guess depends only on the pressure sequence
"""
import itertools
import random

import numpy as np
import pandas as pd

import vlib
from vlib import ostr, flit, fme
from props import c01, c02

EXTRA_TARGETS = ['Iso/AccessShow.vo', 'Iso/ModelShow.vo']
MANIFEST = dict(
    text="Machine-checked (Coq 8.16) theorems about a hand-written Gallina model of PointIsotherm.data/pressure/loading/loading_at/pressure_at "
         "(Iso/IsoAccess.v) that calls the converters GENERATED from the source: for every stored and requested representation, every branch and "
         "every data list the pressure()/loading() accessors return exactly the stored branch rows times the SI factor, i.e. what permanently "
         "converting (generated convert_*) and reading natively gives; limit selection is exactly the order-preserving filter of the rows inside "
         "the limits; the linear interpolant passes through the knots, lies on the chord between neighbours, is refused outside the range without "
         "a fill value and commutes with positive rescaling of both axes (so querying in foreign units equals converting first); the branch guess "
         "depends only on the sequence of pressures (after a fix: commit; formerly refuted). MODEL isotherms: ModelIsotherm.loading_at / pressure_at are "
         "GENERATED from core/modelisotherm.py on every run (Gen/ModelIsoGen.v); for ANY fitted model functions and every stored / requested "
         "representation a query = convert the argument with the SI factor, evaluate the model, convert the answer with the SI factors; native "
         "without arguments; other branch / unit-less arguments refused; round trip through any foreign representation (10 theorems, one defect "
         "found and repaired in /repo). The hand model is tied to the code by a "
         "per-call correspondence on real isotherms (all stored x requested representations sampled, both branches, limits, fills, CoolProp "
         "adsorbates). Partial: stored fraction/percent with material arguments is refuted; interpolation kinds other than linear, array arguments and the "
         "point generators ModelIsotherm.pressure() / loading() are validated by runs only.",
    note="Trusted: Coq kernel; Reals axioms; hand model Iso/IsoAccess.v (validated by correspondence); translators for the converters; "
         "scipy interp1d(kind='linear') = piecewise-linear interpolant over sorted knots (contract, validated by the correspondence); pandas "
         "selection semantics as modelled.",
    technique="Coq proof on a hand-written accessor model over generated converters and on the generated ModelIsotherm queries + per-call differential correspondence")

HEADER = """From Coq Require Import QArith ZArith String List.
From PG Require Import Lib.Num Lib.Py Lib.Show Gen.UnitsGen1 Units.AdsOracle Gen.UnitsGen2 Iso.IsoState Gen.IsoGen Iso.IsoShow Iso.IsoAccess Iso.AccessShow.
Import ListNotations. Open Scope string_scope.
"""
PREPS, LREPS, MREPS = c01.PREPS, c01.LREPS, c01.MREPS
# 7 adsorption points (increasing) + 5 desorption points (decreasing pressure, hysteresis)
P1 = [0.05, 0.1, 0.2, 0.35, 0.5, 0.7, 0.9, 0.8, 0.6, 0.4, 0.25, 0.12]
L1 = [0.8, 1.5, 2.4, 3.1, 3.6, 4.1, 4.6, 4.5, 4.2, 3.7, 3.0, 1.9]
B1 = [0] * 7 + [1] * 5
ADSK = {'full': c02.ADS_FULL, 'water': 'water', 'nitrogen': 'nitrogen'}


def build(init, tag=''):
    rp, rl, rm, tu, T, ak = init
    return c02.make_iso(rp, rl, rm, tu, T, ADSK[ak], c02.MAT_FULL, tag=tag, P=P1, L=L1, B=B1)


def coq_state(init, iso):
    rp, rl, rm, tu, T, ak = init
    return c02.coq_iso(rp, rl, rm, tu, T, iso.adsorbate, c02.MAT_FULL, P=P1, L=L1, B=B1)


def olim(l):
    if l is None:
        return 'nolim'
    f = lambda x: 'None' if x is None else '(Some %s)' % flit(x)
    return '(lim %s %s)' % (f(l[0]), f(l[1]))


def ofill(f):
    if f is None: return 'fnone'
    if f == 'extrapolate': return 'fextrap'
    if isinstance(f, tuple): return '(fpair %s %s)' % (flit(f[0]), flit(f[1]))
    return '(fnum %s)' % flit(f)


def coq_query(q):
    k = q[0]
    if k == 'pressure':
        _, b, pu, pm, lim = q
        return '(QPressure %s %s %s %s)' % (ostr(b), ostr(pu), ostr(pm), olim(lim))
    if k == 'loading':
        _, b, lu, lb, mu, mb, lim = q
        return '(QLoading %s %s %s %s %s %s)' % (ostr(b), ostr(lu), ostr(lb), ostr(mu), ostr(mb), olim(lim))
    if k in ('loading_at', 'pressure_at'):
        _, xs, b, kind, fill, pu, pm, lu, lb, mu, mb = q
        return '(%s [%s] %s %s %s %s %s %s %s %s %s)' % ('QLoadingAt' if k == 'loading_at' else 'QPressureAt', '; '.join(flit(x) for x in xs),
                                                       ostr(b), ostr(kind), ofill(fill), ostr(pu), ostr(pm), ostr(lu), ostr(lb), ostr(mu), ostr(mb))
    if k == 'conv':
        return '(QConv %s)' % c02.coq_call(q[1])
    raise ValueError(q)


def do_query(iso, q):
    k = q[0]
    try:
        if k == 'pressure':
            _, b, pu, pm, lim = q
            r = iso.pressure(branch=b, pressure_unit=pu, pressure_mode=pm, limits=lim)
        elif k == 'loading':
            _, b, lu, lb, mu, mb, lim = q
            r = iso.loading(branch=b, loading_unit=lu, loading_basis=lb, material_unit=mu, material_basis=mb, limits=lim)
        elif k == 'loading_at':
            _, xs, b, kind, fill, pu, pm, lu, lb, mu, mb = q
            r = iso.loading_at(list(xs), branch=b, interpolation_type=kind, interp_fill=fill, pressure_unit=pu, pressure_mode=pm,
                               loading_unit=lu, loading_basis=lb, material_unit=mu, material_basis=mb)
        elif k == 'pressure_at':
            _, xs, b, kind, fill, pu, pm, lu, lb, mu, mb = q
            r = iso.pressure_at(list(xs), branch=b, interpolation_type=kind, interp_fill=fill, pressure_unit=pu, pressure_mode=pm,
                                loading_unit=lu, loading_basis=lb, material_unit=mu, material_basis=mb)
        elif k == 'conv':
            return (c02.do_call(iso, q[1]), [])
        return ('Ok', [float(x) for x in np.atleast_1d(np.asarray(r, dtype=float))])
    except Exception as e:  # noqa
        return (vlib.exn_class(e), [])


def gen(tier, seed):
    """-> list of (init, [query, ...]) ; queries that need data-dependent arguments are built against a scratch isotherm"""
    rnd = random.Random(seed)
    out = []
    n_state = 150 if tier == 'quick' else 1000
    for si in range(n_state):
        rp = rnd.choice(PREPS)
        rl = rnd.choice(LREPS) if rnd.random() < 0.8 else rnd.choice([('fraction', None), ('percent', None)])
        rm = rnd.choice(MREPS)
        ak = rnd.choice(['full', 'full', 'water', 'nitrogen'])
        tu = rnd.choice(['K', '°C'])
        TK = 573.15 if ak == 'water' else 77.355
        T = TK if tu == 'K' else round(TK - 273.15, 3)
        init = (rp, rl, rm, tu, T, ak)
        scratch = build(init, tag='s')
        qs = []

        def rep_args(kind):
            r = rnd.random()
            if kind == 'p':
                if r < 0.15: return (None, None)
                m, u = rnd.choice(PREPS)
                if r < 0.25: return (None, u) if u else (m, None)      # unit only / mode only
                if r < 0.30: return ('bogus', u)
                return (m, u)
            if kind == 'l':
                if r < 0.2: return (None, None)
                b, u = rnd.choice(LREPS)
                if r < 0.3: return (None, u)
                if r < 0.35: return (b, None)
                return (b, u)
            if r < 0.5: return (None, None)
            b, u = rnd.choice(MREPS)
            if r < 0.6: return (None, u)
            return (b, u)
        branches = [None, 'ads', 'des', 'all', 'ads', 'des', 'bogus']
        for _ in range(6 if tier == 'quick' else 10):
            kind = rnd.choice(['pressure', 'loading', 'loading_at', 'pressure_at', 'loading_at', 'pressure_at'])
            b = rnd.choice(branches)
            pm, pu = rep_args('p'); lb, lu = rep_args('l'); mb, mu = rep_args('m')
            if kind in ('pressure', 'loading'):
                base = ('pressure', b, pu, pm, None) if kind == 'pressure' else ('loading', b, lu, lb, mu, mb, None)
                oc, vals = do_query(scratch, base)
                lim = None
                if oc == 'Ok' and vals:
                    sv = sorted(vals)
                    converted = any(x is not None for x in base[2:-1])
                    mid = lambda i: (sv[i] + sv[i + 1]) / 2 if sv[i] != sv[i + 1] else sv[i] * 1.0000001
                    # bounds exactly ON a data value only for native reads: after a conversion the float and the exact value
                    # may fall on different sides of the bound (rounding is outside the model)
                    on = (lambda i: sv[i]) if not converted else (lambda i: mid(min(i, len(sv) - 2)))
                    choices = [None, (None, None), (0, 0), (None, 0), (on(len(sv) // 3), None), (None, on(2 * len(sv) // 3)),
                               (on(1), on(len(sv) - 2)), (mid(0), mid(len(sv) - 2)), (mid(len(sv) - 2), mid(0)), (0, on(len(sv) // 2))] if len(sv) >= 3 else [None, (0, 0)]
                    lim = rnd.choice(choices)
                    if lim and any(isinstance(x, float) and x in (float('inf'), float('-inf')) for x in lim):
                        lim = None
                qs.append(base[:-1] + (lim,))
            else:
                bb = b if b in ('ads', 'des') else rnd.choice(['ads', 'des'])
                if rnd.random() < 0.08: bb = b
                kindi = 'linear' if rnd.random() < 0.85 else rnd.choice(['cubic', 'nearest', 'quadratic'])
                fill = rnd.choice([None, None, None, 0.0, 5.0, (0.0, 20.0), (1.0, 2.0), 'extrapolate'])
                # query points in the REQUESTED input representation: knots, midpoints, edges, outside
                if kind == 'loading_at':
                    oc, knots = do_query(scratch, ('pressure', bb if bb in ('ads', 'des') else 'ads', pu, pm, None))
                else:
                    oc, knots = do_query(scratch, ('loading', bb if bb in ('ads', 'des') else 'ads', lu, lb, mu, mb, None))
                if oc != 'Ok' or len(knots) < 2:
                    knots = [0.1, 0.2, 0.3]
                ks = sorted(knots)
                converted = any(x is not None for x in (pu, pm, lu, lb, mu, mb))
                eps = (ks[-1] - ks[0]) * 1e-7 if converted else 0.0    # edges nudged inward unless the read is native (exact)
                pts = [ks[0] + eps, ks[-1] - eps, ks[len(ks) // 2], (ks[0] + ks[1]) / 2, (ks[-2] + ks[-1]) / 2]
                if rnd.random() < 0.5: pts += [ks[0] * 0.5, ks[-1] * 1.5]
                pts = rnd.sample(pts, rnd.randint(1, len(pts)))
                qs.append((kind, tuple(pts), bb, kindi, fill, pu, pm, lu, lb, mu, mb))
            if rnd.random() < 0.08:
                qs.append(('conv', rnd.choice([('P', rnd.choice(PREPS)), ('L', rnd.choice(LREPS)), ('M', rnd.choice(MREPS))])))
        out.append((init, qs))
    # ---- targeted: an interpolation call, a permanent conversion, the same call again (the answer must follow the data)
    init0 = (('absolute', 'bar'), ('molar', 'mmol'), ('mass', 'g'), 'K', 77.355, 'full')
    convs = [('P', ('absolute', 'kPa')), ('P', ('relative', None)), ('L', ('mass', 'mg')), ('L', ('molar', 'mol')), ('M', ('mass', 'kg')), ('M', ('volume', 'cm3')), ('M', ('molar', 'mmol'))]
    for cv in convs:
        for kind in ('loading_at', 'pressure_at'):
            # query in NATIVE units at values that are inside the range before and after (pressure 0.3..0.6 bar etc. would move: use the data themselves)
            q1 = (kind, (0.3, 0.6) if kind == 'loading_at' else (2.0, 3.5), 'ads', 'linear', (0.0, 20.0)) + (None,) * 6
            out.append((init0, [q1, ('conv', cv), q1]))
    return out


def classify(init, q, kind, stored_basis=None):
    rp, rl, rm = init[:3]
    if stored_basis is not None:          # the loading basis the isotherm is stored in NOW (the history may have converted it)
        rl = (stored_basis, None)
    if kind == 'accessor-vs-permanent' and rl[0] in ('fraction', 'percent') and q[0] in ('loading', 'loading_at', 'pressure_at'):
        mu, mb = (q[4], q[5]) if q[0] == 'loading' else (q[9], q[10])
        if mu or mb:
            return 'C03:stored-fraction-with-material-arguments'
    if kind == 'limits-not-filter':
        lim = q[-1]
        if lim and all((x is None or x == 0) for x in lim):
            return 'C03:limits-all-falsy-select-everything'
    return 'C03:unclassified:%s:%s' % (kind, q[0])


def named_full(q):
    """the query names a complete valid target representation for everything it converts"""
    k = q[0]
    if k == 'pressure':
        return (q[3], q[2]) in PREPS
    if k == 'loading':
        lu, lb, mu, mb = q[2], q[3], q[4], q[5]
        ok_l = (lb, lu) in LREPS
        ok_m = (mb, mu) in MREPS or (mb is None and mu is None)
        return ok_l and ok_m
    return False


def run(rep, tier, seed):
    vlib.standard_proof_phase(rep, 'C03', extra_targets=EXTRA_TARGETS)
    explore(rep, tier, seed)
    if rep.broken and not rep.violations and tier != 'thorough':
        explore(rep, 'thorough', seed + 1)


def explore(rep, tier, seed, judge=True):
    G = gen(tier, seed)
    impl = []
    for gi, (init, qs) in enumerate(G):
        iso = build(init, tag=str(gi % 5))
        res = []
        for q in qs:
            r = do_query(iso, q)
            if q[0] in ('pressure', 'loading') and q[-1] is not None:
                r = r + (do_query(iso, q[:-1] + (None,)),)     # the same read without limits, on the same object, right now
            res.append(r)
        impl.append((iso, res))
    terms = []
    for (init, qs), (iso, res) in zip(G, impl):
        exp = lambda vals: '[' + '; '.join('((%d)%%Z, (%d)%%Z)' % fme(x) for x in vals) + ']'
        terms.append('(run_queries_cmp 1 1000000000 %s [%s])' % (coq_state(init, iso), '; '.join('(%s, %s)' % (coq_query(q), exp(r[1])) for q, r in zip(qs, res))))
    model = None
    try:
        model = vlib.run_coq_cases('c03m', HEADER, 'fun x : list (list Z) => x', terms, per_file=60, nested=True)
    except RuntimeError as e:
        rep.broken_obligation('correspondence:IsoAccess-evaluation', str(e)[-800:])
    n_q = n_dis = 0
    hist = {}
    nontrivial = set()
    for gi, ((init, qs), (iso, res)) in enumerate(zip(G, impl)):
        for qi, (q, rr) in enumerate(zip(qs, res)):
            oc, vals = rr[0], rr[1]
            n_q += 1
            hist[(q[0], oc)] = hist.get((q[0], oc), 0) + 1
            if model is not None:
                mz = model[gi][qi]
                moc = vlib.EXN[mz[0]]
                unmodelled = (moc == 'FellOffEnd')          # interpolation kind other than linear
                ok = unmodelled or (moc == oc and mz[1] == 1)
                if moc == 'ValueError' and oc.startswith('other'):
                    ok = True
                if not ok:
                    n_dis += 1
                    if n_dis <= 6:
                        rep.broken_obligation('correspondence:IsoAccess-vs-implementation',
                                              {'init': [str(x) for x in init], 'queries': [str(x) for x in qs[:qi + 1]], 'implementation': [oc, vals[:4]], 'model_outcome': moc,
                                               'values_agree': bool(mz[1])})
            if not judge:
                continue
            # ---- property oracle on the implementation
            def fail(kind, what, extra=None, stored_basis=None):
                rep.failure(classify(init, q, kind, stored_basis), what, {'init': list(init), 'query': list(q), 'history': [list(x) for x in qs[:qi]], 'kind': kind, 'observed': [oc, vals[:6]], 'extra': extra})
            if q[0] in ('pressure', 'loading') and oc == 'Ok':
                lim = q[-1]
                full = rr[2][1] if len(rr) > 2 else vals
                # (O2) limit selection = order-preserving filter of the unlimited result
                if lim is not None:
                    lo = float('-inf') if lim[0] is None else lim[0]
                    hi = float('inf') if lim[1] is None else lim[1]
                    want = [x for x in full if lo <= x <= hi]
                    if want != vals:
                        fail('limits-not-filter', '%r with limits %r returned %d points, the points inside the limits are %d' % (q[0], lim, len(vals), len(want)))
                # (O3) branch selection = the stored rows of that branch, in order (native read)
                if q[1] in (None, 'ads', 'des') and lim is None and all(x is None for x in q[2:-1]) and not any(qq[0] == 'conv' for qq in qs[:qi]):
                    col = P1 if q[0] == 'pressure' else L1
                    want = [c for c, b in zip(col, B1) if q[1] is None or (b == 0) == (q[1] == 'ads')]
                    if want != vals:
                        fail('branch-selection', 'native %s(branch=%r) is not the stored rows of that branch in order' % (q[0], q[1]))
                # (O1) accessor == convert a twin permanently, then read natively
                if lim is None and named_full(q):
                    twin = build(init, tag='t')
                    for qq in qs[:qi]:
                        if qq[0] == 'conv':
                            c02.do_call(twin, qq[1])
                    stored_now = twin.loading_basis
                    try:
                        if q[0] == 'pressure':
                            twin.convert_pressure(mode_to=q[3], unit_to=q[2])
                            want = list(twin.pressure(branch=q[1]))
                        else:
                            if q[4] or q[5]:
                                twin.convert_material(basis_to=q[5], unit_to=q[4])
                            twin.convert_loading(basis_to=q[3], unit_to=q[2])
                            want = list(twin.loading(branch=q[1]))
                        good = len(want) == len(vals) and np.allclose(want, vals, rtol=1e-9, atol=0)
                    except Exception as e:  # noqa
                        good, want = False, repr(e)
                    if not good:
                        fail('accessor-vs-permanent', '%r differs from converting a copy permanently and reading it natively' % (q,), extra=str(want)[:300], stored_basis=stored_now)
                    elif any(x is not None for x in q[2:-1]):
                        nontrivial.add((init[:3], q[0], q[2:-1]))
            if q[0] in ('loading_at', 'pressure_at'):
                # (O6) the same call on an identical fresh object (conversions of the history replayed) gives the same answer:
                # interpolated values come from the data as they are now, not from what an earlier call cached
                twin = build(init, tag='u')
                for qq in qs[:qi]:
                    if qq[0] == 'conv':
                        c02.do_call(twin, qq[1])
                oc2, vals2 = do_query(twin, q)
                same = (oc2 == oc) and len(vals2) == len(vals) and all((a == b) or (a != a and b != b) or abs(a - b) <= 1e-9 * max(abs(a), abs(b)) for a, b in zip(vals, vals2))
                if not same:
                    fail('interpolation-depends-on-history', '%r returns %r after the history %r but %r on an identical fresh isotherm' % (q, (oc, vals[:4]), qs[:qi], (oc2, vals2[:4])))
                elif oc == 'Ok' and q[3] == 'linear':
                    nontrivial.add((init[:3], q[0], q[5:]))
    if judge:
        interpolation_oracle(rep, tier, seed)
        split_oracle(rep, tier, seed)
        model_isotherm_phase(rep, tier, seed)
    rep.cov['evaluations'] = rep.cov.get('evaluations', 0) + n_q
    rep.cov['distinct_nontrivial'] = rep.cov.get('distinct_nontrivial', 0) + len(nontrivial)
    rep.cov['rule'] = ('random stored representation (pressure 10 x loading 27 x material 19, K/degC, user / CoolProp adsorbates) x queries pressure / loading / '
                       'loading_at / pressure_at with requested representation (15-30% partial or malformed), branch, limits derived from the data, query '
                       'points at knots / midpoints / edges / outside, fill in {None, number, pair, extrapolate}, kind linear (85%); non-trivial = distinct '
                       '(stored rep, accessor, requested labels) that returned values in another representation and passed the convert-a-twin oracle, '
                       'or a successful linear interpolation call')
    rep.cov['input_distribution'] = {'%s/%s' % k: v for k, v in sorted(hist.items())}
    rep.cov['correspondence'] = {'queries': n_q, 'disagreements': n_dis, 'tolerance_rel': 1e-9,
                                 'what': 'hand model Iso/IsoAccess.v (QNum) vs PointIsotherm: outcome class and every returned number, per call, caches threaded'}
    rep.cov['samples'] += [{'init': [str(x) for x in G[i][0]], 'queries': [str(q) for q in G[i][1][:3]], 'implementation': [str(r)[:120] for r in impl[i][1][:3]]} for i in (0, len(G) - 1)]
    rep.cov['trusted_base'] += ['hand-written model Iso/IsoAccess.v (validated by the per-call correspondence above)',
                                'scipy.interpolate.interp1d(kind=linear) = piecewise-linear interpolant over sorted knots, ValueError outside without fill (contract)',
                                'translators tools/py2v_units.py, tools/py2v_iso.py']
    rep.assumptions += ['interpolation kinds other than linear are not modelled (cache keys only)', 'ModelIsotherm.loading_at / pressure_at are generated (Gen/ModelIsoGen.v) for one query point; arrays and the pressure() / loading() point generators of ModelIsotherm are validated by runs in C10']



# ---------------------------------------------------------------------------------------------------------------------
# MODEL isotherms: ModelIsotherm.loading_at / pressure_at with unit arguments. The generated model (Gen/ModelIsoGen.v, translated
# from core/modelisotherm.py) is executed over exact rationals with an exact rational fitted model (Langmuir / Henry) and compared
# per call; the property oracle compares with a POINT isotherm built from the model's own points, permanently converted to the
# requested representation and read natively ("the numbers obtained by permanently converting a copy").
MHEADER = """From Coq Require Import QArith ZArith String List.
From PG Require Import Lib.Num Lib.Py Lib.Show Gen.UnitsGen1 Units.AdsOracle Gen.UnitsGen2 Iso.IsoState Gen.IsoGen Gen.ModelIsoGen Iso.ModelShow.
Import ListNotations. Open Scope string_scope.
"""


def _model_iso(rp, rl, rm, tu, T, kind, params, branch='ads'):
    import pygaps
    from pygaps.modelling import get_isotherm_model
    key = 'verif_ads_' + '_'.join(sorted(c02.ADS_FULL))
    if key not in c02._ADS:
        c02._ADS[key] = pygaps.Adsorbate(key, store=True, **c02.ADS_FULL)
    m = get_isotherm_model(kind, parameters=dict(params))
    return pygaps.ModelIsotherm(model=m, branch=branch, material=pygaps.Material('verif_mat_m', **c02.MAT_FULL), adsorbate=key, temperature=T, temperature_unit=tu,
                                pressure_mode=rp[0], pressure_unit=rp[1], loading_basis=rl[0], loading_unit=rl[1],
                                material_basis=rm[0], material_unit=rm[1])


def model_isotherm_phase(rep, tier, seed):
    import pygaps
    rnd = random.Random(seed + 11)
    n_iso = 40 if tier == 'quick' else 400
    cases = []      # (init, kind, params, branch, method, x, args(b,pu,pm,lu,lb,mu,mb))
    GARB = [None, '', 'bogus', 'bar', 'mmol', 'mass', 'K']
    for gi in range(n_iso):
        rp, rl, rm = rnd.choice(PREPS), rnd.choice(LREPS), rnd.choice(MREPS)
        tu = rnd.choice(['K', 'K', '°C'])
        T = 77.355 if tu == 'K' else -195.795
        if rnd.random() < 0.7:
            kind, params = 'Langmuir', {'n_m': rnd.choice([3.0, 0.75, 12.5]), 'K': rnd.choice([0.8, 4.0, 0.05])}
        else:
            kind, params = 'Henry', {'K': rnd.choice([0.5, 2.0, 7.25])}
        mbranch = rnd.choice(['ads', 'ads', 'des'])
        init = (rp, rl, rm, tu, T, kind, params, mbranch)
        for _ in range(rnd.randint(4, 8)):
            meth = rnd.choice(['loading_at', 'pressure_at'])
            rp2, rl2, rm2 = rnd.choice(PREPS), rnd.choice(LREPS), rnd.choice(MREPS)
            k = rnd.random()
            pu, pm = (rp2[1], rp2[0]) if rnd.random() < 0.7 else (None, None)
            lu, lb = (rl2[1], rl2[0]) if rnd.random() < 0.7 else (None, None)
            mu, mb = (rm2[1], rm2[0]) if rnd.random() < 0.5 else (None, None)
            if k < 0.12:      # partial: one of a pair omitted
                which = rnd.choice(['pu', 'pm', 'lu', 'lb', 'mu', 'mb'])
                pu, pm, lu, lb, mu, mb = [None if n == which else v for n, v in zip(['pu', 'pm', 'lu', 'lb', 'mu', 'mb'], [pu, pm, lu, lb, mu, mb])]
            elif k < 0.24:    # malformed
                which = rnd.choice(['pu', 'pm', 'lu', 'lb', 'mu', 'mb'])
                g = rnd.choice(GARB)
                pu, pm, lu, lb, mu, mb = [g if n == which else v for n, v in zip(['pu', 'pm', 'lu', 'lb', 'mu', 'mb'], [pu, pm, lu, lb, mu, mb])]
            b = rnd.choice([None, None, None, 'ads', 'des', ''])
            x = rnd.choice([0.1, 0.35, 0.5, 0.9, 1.5, 2.0e-3, 40.0])
            cases.append((init, meth, x, (b, pu, pm, lu, lb, mu, mb)))
    impl = []
    isos = {}
    for init, meth, x, a in cases:
        key = repr(init)
        if key not in isos:
            isos[key] = _model_iso(*init[:7], branch=init[7])
        iso = isos[key]
        b, pu, pm, lu, lb, mu, mb = a
        try:
            r = getattr(iso, meth)(x, branch=b, pressure_unit=pu, pressure_mode=pm, loading_unit=lu, loading_basis=lb, material_unit=mu, material_basis=mb)
            r = float(np.asarray(r, dtype=float))
            impl.append(('Ok', r) if np.isfinite(r) else ('nonfinite', r))
        except Exception as e:  # noqa
            impl.append((vlib.exn_class(e), None))
    terms = []
    for (init, meth, x, a), (oc, val) in zip(cases, impl):
        rp, rl, rm, tu, T, kind, params, mbranch = init
        st = c02.coq_iso(rp, rl, rm, tu, T, 'verif_ads_' + '_'.join(sorted(c02.ADS_FULL)), c02.MAT_FULL, P=[], L=[], B=[])
        mk = '(MLangmuir %s %s)' % (flit(params['n_m']), flit(params['K'])) if kind == 'Langmuir' else '(MHenry %s)' % flit(params['K'])
        m, e = fme(val) if oc == 'Ok' else (0, 0)
        code = vlib.EXN.index(oc) if oc in vlib.EXN else 99
        terms.append('mcmp 1 1000000000 (mquery %s %s %s %s %s %s) (%d) (%d) (%d)' % (
            mk, ostr(mbranch), st, 'true' if meth == 'loading_at' else 'false', flit(x), ' '.join(ostr(v) for v in a), code, m, e))
    model = None
    try:
        model = vlib.run_coq_cases('c03mm', MHEADER, 'fun x : Z*Z => x', terms)
    except RuntimeError as e:
        rep.broken_obligation('correspondence:ModelIsoGen-evaluation', str(e)[-800:])
    n_dis = 0
    hist = {}
    nontrivial = set()
    twins = {}
    for i, ((init, meth, x, a), (oc, val)) in enumerate(zip(cases, impl)):
        hist[(meth, oc)] = hist.get((meth, oc), 0) + 1
        if model is not None and oc != 'nonfinite':
            code, agree = model[i]
            if not agree:
                n_dis += 1
                if n_dis <= 6:
                    rep.broken_obligation('correspondence:ModelIsoGen-vs-implementation',
                                          {'init': [str(v) for v in init], 'method': meth, 'x': x, 'args': [str(v) for v in a], 'implementation': [oc, val], 'model_outcome': vlib.EXN[code]})
        # ---- property oracle: permanently convert a point-isotherm copy of the model's own points, read natively
        rp, rl, rm, tu, T, kind, params, mbranch = init
        b, pu, pm, lu, lb, mu, mb = a
        full = ((pm, pu) in PREPS or (pm is None and pu is None)) and ((lb, lu) in LREPS or (lb is None and lu is None)) and \
               ((mb, mu) in MREPS or (mb is None and mu is None)) and b in (None, mbranch)
        if meth == 'pressure_at' and lb in ('fraction', 'percent'):
            full = False     # a loading without a unit is refused by pressure_at (theorem model_queries_refuse_unitless_arguments)
        frac_mat = rl[0] in ('fraction', 'percent') and (mb or mu)
        if not full or frac_mat:
            continue
        f = (lambda p: params['n_m'] * params['K'] * p / (1 + params['K'] * p)) if kind == 'Langmuir' else (lambda p: params['K'] * p)
        # native points: the query point itself is one of them
        try:
            tgt = ((pm, pu) if pm else rp, (lb, lu) if lb else rl, (mb, mu) if mb else rm)
            if meth == 'loading_at':
                # x is a pressure in the requested representation: find its native value by converting a twin the other way
                tw = c02.make_iso(tgt[0], rl, rm, tu, T, c02.ADS_FULL, c02.MAT_FULL, tag='mq', P=[x, 2 * x], L=[1.0, 2.0], B=[0, 0])
                tw.convert_pressure(mode_to=rp[0], unit_to=rp[1])
                p_nat = float(tw.pressure()[0])
                pts = c02.make_iso(rp, rl, rm, tu, T, c02.ADS_FULL, c02.MAT_FULL, tag='mp', P=[p_nat, 2 * p_nat], L=[f(p_nat), f(2 * p_nat)], B=[0, 0])
                pts.convert(pressure_mode=tgt[0][0], pressure_unit=tgt[0][1], material_basis=tgt[2][0], material_unit=tgt[2][1], loading_basis=tgt[1][0], loading_unit=tgt[1][1])
                want = float(pts.loading()[0])
            else:
                # x is a loading in the requested representation
                tw = c02.make_iso(rp, tgt[1], tgt[2], tu, T, c02.ADS_FULL, c02.MAT_FULL, tag='mq', P=[0.1, 0.2], L=[x, 2 * x], B=[0, 0])
                tw.convert(material_basis=rm[0], material_unit=rm[1], loading_basis=rl[0], loading_unit=rl[1])
                n_nat = float(tw.loading()[0])
                finv = (lambda n: n / (params['K'] * (params['n_m'] - n))) if kind == 'Langmuir' else (lambda n: n / params['K'])
                p_nat = finv(n_nat)
                if not np.isfinite(p_nat):
                    continue
                pts = c02.make_iso(rp, rl, rm, tu, T, c02.ADS_FULL, c02.MAT_FULL, tag='mp', P=[p_nat, p_nat + 1.0], L=[n_nat, n_nat * 1.5], B=[0, 0])
                pts.convert_pressure(mode_to=tgt[0][0], unit_to=tgt[0][1])
                want = float(pts.pressure()[0])
        except Exception as e:  # noqa
            rep.cov.setdefault('notes', []).append('model-isotherm oracle skipped: %r' % (e,))
            continue
        good = oc == 'Ok' and (val == want or abs(val - want) <= 1e-9 * max(abs(val), abs(want)))
        if not good:
            rep.failure('C03:unclassified:model-isotherm-vs-permanent:%s' % meth,
                        'ModelIsotherm(%s).%s(%r, %r) = %r, a point copy converted permanently and read natively gives %r' % (kind, meth, x, a, (oc, val), want),
                        {'kind': 'model-isotherm', 'init': [rp, rl, rm, tu, T, kind, params, mbranch], 'method': meth, 'x': x, 'args': list(a), 'observed': [oc, val], 'expected': want})
        elif any(v is not None for v in a[1:]):
            nontrivial.add((rp, rl, rm, meth, a[1:]))
    rep.cov['evaluations'] = rep.cov.get('evaluations', 0) + len(cases)
    rep.cov['distinct_nontrivial'] = rep.cov.get('distinct_nontrivial', 0) + len(nontrivial)
    rep.cov['model_isotherm'] = {'calls': len(cases), 'disagreements_with_generated_model': n_dis, 'judged_nontrivial': len(nontrivial),
                                 'outcomes': {'%s/%s' % k: v for k, v in sorted(hist.items())},
                                 'what': 'Gen/ModelIsoGen.v (generated from core/modelisotherm.py, QNum, exact Langmuir / Henry) vs ModelIsotherm.loading_at / pressure_at per call; '
                                         'oracle: a point isotherm made of the model\'s own points, converted permanently, read natively'}


def interpolation_oracle(rep, tier, seed):
    """interpolated values coincide with the data at measured points, lie on the chord between neighbours, refused outside"""
    rnd = random.Random(seed + 7)
    n = 0
    for _ in range(20 if tier == 'quick' else 200):
        init = (rnd.choice(PREPS), rnd.choice(LREPS[:25]), rnd.choice(MREPS), 'K', 77.355, 'full')
        for b in ('ads', 'des'):
            iso = build(init, tag='i')
            ps = [p for p, br in zip(P1, B1) if (br == 0) == (b == 'ads')]
            ls = [l for l, br in zip(L1, B1) if (br == 0) == (b == 'ads')]
            n += 1
            try:
                at = iso.loading_at(ps, branch=b)
                ok1 = np.allclose(at, ls, rtol=1e-12)
                i = rnd.randrange(len(ps) - 1)
                mid = iso.loading_at([(ps[i] + ps[i + 1]) / 2], branch=b)[0]
                ok2 = abs(mid - (ls[i] + ls[i + 1]) / 2) <= 1e-12 * abs(mid)
                back = iso.pressure_at(ls, branch=b)
                ok3 = np.allclose(back, ps, rtol=1e-12)
            except Exception as e:  # noqa
                ok1 = ok2 = ok3 = False
            if not (ok1 and ok2 and ok3):
                rep.failure('C03:unclassified:interpolation-at-data', 'loading_at/pressure_at on branch %s do not reproduce the data / the chord' % b,
                            {'init': list(init), 'branch': b, 'checks': [bool(ok1), bool(ok2), bool(ok3)]})
            for x in (min(ps) * 0.5, max(ps) * 1.5):
                try:
                    iso.loading_at([x], branch=b)
                    rep.failure('C03:unclassified:outside-not-refused', 'loading_at outside the measured range returned a value without a fill rule',
                                {'init': list(init), 'branch': b, 'x': x})
                except Exception:
                    pass
    rep.cov['evaluations'] = rep.cov.get('evaluations', 0) + n


def split_oracle(rep, tier, seed):
    """unmarked data are split at the pressure maximum by a rule that depends only on the pressure sequence"""
    import pygaps
    rnd = random.Random(seed + 11)
    n = 0
    for _ in range(30 if tier == 'quick' else 300):
        k = rnd.randint(2, 9)
        up = sorted(rnd.sample(range(1, 100), k))
        down = sorted(rnd.sample(range(1, up[-1]), min(rnd.randint(0, 5), up[-1] - 1)), reverse=True) if up[-1] > 1 else []
        shape = rnd.random()
        if shape < 0.15: ps = [float(x) for x in sorted(up, reverse=True)]          # maximum first: purely desorption
        else: ps = [float(x) for x in up + down]
        ls = [float(i + 1) for i in range(len(ps))]
        results = {}
        for name, idx in (('range', None), ('shifted', list(range(1, len(ps) + 1))), ('shifted5', list(range(5, len(ps) + 5))), ('str', ['r%d' % i for i in range(len(ps))]),
                          ('float', [float(i) for i in range(len(ps))])):
            n += 1
            try:
                df = pd.DataFrame({'pressure': ps, 'loading': ls}, index=idx)
                iso = pygaps.PointIsotherm(isotherm_data=df, pressure_key='pressure', loading_key='loading', material='verif_m', adsorbate='verif_split_a',
                                           temperature=77, pressure_mode='absolute', pressure_unit='bar', loading_basis='molar', loading_unit='mmol',
                                           material_basis='mass', material_unit='g', temperature_unit='K')
                results[name] = [int(x) for x in iso.data_raw['branch']]
            except Exception as e:  # noqa
                results[name] = 'error:' + type(e).__name__
        imax = ps.index(max(ps))
        want = [0] * (imax + 1) + [1] * (len(ps) - imax - 1)
        if imax == 0 and len(ps) > 1:
            want = [1] * len(ps)
        if len(set(map(str, results.values()))) > 1:
            rep.failure('C03:branch-guess-depends-on-index-labels', 'the guessed branches of pressures %r depend on the row labels: %r' % (ps, results),
                        {'pressures': ps, 'results': {k: str(v) for k, v in results.items()}})
        elif results['range'] != want:
            rep.failure('C03:unclassified:branch-guess-rule', 'pressures %r: guessed %r, splitting at the maximum gives %r' % (ps, results['range'], want),
                        {'pressures': ps, 'guessed': str(results['range']), 'expected': want})
    rep.cov['evaluations'] = rep.cov.get('evaluations', 0) + n


def replay(d):
    r = d['replay']
    if 'query' in r:
        init = r['init']
        init = (tuple(init[0]), tuple(init[1]), tuple(init[2]), init[3], init[4], init[5])
        q = r['query']
        q = tuple(tuple(x) if isinstance(x, list) else x for x in q)
        print('stored', init, 'query', q, '->', do_query(build(init, tag='r'), q))
    else:
        print(r)
    return 1
