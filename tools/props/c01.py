"""C01 - unit / mode / basis conversions.

proof phase   : Props/C01.v over the GENERATED model of converter_unit.py / converter_mode.py
correspondence: the generated model (QNum, vm_compute) vs the implementation on the complete label space
                (validates the translator)
oracle/search : the implementation vs the hand-written SPEC (UnitsSpecQ, evaluated in Coq) on every valid
                representation pair, and the refusal clause on every invalid label combination
"""
import itertools
import random
from fractions import Fraction

import numpy as np
import pandas as pd

import vlib
from vlib import qlit, ostr, flit, fme

EXTRA_TARGETS = ['Units/UnitsSpecQ.vo', 'Lib/Show.vo']
MANIFEST = dict(
    text="Machine-checked (Coq 8.16) factor theorems over R for the model GENERATED from converter_unit.py/converter_mode.py on every run: "
         "every ordered pair of the 10 pressure, 27 loading (x19 material contexts) and 19 material representations, every real value and "
         "every positive adsorbate/material constant (read at exactly the temperature the code passes) multiplies by exactly the SI factor of a "
         "hand-written specification (Units/UnitsSpec.v); identity, there-and-back, composition and element-wise corollaries; the refusal clause "
         "for ALL strings; temperature K<->degC. The translator is validated on every run by evaluating the generated model (QNum, vm_compute) "
         "against the implementation on the whole label space, and the implementation is compared with the SPEC; every shipped adsorbate with a "
         "thermodynamic backend, and call SEQUENCES on the shared mutable backend state of six of them, are compared with the model whose "
         "oracle constants come from an independent fresh CoolProp state. Full proof for values/labels; "
         "binary64 rounding is outside the theorem (validated to 1e-11).",
    note="Trusted: Coq kernel; Reals axioms (sig_forall_dec, functional_extensionality_dep) as Print Assumptions reports; translator "
         "tools/py2v_units.py; Adsorbate/Material reads are an oracle record of functions of temperature (CoolProp not modelled); theorems over "
         "RNum, execution over QNum; numpy/pandas broadcasting validated by runs only.",
    technique="Coq proof over model regenerated from source + exhaustive-label correspondence")

HEADER = """From Coq Require Import QArith ZArith String List.
From PG Require Import Lib.Num Lib.Py Lib.Show Gen.UnitsGen1 Units.AdsOracle Gen.UnitsGen2 Units.UnitsSpec Units.UnitsSpecQ.
Import ListNotations. Open Scope string_scope.
"""

PUNITS = ["Pa", "kPa", "MPa", "mbar", "bar", "atm", "mmHg", "torr"]
MOLU = ["mmol", "mol", "kmol", "cm3(STP)", "mL(STP)", "cc(STP)", "L(STP)"]
MASSU = ['amu', 'mg', 'cg', 'dg', 'g', 'kg']
VOLU = ['cm3', 'mL', 'cc', 'dm3', 'L', 'm3']
COQ_MOLU = dict(zip(MOLU, ['mmol', 'mol', 'kmol', 'cm3STP', 'mLSTP', 'ccSTP', 'LSTP']))

PREPS = [('absolute', u) for u in PUNITS] + [('relative', None), ('relative%', None)]
LREPS = [('molar', u) for u in MOLU] + [('mass', u) for u in MASSU] + [('volume_gas', u) for u in VOLU] + \
        [('volume_liquid', u) for u in VOLU] + [('fraction', None), ('percent', None)]
MREPS = [('mass', u) for u in MASSU] + [('volume', u) for u in VOLU] + [('molar', u) for u in MOLU]


def coq_prep(r):
    return {'absolute': '(PAbs %s)' % r[1], 'relative': 'PRel', 'relative%': 'PRelPct'}[r[0]]


def coq_lrep(r):
    b, u = r
    if b == 'molar': return '(LMolar %s)' % COQ_MOLU[u]
    if b == 'mass': return '(LMass %s)' % u
    if b == 'volume_gas': return '(LVolGas %s)' % u
    if b == 'volume_liquid': return '(LVolLiq %s)' % u
    return {'fraction': 'LFraction', 'percent': 'LPercent'}[b]


def coq_mrep(r):
    b, u = r
    if b == 'molar': return '(MMolar %s)' % COQ_MOLU[u]
    if b == 'mass': return '(MMass %s)' % u
    return '(MVol %s)' % u


# adsorbate / material constants (exact binary64 values are passed to the model as exact rationals)
ADS = {
    'A': dict(saturation_pressure=101325.0, molar_mass=28.0134, liquid_molar_density=0.0288, gas_molar_density=0.000165),
    'B': dict(),  # nothing available: every oracle read fails with CalculationError
}
ADS['A']['liquid_density'] = ADS['A']['liquid_molar_density'] * ADS['A']['molar_mass']
ADS['A']['gas_density'] = ADS['A']['gas_molar_density'] * ADS['A']['molar_mass']
MATS = {'M1': dict(density=2.1, molar_mass=60.08), 'M0': dict()}


# shipped adsorbates with a CoolProp backend, used in call SEQUENCES on the shared Adsorbate object (its CoolProp state is
# mutable: a read must deliver the property at the temperature passed whatever was asked before). The model's oracle record
# gets the constants from an INDEPENDENT, fresh CoolProp state per phase.
BACKEND = [('nitrogen', 77.355), ('carbon dioxide', 250.0), ('argon', 87.3), ('methane', 120.0), ('n-butane', 298.15), ('water', 330.0)]


def backend_consts(name, T):
    import pygaps
    import CoolProp.CoolProp as CP
    be = pygaps.Adsorbate.find(name).backend_name
    liq = CP.AbstractState('HEOS', be); liq.update(CP.QT_INPUTS, 0.0, T)
    gas = CP.AbstractState('HEOS', be); gas.update(CP.QT_INPUTS, 1.0, T)
    return dict(saturation_pressure=liq.p(), molar_mass=liq.molar_mass() * 1000, liquid_density=liq.rhomass() / 1000,
                gas_density=gas.rhomass() / 1000, liquid_molar_density=liq.rhomolar() / 1e6, gas_molar_density=gas.rhomolar() / 1e6)


def coq_ads(k):
    d = ADS[k]
    f = lambda n: ('(Some %s)' % qlit(d[n])) if n in d else 'None'
    return '(@ads_const QNum %s %s %s %s %s %s)' % (f('saturation_pressure'), f('molar_mass'), f('liquid_density'),
                                             f('gas_density'), f('liquid_molar_density'), f('gas_molar_density'))


def coq_mat(k):
    d = MATS[k]
    f = lambda n: ('(Some %s)' % qlit(d[n])) if n in d else 'None'
    return '(mkMat QNum %s %s)' % (f('density'), f('molar_mass'))


def onum(x):
    return 'None' if x is None else '(Some %s)' % qlit(x)


def impl_objects():
    import pygaps
    ads = {k: pygaps.Adsorbate('verif_ads_' + k, **v) for k, v in ADS.items() if not k.startswith('be:')}
    for k in ADS:
        if k.startswith('be:'):
            ads[k] = pygaps.Adsorbate.find(k[3:].split('@')[0])   # the shared registry object, backend state and all
    mats = {k: pygaps.Material('verif_mat_' + k, **v) for k, v in MATS.items()}
    return ads, mats


def call(fn, *args):
    try:
        r = fn(*args)
        return ('Ok', r)
    except Exception as e:  # noqa
        return (vlib.exn_class(e), None)


def gen_cases(tier, seed):
    """-> list of dicts: fn, args (python), coq (model term), spec (spec term or None), expect ('value'|'refuse'|None)"""
    rnd = random.Random(seed)
    cases = []
    VALS = [1.5, 0.0, -2.5, 1e-9, 3e8]
    T = 77.355

    def parse_p(m, u):
        if m == 'absolute':
            return ('absolute', u) if u in PUNITS else None
        return (m, None) if m in ('relative', 'relative%') else None

    def unitless_with_unit(b1, u1, b2, u2):
        # a unit label supplied for a representation that has none (relative, fraction, percent): the property does not
        # say whether it is ignored or refused -> not judged (correspondence only)
        return (b1 in ('relative', 'relative%', 'fraction', 'percent') and u1) or (b2 in ('relative', 'relative%', 'fraction', 'percent') and u2)

    def add_p(v, m1, m2, u1, u2, ak, temp):
        r1, r2 = parse_p(m1, u1), parse_p(m2, u2)
        spec = None
        expect = None
        if ak != 'B' and temp and not unitless_with_unit(m1, u1, m2, u2):
            if r1 and r2:
                spec = '(spec_convQ (p_canonQ %s %s) (p_canonQ %s %s) %s)' % (
                    qlit(ADS[ak]['saturation_pressure']), coq_prep(r1), qlit(ADS[ak]['saturation_pressure']), coq_prep(r2), qlit(v))
                expect = 'value'
            else:
                expect = 'refuse'
        cases.append(dict(fn='c_pressure', args=(v, m1, m2, u1, u2, ak, temp),
                          coq='(c_pressure QNum %s %s %s %s %s %s %s)' % (qlit(v), ostr(m1), ostr(m2), ostr(u1), ostr(u2), coq_ads(ak), onum(temp)),
                          spec=spec, expect=expect))

    modes = ['absolute', 'relative', 'relative%', None, 'bogus', '']
    units = PUNITS + [None, 'bogus', '']
    combos = list(itertools.product(modes, modes, units, units))
    if tier == 'quick':
        combos = [c for c in combos if rnd.random() < 0.35]
    for m1, m2, u1, u2 in combos:
        add_p(1.5, m1, m2, u1, u2, 'A', T)
    for (r1, r2) in itertools.product(PREPS, PREPS):
        for v in VALS:
            add_p(v, r1[0], r2[0], r1[1], r2[1], 'A', T)
        add_p(1.5, r1[0], r2[0], r1[1], r2[1], 'B', T)
        add_p(1.5, r1[0], r2[0], r1[1], r2[1], 'A', None)
        add_p(1.5, r1[0], r2[0], r1[1], r2[1], 'A', 0.0)

    # ---- loading
    def parse_l(b, u):
        tbl = {'molar': MOLU, 'mass': MASSU, 'volume_gas': VOLU, 'volume_liquid': VOLU}
        if b in tbl:
            return (b, u) if u in tbl[b] else None
        return (b, None) if b in ('fraction', 'percent') else None

    def parse_m(b, u):
        tbl = {'molar': MOLU, 'mass': MASSU, 'volume': VOLU}
        return (b, u) if b in tbl and u in tbl[b] else None

    def add_l(v, b1, b2, u1, u2, ak, bm, um, T=T):
        r1, r2 = parse_l(b1, u1), parse_l(b2, u2)
        mat = parse_m(bm, um)
        spec = expect = None
        if ak != 'B' and not unitless_with_unit(b1, u1, b2, u2) and bm in ('mass', 'volume', 'molar', None, 'bogus', ''):
            needs_mat = (r1 and r1[0] in ('fraction', 'percent')) != (r2 and r2[0] in ('fraction', 'percent'))
            if r1 and r2 and (mat or not needs_mat):
                a = ADS[ak]
                m = mat or ('mass', 'g')
                cq = 'l_canonQ %s %s %s %s' % (qlit(a['molar_mass']), qlit(a['liquid_molar_density']), qlit(a['gas_molar_density']), coq_mrep(m))
                spec = '(spec_convQ (%s %s) (%s %s) %s)' % (cq, coq_lrep(r1), cq, coq_lrep(r2), qlit(v))
                expect = 'value'
            else:
                expect = 'refuse'
        cases.append(dict(fn='c_loading', args=(v, b1, b2, u1, u2, ak, T, bm, um),
                          coq='(c_loading QNum %s %s %s %s %s %s %s %s %s)' % (qlit(v), ostr(b1), ostr(b2), ostr(u1), ostr(u2), coq_ads(ak), onum(T), ostr(bm), ostr(um)),
                          spec=spec, expect=expect))

    mats = MREPS if tier == 'thorough' else [('mass', 'g'), ('volume', 'cm3'), ('molar', 'mmol'), ('mass', 'kg')]
    for r1, r2 in itertools.product(LREPS, LREPS):
        frac = (r1[0] in ('fraction', 'percent')) or (r2[0] in ('fraction', 'percent'))
        for m in (mats if frac else [mats[0]]):
            add_l(1.5, r1[0], r2[0], r1[1], r2[1], 'A', m[0], m[1])
        add_l(-2.5, r1[0], r2[0], r1[1], r2[1], 'A', None, None)
        if tier == 'thorough' or rnd.random() < 0.2:
            add_l(1.5, r1[0], r2[0], r1[1], r2[1], 'B', 'mass', 'g')
    bases = ['mass', 'volume_gas', 'volume_liquid', 'molar', 'percent', 'fraction', None, 'bogus', 'volume']
    lunits = sorted(set(MOLU + MASSU + VOLU)) + [None, 'bogus', '']
    mbases = ['mass', 'volume', 'molar', None, 'bogus', 'volume_liquid', 'fraction']
    n_rand = 40000 if tier == 'thorough' else 3000
    for _ in range(n_rand):
        b1, b2 = rnd.choice(bases), rnd.choice(bases)
        u1, u2 = rnd.choice(lunits), rnd.choice(lunits)
        if rnd.random() < 0.5:  # mostly units belonging to the basis
            u1 = rnd.choice({'mass': MASSU, 'molar': MOLU}.get(b1, VOLU) + [None])
            u2 = rnd.choice({'mass': MASSU, 'molar': MOLU}.get(b2, VOLU) + [None])
        add_l(rnd.choice(VALS), b1, b2, u1, u2, 'A', rnd.choice(mbases), rnd.choice(lunits))

    # ---- call sequences on shipped adsorbates with a thermodynamic backend (one shared, mutable CoolProp state each)
    phys = [r for r in LREPS if r[0] not in ('fraction', 'percent')]
    byb = {}
    for r in phys:
        byb.setdefault(r[0], []).append(r)
    n_seq = 40 if tier == 'thorough' else 8
    # every shipped adsorbate with a backend once (molar mass, both densities, saturation pressure against the fresh state) ...
    import pygaps
    import CoolProp.CoolProp as CP
    every = []
    for a in pygaps.ADSORBATE_LIST:
        try:
            st = CP.AbstractState('HEOS', a.backend_name)
            Tb = round(st.Ttriple() + 0.55 * (st.T_critical() - st.Ttriple()), 2)
            every.append((a.name, Tb))
        except Exception:  # noqa  (no backend)
            continue
    for name, Tb in every:
        ak = 'be:%s@%s' % (name, Tb)
        if ak not in ADS:
            try:
                ADS[ak] = backend_consts(name, Tb)
            except Exception:  # noqa
                continue
        m = ('mass', 'g')
        add_l(1.5, 'molar', 'mass', 'mmol', 'mg', ak, m[0], m[1], T=Tb)
        add_l(1.5, 'mass', rnd.choice(['volume_liquid', 'volume_gas']), 'g', 'cm3', ak, m[0], m[1], T=Tb)
        if tier == 'thorough' or rnd.random() < 0.4:
            add_l(1.5, 'volume_gas', 'molar', 'cm3', 'mmol', ak, m[0], m[1], T=Tb)
            add_p(1.5, 'absolute', 'relative', 'bar', None, ak, Tb)
    # ... and call sequences on a few of them
    for name, Tb in BACKEND:
        ak = 'be:%s@%s' % (name, Tb)
        if ak not in ADS:
            try:
                ADS[ak] = backend_consts(name, Tb)
            except Exception:  # noqa  (backend unavailable: nothing to tie)
                continue
        for _ in range(n_seq):
            # short histories in which every ordered pair of bases follows every other one sooner or later
            for _ in range(rnd.randint(2, 5)):
                k = rnd.random()
                if k < 0.15:
                    r1, r2 = rnd.choice(PREPS), rnd.choice(PREPS)
                    add_p(rnd.choice(VALS[:3]), r1[0], r2[0], r1[1], r2[1], ak, Tb)
                else:
                    b1, b2 = rnd.sample(sorted(byb), 2)
                    r1, r2 = rnd.choice(byb[b1]), rnd.choice(byb[b2])
                    if k > 0.85:   # through a fraction of the material
                        r2 = rnd.choice([('fraction', None), ('percent', None)])
                        if rnd.random() < 0.5:
                            r1, r2 = r2, r1
                    m = rnd.choice(mats)
                    add_l(rnd.choice(VALS[:3]), r1[0], r2[0], r1[1], r2[1], ak, m[0], m[1], T=Tb)

    # ---- material
    def add_m(v, b1, b2, u1, u2, mk):
        r1, r2 = parse_m(b1, u1), parse_m(b2, u2)
        spec = expect = None
        if mk == 'M1':
            if r1 and r2:
                d = MATS['M1']
                cq = 'm_canonQ %s %s' % (qlit(d['density']), qlit(d['molar_mass']))
                spec = '(spec_convQ (%s %s) (%s %s) %s)' % (cq, coq_mrep(r2), cq, coq_mrep(r1), qlit(v))
                expect = 'value'
            else:
                expect = 'refuse'
        cases.append(dict(fn='c_material', args=(v, b1, b2, u1, u2, mk),
                          coq='(c_material QNum %s %s %s %s %s %s)' % (qlit(v), ostr(b1), ostr(b2), ostr(u1), ostr(u2), coq_mat(mk)),
                          spec=spec, expect=expect))

    for r1, r2 in itertools.product(MREPS, MREPS):
        for v in (VALS if tier == 'thorough' else VALS[:2]):
            add_m(v, r1[0], r2[0], r1[1], r2[1], 'M1')
        add_m(1.5, r1[0], r2[0], r1[1], r2[1], 'M0')
    mb = ['mass', 'volume', 'molar', None, 'bogus', 'fraction', 'percent']
    allm = list(itertools.product(mb, mb, lunits, lunits))
    if tier == 'quick':
        allm = rnd.sample(allm, 1500)
    for b1, b2, u1, u2 in allm:
        add_m(1.5, b1, b2, u1, u2, 'M1')

    # ---- temperature
    tunits = ['K', '°C', 'C', 'celsius', 'Celsius', 'c', None, '', 'bogus', 'k', 'degC']
    for u1, u2 in itertools.product(tunits, tunits):
        for v in (300.0, -40.0, 0.0):
            def tp(u):
                if u and 'c' in u.lower(): return 'C'
                return 'K' if u == 'K' else None
            p1, p2 = tp(u1), tp(u2)
            spec = expect = None
            if p1 and p2:
                d = {('K', 'C'): Fraction(-27315, 100), ('C', 'K'): Fraction(27315, 100)}.get((p1, p2), Fraction(0))
                spec = '(%s + %s)' % (qlit(v), qlit(d))
                expect = 'value'
            else:
                expect = 'refuse'
            cases.append(dict(fn='c_temperature', args=(v, u1, u2),
                              coq='(c_temperature QNum %s %s %s)' % (qlit(v), ostr(u1), ostr(u2)), spec=spec, expect=expect))
    return cases


def classify(c, outcome, val=None):
    """tag of a failing case, from its INPUT pattern (matched against known_findings.json)"""
    fn, a = c['fn'], c['args']
    if outcome == 'Ok' and not (val == a[0]):
        return 'C01:unclassified:%s:wrong-value' % fn
    if fn == 'c_pressure':
        v, m1, m2, u1, u2 = a[:5]
        if outcome == 'Ok' and m1 == m2 == 'absolute' and not u2:
            return 'C01:same-mode-labels-unchecked'
    if fn == 'c_loading':
        v, b1, b2, u1, u2, ak, T, bm, um = a
        known = ('mass', 'volume_gas', 'volume_liquid', 'molar', 'percent', 'fraction')
        if outcome == 'Ok' and b1 == b2 and b1 in known and (not u2 or u1 == u2):
            return 'C01:same-basis-labels-unchecked'
        if outcome in ('KeyError', 'TypeError') and b1 in known and b2 in known and b1 != b2 and \
                ((b1 in ('fraction', 'percent')) != (b2 in ('fraction', 'percent'))) and \
                not (bm in ('mass', 'volume', 'molar') and um in {'mass': MASSU, 'volume': VOLU, 'molar': MOLU}[bm]):
            return 'C01:fraction-bad-material-labels-KeyError'
    if fn == 'c_material':
        v, b1, b2, u1, u2, mk = a
        if outcome == 'Ok' and b1 == b2 and b1 in ('mass', 'volume', 'molar') and (not u2 or u1 == u2):
            return 'C01:same-basis-labels-unchecked'
    return 'C01:unclassified:%s:%s' % (fn, outcome)


def run(rep, tier, seed):
    from pygaps.units import converter_mode as cm
    proofs_ok = vlib.standard_proof_phase(rep, 'C01', extra_targets=EXTRA_TARGETS)
    explore(rep, tier, seed)
    if (rep.broken and not rep.violations) and tier != 'thorough':
        # an obligation or the correspondence broke and the quick-size exploration found no failing input: search deeper
        explore(rep, 'thorough', seed)


def explore(rep, tier, seed):
    from pygaps.units import converter_mode as cm
    cases = gen_cases(tier, seed)
    ads, mats = impl_objects()
    fns = {'c_pressure': cm.c_pressure, 'c_loading': cm.c_loading, 'c_material': cm.c_material, 'c_temperature': cm.c_temperature}

    def pyargs(c):
        a = list(c['args'])
        if c['fn'] in ('c_pressure', 'c_loading'):
            a[5] = ads[a[5]]
        if c['fn'] == 'c_material':
            a[5] = mats[a[5]]
        return a
    impl = [call(fns[c['fn']], *pyargs(c)) for c in cases]
    TOL = '1 100000000000'   # 1e-11 relative, compared INSIDE Coq (exact rationals vs the float's exact value)

    def me(i):
        oc, val = impl[i]
        return vlib.fme(float(val)) if oc == 'Ok' else (0, 0)

    def occode(i):
        oc = impl[i][0]
        return vlib.EXN.index(oc) if oc in vlib.EXN else 99
    model = None
    try:
        model = vlib.run_coq_cases('c01m', HEADER, 'fun x : Z*Z => x',
                                   ['cmpq %s %s (%d) (%d) (%d)' % (TOL, c['coq'], occode(i), me(i)[0], me(i)[1]) for i, c in enumerate(cases)])
    except RuntimeError as e:
        rep.broken_obligation('correspondence:UnitsGen-evaluation', str(e)[-800:])
    speci = [i for i, c in enumerate(cases) if c['spec'] and impl[i][0] == 'Ok']
    spec = vlib.run_coq_cases('c01s', HEADER, 'fun x : Z*Z => x', ['cmpqv %s %s (%d) (%d)' % (TOL, cases[i]['spec'], me(i)[0], me(i)[1]) for i in speci])
    spec_ok = {i: s[1] == 1 for i, s in zip(speci, spec)}

    def spec_value(i):   # only for the report of a failing case
        try:
            r = vlib.run_coq_cases('c01v', HEADER, 'fun x : Z*Z*Z => x', ['showqv %s' % cases[i]['spec']])[0]
            return float(Fraction(r[1], r[2]))
        except Exception:
            return None

    n_dis = 0
    n_rep = 0
    nontrivial = set()
    hist = {}
    for i, c in enumerate(cases):
        oc, val = impl[i]
        hist[(c['fn'], oc)] = hist.get((c['fn'], oc), 0) + 1
        # (a) correspondence model vs implementation
        if model is not None:
            code, agree = model[i]
            if not agree:
                n_dis += 1
                if n_dis <= 5:
                    rep.broken_obligation('correspondence:UnitsGen-vs-implementation',
                                          {'call': c['fn'], 'args': [str(x) for x in c['args']], 'implementation': [oc, None if val is None else float(val)],
                                           'model_outcome': vlib.EXN[code]})
        # (b) property oracle on the implementation
        if c['expect'] == 'value':
            if oc != 'Ok' or not spec_ok[i]:
                n_rep += 1
                want = spec_value(i) if n_rep <= 12 else None
                rp = {'call': c['fn'], 'args': list(c['args']), 'expected': want, 'observed': [oc, None if val is None else float(val)]}
                if str(c['args'][5]).startswith('be:'):   # shared backend state: the earlier calls on this adsorbate are part of the input
                    rp['history'] = [[cases[j]['fn'], list(cases[j]['args'])] for j in range(i) if cases[j]['args'][5:6] == c['args'][5:6]][-12:]
                rep.failure(classify(c, oc), '%s%r returned %s, SI factor gives %r' % (c['fn'], c['args'], (oc, val), want), rp)
            elif float(val) != c['args'][0]:
                nontrivial.add((c['fn'],) + tuple(c['args'][1:]))
        elif c['expect'] == 'refuse':
            if oc != 'ParameterError':
                rep.failure(classify(c, oc, val), '%s%r must be refused with ParameterError, got %s' % (c['fn'], c['args'], oc),
                            {'call': c['fn'], 'args': list(c['args']), 'expected': 'ParameterError', 'observed': [oc, None if val is None else float(val)]})
    # arrays and Series: broadcasting must deliver the scalar function at every element
    n_arr = 0
    arr = np.array([0.0, 1.5, -2.5, 1e-9, 3e8])
    for c in cases:
        if c['expect'] == 'value' and c['args'][0] == 1.5 and c['fn'] != 'c_temperature' and n_arr < (4000 if tier == 'thorough' else 600):
            n_arr += 1
            a = pyargs(c)
            for cont in (arr, pd.Series(arr), np.float64(1.5), np.array(1.5)):
                a[0] = cont
                oc, val = call(fns[c['fn']], *a)
                a[0] = 1.5
                base = call(fns[c['fn']], *a)[1]
                ok = oc == 'Ok' and np.allclose(np.asarray(val, dtype=float), np.asarray(cont, dtype=float) * (base / 1.5), rtol=1e-12, atol=0)
                if not ok:
                    rep.failure('C01:array-not-pointwise', '%s on %s is not the scalar conversion element-wise' % (c['fn'], type(cont).__name__),
                                {'call': c['fn'], 'args': [str(x) for x in c['args']], 'container': type(cont).__name__})
    rep.cov['evaluations'] = len(cases) + 4 * n_arr
    rep.cov['distinct_nontrivial'] = len(nontrivial)
    rep.cov['rule'] = ('label combinations enumerated (all valid representation pairs; invalid/missing labels exhaustive for pressure, sampled '
                       'for loading/material in quick, exhaustive in thorough) x values {1.5,0,-2.5,1e-9,3e8}; non-trivial = distinct valid '
                       '(function, labels) whose SI factor is not 1 and on which implementation == SPEC (UnitsSpecQ)')
    rep.cov['input_distribution'] = {'%s/%s' % k: v for k, v in sorted(hist.items())}
    rep.cov['correspondence'] = {'cases': len(cases), 'disagreements': n_dis, 'tolerance_rel': 1e-11,
                                 'what': 'generated model (QNum, vm_compute) vs implementation: outcome class and value'}
    rep.cov['exhaustive'] = (tier == 'thorough')
    rep.cov['samples'] += [{'case': cases[i]['fn'], 'args': [str(x) for x in cases[i]['args']], 'implementation': str(impl[i])} for i in (0, len(cases) // 3, len(cases) // 2, len(cases) - 1)]
    rep.cov['trusted_base'] += ['translator tools/py2v_units.py (validated by the exhaustive-label correspondence above)',
                                'oracle: Adsorbate/Material property reads (Units/AdsOracle.v); CoolProp not modelled',
                                'carrier: theorems over RNum, execution over QNum (same definitions, Lib/Num.v)',
                                'binary64 rounding excluded: comparisons at rel. tol 1e-11']
    rep.assumptions += ['adsorbate mass densities equal molar densities times molar mass (discharged for backend adsorbates by C20)',
                        'IEEE rounding is outside the theorem', 'numpy/pandas broadcasting validated on 5-element arrays only']


def replay(d):
    import logging
    logging.disable(logging.CRITICAL)
    from pygaps.units import converter_mode as cm
    r = d['replay']
    for h in r.get('history', []) + [[r['call'], r['args']]]:
        k = h[1][5]
        if str(k).startswith('be:') and k not in ADS:
            ADS[k] = backend_consts(k[3:].split('@')[0], float(k.split('@')[1]))
    ads, mats = impl_objects()
    for fn, ha in r.get('history', []):
        ha = list(ha); ha[5] = ads[ha[5]]
        call(getattr(cm, fn), *ha)
    a = list(r['args'])
    if r['call'] in ('c_pressure', 'c_loading'):
        a[5] = ads[a[5]]
    if r['call'] == 'c_material':
        a[5] = mats[a[5]]
    got = call(getattr(cm, r['call']), *a)
    print('replay', r['call'], r['args'], '->', got, 'expected', r['expected'])
    if r['expected'] == 'ParameterError':
        bad = got[0] != 'ParameterError'
    else:
        bad = got[0] != 'Ok' or not vlib.close(float(got[1]), Fraction(r['expected']), rtol=1e-11)
    print('VIOLATION reproduced' if bad else 'not reproduced')
    return 1 if bad else 0
