"""C15 - characterisation results do not depend on the units the isotherm is stored in.

proof phase   : Props/C15.v: accessor invariance from the C01 factor theorems over the GENERATED c_pressure / c_loading, instantiated
                per entry point through the GENERATED acquisition table (tools/py2v_static.py -> Gen/AcquireGen.v); OLS scaling;
                the adsorbate of those theorems instantiated with the one built from the GENERATED Adsorbate property methods
                (tools/py2v_adsmethods.py -> Gen/AdsMethodsGen.v) for every adsorbate KIND (backend answers / stored property only /
                backend fails at the temperature): the converter gets the pascal value divided ONCE by the unit (Charact/InvKinds.v).
correspondence: the hand-written accessor model (Charact/Invariance.v acc_pressure / acc_loading / arg_pressure, QNum) vs
                PointIsotherm.pressure() / loading() / loading_at() on real isotherms in several stored representations.
oracle/search : metamorphic, on the implementation: every entry point x sample and synthetic isotherms x conversions of the stored
                pressure representation, non-fractional loading representation and temperature unit (also of the reference isotherm /
                of each isotherm of an isosteric set) -> results equal field by field; Henry constants x exact unit factors;
                the SAME objects analysed, converted in place, analysed again (stale interpolators / memoised values);
                adsorbate kinds (shipped backend, user-defined stored-only, backend + different stored values, backend failing at
                the temperature + stored values) x entry points x the same points WRITTEN DOWN in several pressure representations;
                loadings x c (c from 1e-6 to 1e6) -> extensive results x c, intensive results and selected regions unchanged.
"""
import math
import os
import random
import warnings

import numpy as np

import vlib
from vlib import flit, fme, ostr
from props import c01, c02

MANIFEST = dict(
    text="Machine-checked (Coq 8.16): a read of the isotherm that names the pressure mode (and unit if absolute) returns the same numbers "
         "for each of the 10 stored pressure representations, a read that names loading basis and unit the same numbers for each of the 25 "
         "stored non-fractional loading representations (all real columns, any adsorbate whose constants are read at the isotherm "
         "temperature; derived from the C01 factor theorems over the generated converters); loading_at's pressure argument lands on the "
         "same physical pressure; the acquisition table regenerated from the AST of pygaps/characterisation shows that area_BET, "
         "area_langmuir, t_plot, dr_plot, da_plot, psd_mesoporous, psd_microporous and alpha_s (sample side) name everything they read "
         "(entry_points_read_invariantly), psd_dft names all six labels from the kernel's units, initial_henry_* read native columns "
         "(covariant: exact factor lfac/pfac for least-squares slopes), and - refuted - the alpha_s reference look-up names only the "
         "sample's pressure unit and no loading basis, isosteric_enthalpy reads pressures in each isotherm's own mode/unit. Adsorbate kinds: for the "
         "adsorbate built from the property methods GENERATED from adsorbate.py (three-way: thermodynamic backend, else stored property, else error) the "
         "saturation pressure handed to the converter for a unit is the pascal value divided once by the unit's size whether it comes from the backend (also "
         "when a different value is stored beside it) or from the dictionary (no backend, or backend failing at that temperature), and the named reads are "
         "invariant for each kind (saturation_pressure_unit_by_kind, acquire_invariant_pressure_by_kind). Scaling clause: OLS slope "
         "and intercept scale with the data, slope/intercept and r^2 are unchanged; area_BET_raw (model over the generated BET formulas) selects the "
         "same window - manual or Rouquerol - for every positive scale factor and returns n_m, area x c, slope, intercept / c, C and p_m unchanged; "
         "the three classical mesopore recurrences and psd_mesoporous "
         "(model of Charact/PsdMeso.v, tied to the code by the C16 correspondence) are homogeneous of degree 1 in the loadings - volumes, areas, "
         "distribution and cumulative curve x c, widths and window unchanged, lists of any length (induction carrying the loops' running sums); the "
         "Horvath-Kawazoe distribution tail (generated) is homogeneous of degree 1 and the Cheng-Yang coverages do not change for c > 0. PARTIAL: "
         "what the other raw routines compute from the acquired columns (point selection, optimisers) is not modelled here - invariance of the "
         "final results follows from invariance of the inputs only for deterministic raw routines, and is validated metamorphically on the "
         "implementation: fresh converted copies, the SAME objects analysed / converted in place / analysed again (stale caches), scale factors "
         "1e-6 ... 1e6.",
    note="Trusted: Coq kernel; Reals axioms; translators py2v_units.py (C01), py2v_adsmethods.py (C20; aborts on a method body of another shape) and py2v_static.py (AST pattern extraction; an accessor call it "
         "cannot classify aborts); the hand-written accessor model (validated against PointIsotherm.pressure/loading/loading_at on every "
         "run); scipy/numpy in the raw routines (not modelled); binary64 rounding (1e-6 / 1e-4 tolerances in the metamorphic runs).",
    technique="Coq proof over generated converters + generated acquisition table; accessor model correspondence; metamorphic testing of the implementation")

EXTRA_TARGETS = ['Charact/InvShow.vo']
HEADER = """From Coq Require Import QArith ZArith String List Bool.
From PG Require Import Lib.Num Lib.Py Lib.Show Gen.UnitsGen1 Units.AdsOracle Gen.UnitsGen2 Charact.Invariance Charact.InvShow.
Import ListNotations. Open Scope string_scope.
"""
DATA_DIR = os.path.join(vlib.REPO, 'docs', 'examples', 'data')
N77 = {'MCM-41': 'MCM-41 N2 77.355.json', 'NaY': 'NaY N2 77.355.json', 'SiO2': 'SiO2 N2 77.355.json',
       'Takeda 5A': 'Takeda 5A N2 77.355.json', 'UiO-66(Zr)': 'UiO-66(Zr) N2 77.355.json'}
ISOSTERIC = ['BAX 1500 - Isosteric Heat - 298.json', 'BAX 1500 - Isosteric Heat - 323.json', 'BAX 1500 - Isosteric Heat - 348.json']
PREPS = c01.PREPS
LREPS = [r for r in c01.LREPS if r[0] not in ('fraction', 'percent')]

# degree of homogeneity of each result field in the loadings: 1 extensive, -1 inverse, 0 intensive, None not judged
DEG = {
    'area_BET': {'area': 1, 'c_const': 0, 'n_monolayer': 1, 'p_monolayer': 0, 'bet_slope': -1, 'bet_intercept': -1, 'corr_coef': 0, 'p_limit_indices': 0},
    'area_langmuir': {'area': 1, 'langmuir_const': 0, 'n_monolayer': 1, 'langmuir_slope': -1, 'langmuir_intercept': -1, 'corr_coef': 0, 'p_limit_indices': 0},
    't_plot': {'t_curve': 0, 'section': 0, 'area': 1, 'adsorbed_volume': 1, 'slope': 1, 'intercept': 1, 'corr_coef': 0},
    'alpha_s': {'alpha_curve': 0, 'section': 0, 'area': 1, 'adsorbed_volume': 1, 'slope': 1, 'intercept': 1, 'corr_coef': 0},
    'dr_plot': {'pore_volume': 1, 'adsorption_potential': 0, 'corr_coef': 0, 'slope': 0, 'intercept': None, 'p_limits': 0, 'exponent': 0},
    'da_plot': {'pore_volume': 1, 'adsorption_potential': 0, 'corr_coef': 0, 'slope': 0, 'intercept': None, 'p_limits': 0, 'exponent': 0},
    'psd_mesoporous': {'pore_widths': 0, 'pore_areas': 1, 'pore_volumes': 1, 'pore_distribution': 1, 'pore_volume_cumulative': 1, 'limits': 0, 'pore_area_total': 1},
    'psd_microporous': {'pore_widths': 0, 'pore_distribution': 1, 'pore_volume_cumulative': 1, 'limits': 0},
    'psd_dft': {'pore_widths': 0, 'pore_distribution': 1, 'pore_volume_cumulative': 1, 'kernel_loading': 1, 'limits': 0, 'acquired_pressure': 0, 'acquired_loading': 1},
    'initial_henry_slope': {'value': 1}, 'initial_henry_virial': {'value': 1},
    'isosteric_enthalpy': {'loading': 1, 'isosteric_enthalpy': 0, 'slopes': 0, 'correlation': 0, 'std_errs': 0},
}
LOOSE = {'psd_dft': 1e-4, 'initial_henry_virial': 1e-4, 'initial_henry_slope': 1e-4, 'da_plot': 1e-4, 'psd_microporous': 1e-4}


def load(name, folder='characterisation'):
    import pygaps.parsing as pgp
    return pgp.isotherm_from_json(os.path.join(DATA_DIR, folder, name))


# ---- adsorbate KINDS: where the converters get saturation pressure / densities from (Adsorbate's three-way methods: thermodynamic
#      backend, else the stored property, else CalculationError)
#   backend : shipped nitrogen (CoolProp answers, temperature dependent)
#   stored  : user-defined, NO backend_name, every property stored (the dictionary path of every method)
#   both    : backend_name AND stored properties that differ from the backend's values (the backend must win everywhere)
#   fallback: backend_name whose saturation calls FAIL at the isotherm temperature (150 K > T_c of nitrogen) + stored properties
#             (the `except` path of every method: calculate=True falling back to the dictionary)
KIND_PROPS = dict(saturation_pressure=98000.0, liquid_density=0.75, gas_density=0.0045, surface_tension=9.5, cross_sectional_area=0.17,
                  molecular_diameter=0.31, polarizability=1.5e-3, magnetic_susceptibility=2.1e-8, surface_density=6.5e18)
KINDS = {'backend': 77.355, 'stored': 90.0, 'both': 77.355, 'fallback': 150.0}
_KIND_ADS = {}


def kind_adsorbate(kind):
    """-> (registered adsorbate name, isotherm temperature in K)"""
    import pygaps
    if kind == 'backend':
        return 'nitrogen', KINDS[kind]
    if kind not in _KIND_ADS:
        # densities consistent with the molar mass the methods report (rho = rho_molar * M), as for any real fluid
        M = 30.07 if kind == 'stored' else float(pygaps.Adsorbate.find('nitrogen').molar_mass())
        props = dict(KIND_PROPS, molar_mass=M, liquid_molar_density=KIND_PROPS['liquid_density'] / M, gas_molar_density=KIND_PROPS['gas_density'] / M)
        if kind != 'stored':
            props['backend_name'] = 'nitrogen'
        _KIND_ADS[kind] = pygaps.Adsorbate('verif_c15_' + kind, store=True, **props)
    return 'verif_c15_' + kind, KINDS[kind]


def synthetic(kind, ads_kind='backend', rp=('relative', None), inside=None):
    """synthetic isotherms (mmol/g) with known generating parameters for an adsorbate of the given KIND, CONSTRUCTED in the pressure
    representation rp: the same physical points (p/p0, n) written down in rp with the saturation pressure in pascal and the pressure unit
    table - no convert_pressure involved, so an error of the mode conversion cannot cancel between writing and reading"""
    import pygaps
    from pygaps.units.converter_unit import _PRESSURE_UNITS, c_unit
    ads, T = kind_adsorbate(ads_kind)
    if kind == 'bet':
        p = np.array([0.005, 0.01, 0.02, 0.04, 0.06, 0.08, 0.1, 0.13, 0.16, 0.2, 0.25, 0.3, 0.35, 0.4, 0.5, 0.6, 0.7, 0.8, 0.9, 0.95])
        q = p * 1.0137
        n = 2.0 * 80.0 * q / ((1 - q) * (1 - q + 80.0 * q))
    elif kind == 'langmuir':
        p = np.array([0.001, 0.003, 0.01, 0.02, 0.04, 0.07, 0.1, 0.15, 0.2, 0.3, 0.4, 0.5, 0.6, 0.7, 0.8, 0.9])
        n = 5.0 * 40.0 * p * 1.0137 / (1 + 40.0 * p * 1.0137)
    else:  # Dubinin-Astakhov like (characteristic energy proportional to T: the same curve at every temperature)
        p = np.array([1e-5, 3e-5, 1e-4, 3e-4, 1e-3, 3e-3, 0.01, 0.02, 0.05, 0.1, 0.2, 0.3, 0.5, 0.7, 0.9])
        n = 10.0 * np.exp(-(8.314 * 77.355 * np.log(1 / (p * 1.0137)) / 6000.0) ** 2)
    p = p * 1.0137       # keep the points off the routines' default pressure limits (0.1, 0.2, ...): a point ON a limit is an ulp lottery
    if inside is not None:      # only the points well inside a relative-pressure range (an alpha_s sample inside its reference)
        keep = (p > inside[0] * 1.001) & (p < inside[1] * 0.999)
        p, n = p[keep], n[keep]
    if rp[0] == 'relative%':
        p = p * 100.0
    elif rp[0] == 'absolute':
        p0 = float(pygaps.Adsorbate.find(ads).saturation_pressure(T))          # pascal (no unit argument)
        p = np.array([c_unit(_PRESSURE_UNITS, float(x) * p0, 'Pa', rp[1]) for x in p])
    return pygaps.PointIsotherm(pressure=list(p), loading=list(n), material='verif_c15_' + kind, adsorbate=ads, temperature=T,
                                pressure_mode=rp[0], pressure_unit=rp[1], loading_basis='molar', loading_unit='mmol', material_basis='mass', material_unit='g')


def clone(iso, scale=1.0):
    """a fresh isotherm with the same stored content (loadings x scale)"""
    import pygaps
    d = iso.to_dict()
    for k in ('iso_type', 'id'):
        d.pop(k, None)
    br = list(iso.data_raw['branch'].astype(int)) if 'branch' in iso.data_raw.columns else 'guess'
    return pygaps.PointIsotherm(pressure=list(iso.data_raw[iso.pressure_key]), loading=list(np.asarray(iso.data_raw[iso.loading_key]) * scale),
                                branch=br, **d)


def convert(iso, rp=None, rl=None, tu=None):
    """a fresh copy converted (with the implementation's own permanent conversions, the subject of C02) to another stored representation"""
    v = clone(iso)
    if rp is not None:
        v.convert_pressure(mode_to=rp[0], unit_to=rp[1])
    if rl is not None:
        v.convert_loading(basis_to=rl[0], unit_to=rl[1])
    if tu is not None:
        v.convert_temperature(tu)
    return v


ROUTES = ['to_dict -> constructor', 'to_json -> from_json', 'PointIsotherm.from_isotherm']


def reimport(iso, route):
    """the isotherm exported and re-imported with the implementation's own exporters / constructors (the subject of C05 / C06), in the units it is stored in NOW"""
    import pygaps
    import pygaps.parsing as pgp
    if route == 'to_dict -> constructor':
        return clone(iso)
    if route == 'to_json -> from_json':
        return pgp.isotherm_from_json(pgp.isotherm_to_json(iso))
    data = pandas_frame(iso)
    return pygaps.PointIsotherm.from_isotherm(iso, isotherm_data=data, pressure_key=iso.pressure_key, loading_key=iso.loading_key)


def pandas_frame(iso):
    cols = [iso.pressure_key, iso.loading_key] + (['branch'] if 'branch' in iso.data_raw.columns else [])
    return iso.data_raw[cols].copy()


def convert_in_place(v, rp=None, rl=None, tu=None):
    """the implementation's permanent conversions applied to the isotherm object itself (which may already have been analysed)"""
    if rp is not None:
        v.convert_pressure(mode_to=rp[0], unit_to=rp[1])
    if rl is not None:
        v.convert_loading(basis_to=rl[0], unit_to=rl[1])
    if tu is not None:
        v.convert_temperature(tu)
    return v


def flatten(res, prefix=''):
    out = {}
    if isinstance(res, dict):
        for k, v in res.items():
            out.update(flatten(v, prefix + '/' + str(k)))
    elif isinstance(res, (list, tuple)) and res and isinstance(res[0], dict):
        for i, v in enumerate(res):
            out.update(flatten(v, prefix + '[%d]' % i))
    elif res is None:
        out[prefix] = None
    else:
        try:
            out[prefix] = np.asarray(res, dtype=float)
        except (TypeError, ValueError):
            out[prefix] = None
    return out


DFT_INPUT = {}


def _capture_dft():
    """record the columns psd_dft hands to the kernel fit (module attribute wrapped from the harness process, no source hook)"""
    import pygaps.characterisation.psd_kernel as pk
    if getattr(pk.psd_dft_kernel_fit, '_verif', False):
        return
    orig = pk.psd_dft_kernel_fit

    def wrapped(pressure, loading, *a, **k):
        DFT_INPUT['p'], DFT_INPUT['l'] = np.array(pressure, dtype=float), np.array(loading, dtype=float)
        return orig(pressure, loading, *a, **k)
    wrapped._verif = True
    pk.psd_dft_kernel_fit = wrapped


def run_entry(entry, iso, extra=None):
    import pygaps.characterisation as pgc
    if entry == 'psd_dft':
        _capture_dft()
        DFT_INPUT.clear()
    with warnings.catch_warnings():
        warnings.simplefilter('ignore')
        try:
            if entry == 'alpha_s':
                r = pgc.alpha_s(iso, reference_isotherm=extra)
            elif entry == 'isosteric_enthalpy':
                r = pgc.isosteric_enthalpy(iso)
            elif entry.startswith('psd_mesoporous'):
                parts = entry.split(':')      # psd_mesoporous:<model>[:<branch>]   (default branch: desorption)
                r = pgc.psd_mesoporous(iso, psd_model=parts[1], **({'branch': parts[2]} if len(parts) > 2 else {}))
            elif entry.startswith('psd_microporous'):
                r = pgc.psd_microporous(iso, psd_model=entry.split(':')[1])
            else:
                r = getattr(pgc, entry)(iso)
            if not isinstance(r, dict):
                r = {'value': r}
            if entry == 'psd_dft' and 'p' in DFT_INPUT:
                r = dict(r)
                r['acquired_pressure'], r['acquired_loading'] = DFT_INPUT['p'], DFT_INPUT['l']
            return 'Ok', r
        except Exception as e:  # noqa
            return vlib.exn_class(e), str(e)[:200]


def differ(entry, base, var, factor=None, tol=1e-6):
    """-> list of (field, what) that differ. factor = None: results must be equal; else extensive fields x factor"""
    key = entry.split(':')[0]
    tol = max(tol, LOOSE.get(key, 0))
    fb, fv = flatten(base), flatten(var)
    bad = []
    if set(fb) != set(fv):
        return [('keys', 'result fields differ: %s' % sorted(set(fb) ^ set(fv)))]
    for k in fb:
        a, b = fb[k], fv[k]
        if a is None or b is None:
            continue
        deg = 0
        if factor is not None:
            deg = DEG.get(key, {}).get(k.split('/')[-1], None)
            if deg is None:
                continue
        if a.shape != b.shape:
            bad.append((k, 'shape %s vs %s' % (a.shape, b.shape)))
            continue
        want = a * (factor ** deg if factor is not None else 1.0)
        scale = np.nanmax(np.abs(want)) if want.size else 0.0
        ok = np.allclose(b, want, rtol=tol, atol=tol * scale, equal_nan=True)
        if not ok:
            i = int(np.nanargmax(np.abs(b - want))) if want.size > 1 else 0
            bad.append((k, 'base%s %r -> variant %r' % ('' if factor is None else ' x %g^%d' % (factor, deg), np.ravel(want)[i], np.ravel(b)[i])))
    return bad


# ---------------------------------------------------------------------------------------------- accessor correspondence
class _Stub:
    """records what loading_at hands to the interpolator"""

    def __init__(self, branch):
        self.interp_branch, self.interp_kind, self.interp_fill = branch, 'linear', None
        self.seen = None

    def __call__(self, p):
        self.seen = np.asarray(p, dtype=float)
        return np.zeros_like(self.seen)


def correspondence(rep, tier, seed, isos):
    rnd = random.Random(seed)
    terms, metas = [], []
    pargs = [(None, None), ('relative', None), ('absolute', 'kPa'), (None, 'kPa'), ('absolute', None), ('relative%', None), ('bogus', None), ('absolute', 'torr')]
    largs = [(None, None), ('molar', 'mol'), ('mass', 'mg'), (None, 'mol'), ('molar', None), ('volume_liquid', 'cm3'), ('bogus', 'x'), ('volume_gas', 'L')]
    nvar = 6 if tier == 'quick' else 20
    for name, iso0 in isos.items():
        for _ in range(nvar):
            rp, rl, tu = rnd.choice(PREPS), rnd.choice(LREPS), rnd.choice(['K', '°C'])
            iso = convert(iso0, rp, rl, tu)
            TK = iso.temperature
            ads = c02.ads_table(str(iso.adsorbate), [float(TK)])
            u = iso.units
            colp = [float(x) for x in iso.data_raw[iso.pressure_key][:5]]
            coll = [float(x) for x in iso.data_raw[iso.loading_key][:5]]
            ql = lambda xs: '[' + '; '.join(flit(x) for x in xs) + ']'
            el = lambda xs: '[' + '; '.join('((%d)%%Z, (%d)%%Z)' % fme(x) for x in xs) + ']'
            for pm, pu in pargs:
                try:
                    got = iso.pressure(pressure_mode=pm, pressure_unit=pu)[:5]
                    oc, exp = 0, el(got)
                except Exception as e:  # noqa
                    cls = vlib.exn_class(e)
                    oc, exp = (vlib.EXN.index(cls) if cls in vlib.EXN else 99), '[]'
                terms.append('(show_acc_p %s %s %s (Some %s) %s %s %s (%d)%%Z %s)' % (ostr(u['pressure_mode']), ostr(u['pressure_unit']), ads, flit(TK), ql(colp), ostr(pm), ostr(pu), oc, exp))
                metas.append(('pressure', name, (rp, rl, tu), (pm, pu)))
            for lb, lu in largs:
                try:
                    got = iso.loading(loading_basis=lb, loading_unit=lu)[:5]
                    oc, exp = 0, el(got)
                except Exception as e:  # noqa
                    cls = vlib.exn_class(e)
                    oc, exp = (vlib.EXN.index(cls) if cls in vlib.EXN else 99), '[]'
                terms.append('(show_acc_l %s %s %s %s %s (Some %s) %s %s %s (%d)%%Z %s)' % (ostr(u['loading_basis']), ostr(u['loading_unit']), ostr(u['material_basis']), ostr(u['material_unit']),
                                                                                       ads, flit(TK), ql(coll), ostr(lb), ostr(lu), oc, exp))
                metas.append(('loading', name, (rp, rl, tu), (lb, lu)))
            for pm, pu in pargs:
                stub = _Stub('ads')
                iso.l_interpolator = stub
                p = 0.37
                try:
                    iso.loading_at(p, pressure_mode=pm, pressure_unit=pu)
                    oc, (m, e) = 0, fme(float(stub.seen))
                except Exception as ex:  # noqa
                    cls = vlib.exn_class(ex)
                    oc, (m, e) = (vlib.EXN.index(cls) if cls in vlib.EXN else 99), (0, 0)
                iso.l_interpolator = None
                terms.append('(show_arg_p %s %s %s (Some %s) %s %s %s (%d)%%Z (%d)%%Z (%d)%%Z)' % (ostr(u['pressure_mode']), ostr(u['pressure_unit']), ads, flit(TK), flit(p), ostr(pm), ostr(pu), oc, m, e))
                metas.append(('loading_at-argument', name, (rp, rl, tu), (pm, pu)))
    n_dis = 0
    try:
        model = vlib.run_coq_cases('c15a', HEADER, 'fun x : Z*Z => x', terms, per_file=150)
        for (code, ok), meta in zip(model, metas):
            if ok != 1:
                n_dis += 1
                if n_dis <= 5:
                    rep.broken_obligation('correspondence:accessor-model-vs-PointIsotherm', {'accessor': meta[0], 'isotherm': meta[1], 'stored': str(meta[2]), 'arguments': str(meta[3]),
                                                                                            'model_outcome': vlib.EXN[code] if code < len(vlib.EXN) else code})
    except RuntimeError as e:
        rep.broken_obligation('correspondence:accessor-model-evaluation', str(e)[-800:])
    rep.cov['correspondence'] = {'accessor_calls': len(terms), 'disagreements': n_dis, 'tolerance_rel': 1e-11,
                                 'what': 'acc_pressure / acc_loading / arg_pressure (QNum) vs PointIsotherm.pressure / loading / loading_at on converted sample isotherms'}
    return len(terms)


# ---------------------------------------------------------------------------------------------- metamorphic validation
def alphas_sample(iso, ref0):
    """the sample restricted to pressures well inside the reference's range (alpha_s looks the reference up at EVERY sample pressure)"""
    import pygaps
    lo, hi = float(min(ref0.pressure(branch='ads'))), float(max(ref0.pressure(branch='ads')))
    r = convert(iso, ('relative', None))
    pr, ld = r.pressure(branch='ads'), r.loading(branch='ads')
    keep = (pr > lo * 1.001) & (pr < hi * 0.999)
    d = r.to_dict()
    for k in ('iso_type', 'id'):
        d.pop(k, None)
    return pygaps.PointIsotherm(pressure=list(pr[keep]), loading=list(ld[keep]), **d)


def classify(entry, kind, info):
    key = entry.split(':')[0]
    if key == 'psd_dft' and kind == 'scaling' and info.get('factor', 1.0) >= 1e3 and info.get('outcome') == 'CalculationError' \
            and 'Inequality constraints incompatible' in str(info.get('error', '')):
        # SLSQP works on the unscaled sum of squares with an absolute ftol: for loadings of thousands of mmol/g it gives up
        return 'C15:psd_dft-slsqp-fails-on-large-loading-magnitude'
    if key == 'psd_dft' and kind in ('representation', 'scaling') and info.get('inputs_agree'):
        # the columns handed to the kernel fit agree to 1e-9; the SLSQP / B-spline deconvolution amplifies the last-bit differences
        return 'C15:psd_dft-fit-sensitive-to-rounding'
    if key == 'initial_henry_slope' and kind in ('henry-factor', 'scaling') and abs(info.get('lfac', 1.0) - 1.0) > 1e-9:
        return 'C15:henry-slope-absolute-rmse-threshold'
    if key == 'initial_henry_virial' and kind in ('henry-factor', 'scaling') and not (0.1 <= info.get('lfac', 1.0) <= 10.0):
        return 'C15:henry-virial-fit-depends-on-loading-magnitude'
    if key == 'alpha_s' and kind == 'reference':
        rp, rl = info['rp'], info['rl']
        if rp[0] != 'relative':     # the look-up passes no pressure_mode: the sample's RELATIVE pressures are read in the reference's own mode
            return 'C15:alphas-reference-mode-not-named'
        if rl[0] != 'molar':
            return 'C15:alphas-reference-loading-basis-not-named'
    if key == 'isosteric_enthalpy' and kind in ('representation', 'mixed'):
        modes = {r[0] for r in info['rps']}
        units = {r[1] for r in info['rps']}
        if modes != {'absolute'}:
            return 'C15:isosteric-relative-mode'
        if len(units) > 1:
            return 'C15:isosteric-mixed-pressure-units'
        if any(r[0] in ('volume_gas', 'volume_liquid') for r in info.get('rls', [])):
            # equal loadings in a volume basis are not equal amounts at different temperatures (the density is read at each isotherm's T)
            return 'C15:isosteric-volume-loading-basis'
    return 'C15:unclassified:%s:%s' % (key, kind)


def metamorphic(rep, tier, seed, isos):
    rnd = random.Random(seed + 7)
    n_eval = 0
    nontrivial = set()
    hist = {}
    nvar = 4 if tier == 'quick' else 18
    factors = [0.5, 3.0, 1e-6, 1e6] if tier == 'quick' else [0.5, 3.0, 1e-3, 1e3, 1e-4, 1e-6, 1e6]
    single = ['area_BET', 'area_langmuir', 't_plot', 'dr_plot', 'da_plot', 'psd_mesoporous:pygaps-DH', 'psd_mesoporous:BJH', 'psd_mesoporous:DH',
              'psd_microporous:HK', 'psd_microporous:HK-CY', 'psd_microporous:RY', 'psd_microporous:RY-CY', 'psd_dft', 'initial_henry_slope', 'initial_henry_virial']

    def note(entry, what, oc):
        k = '%s/%s/%s' % (entry.split(':')[0], what, oc)
        hist[k] = hist.get(k, 0) + 1

    def variants():
        out = [(rnd.choice(PREPS), rnd.choice(LREPS), rnd.choice(['K', '°C'])) for _ in range(nvar)]
        out.append((('absolute', 'kPa'), ('mass', 'mg'), '°C'))
        out.append((('relative%', None), ('volume_gas', 'L'), 'K'))
        out.append((('relative', None), ('mass', 'mg'), 'K'))
        out.append((('absolute', 'bar'), ('volume_gas', 'cm3'), 'K'))
        return out

    rnd_rt = random.Random(seed * 13 + 15)      # own stream: the variants above do not depend on it

    def roundtrip_variants():
        """converted (always with a temperature unit change in it: the exported temperature number must go with the exported unit label), THEN exported and
        re-imported, then analysed: (pressure representation | None, loading representation | None, temperature unit, route)"""
        out = [(('absolute', 'kPa'), ('mass', 'mg'), '°C', ROUTES[k % 3]) for k in (rnd_rt.randrange(3),)]
        out.append((None, None, '°C', rnd_rt.choice(ROUTES)))
        out.append((rnd_rt.choice(PREPS), rnd_rt.choice(LREPS), '°C', rnd_rt.choice(ROUTES)))
        if tier != 'quick':
            out += [(rnd_rt.choice(PREPS), rnd_rt.choice(LREPS), rnd_rt.choice(['K', '°C']), r) for r in ROUTES]
        return out

    def reuse_variants():
        out = [(('absolute', 'kPa'), ('mass', 'mg'), '°C'), (None, rnd.choice(LREPS), None)]
        if tier != 'quick':
            out += [(rnd.choice(PREPS), None, None), (rnd.choice(PREPS), rnd.choice(LREPS), rnd.choice(['K', '°C']))]
        return out

    SYN = {'syn-bet': ('area_BET', 't_plot', 'psd_mesoporous', 'psd_dft', 'initial_henry'), 'syn-langmuir': ('area_langmuir', 'initial_henry'),
           'syn-da': ('dr_plot', 'da_plot', 'psd_microporous', 'initial_henry')}
    for name, iso0 in isos.items():
        for entry in single:
            if name in SYN and not entry.startswith(SYN[name]):
                continue   # a synthetic isotherm is analysed by the routines of its own kind (BET on exact Langmuir data is a tie-break lottery)
            if tier == 'quick' and entry in ('psd_dft', 'initial_henry_virial', 'initial_henry_slope') and name in ('NaY', 'UiO-66(Zr)', 'syn-langmuir'):
                continue   # the slow routines on a subset in the quick tier
            oc0, base = run_entry(entry, clone(iso0))
            n_eval += 1
            note(entry, 'baseline', oc0)
            if oc0 != 'Ok':
                continue   # the routine does not apply to this isotherm (e.g. no linear region); nothing to compare
            henry = entry.startswith('initial_henry')
            for rp, rl, tu, route in [v + (None,) for v in variants()] + roundtrip_variants():
                var_iso = convert(iso0, rp, rl, tu)
                if route is not None:
                    try:
                        var_iso = reimport(var_iso, route)
                    except Exception as e:  # noqa
                        rep.failure('C15:unclassified:%s:re-import-raises' % entry.split(':')[0], '%s converted to %s cannot be re-imported through %s: %s' % (name, (rp, rl, tu), route, str(e)[:200]),
                                    {'entry': entry, 'isotherm': name, 'kind': 'representation', 'rp': rp and list(rp), 'rl': rl and list(rl), 'tu': tu, 'route': route})
                        continue
                oc, var = run_entry(entry, var_iso)
                n_eval += 1
                note(entry, 'representation' if route is None else 'converted+re-imported', oc)
                info = {'entry': entry, 'isotherm': name, 'kind': 'representation', 'rp': rp and list(rp), 'rl': rl and list(rl), 'tu': tu}
                if route is not None:
                    info['route'] = route
                    rp, rl = rp or ('stored', None), rl or ('stored', None)
                    tu = '%s, then re-imported through %s' % (tu, route)
                if oc != 'Ok':
                    rep.failure(classify(entry, 'representation', info), '%s(%s) works in the stored representation but raises %s (%s) after conversion to %s' % (
                        entry, name, oc, var, (rp, rl, tu)), info)
                    continue
                if henry:
                    b0, v0 = clone(iso0), var_iso
                    i = int(np.argmax(np.abs(b0.data_raw[b0.loading_key].values)))
                    lfac = v0.data_raw[v0.loading_key].values[i] / b0.data_raw[b0.loading_key].values[i]
                    j = int(np.argmax(np.abs(b0.data_raw[b0.pressure_key].values)))
                    pfac = v0.data_raw[v0.pressure_key].values[j] / b0.data_raw[b0.pressure_key].values[j]
                    want = base['value'] * lfac / pfac
                    info['lfac'], info['pfac'] = float(lfac), float(pfac)
                    if not abs(var['value'] - want) <= 1e-4 * abs(want):
                        tag = classify(entry, 'henry-factor', info)
                        rep.failure(tag, '%s(%s): %r in the stored units, %r after conversion to %s; the unit factors give %r' % (entry, name, base['value'], var['value'], (rp, rl, tu), want), info)
                    else:
                        nontrivial.add((entry, name, rp, rl))
                    continue
                d = differ(entry, base, var)
                if d and entry == 'psd_dft':
                    info['inputs_agree'] = not any(k.startswith('/acquired') for k, _ in d) and \
                        np.allclose(var['acquired_pressure'], base['acquired_pressure'], rtol=1e-9, atol=0) and np.allclose(var['acquired_loading'], base['acquired_loading'], rtol=1e-9, atol=0)
                if d:
                    rep.failure(classify(entry, 'representation', info), '%s(%s) changes after conversion to %s: %s' % (entry, name, (rp, rl, tu), d[:3]), info)
                else:
                    nontrivial.add((entry, name, rp, rl))
            for c in factors:
                oc, var = run_entry(entry, clone(iso0, scale=c))
                n_eval += 1
                note(entry, 'scaling', oc)
                info = {'entry': entry, 'isotherm': name, 'kind': 'scaling', 'factor': c}
                if oc != 'Ok':
                    info['outcome'], info['error'] = oc, str(var)
                    rep.failure(classify(entry, 'scaling', info), '%s(%s) raises %s (%s) when all loadings are multiplied by %g' % (entry, name, oc, str(var)[:80], c), info)
                    continue
                d = differ(entry, base, var, factor=c)
                info['lfac'] = c
                if d and entry == 'psd_dft':
                    info['inputs_agree'] = np.allclose(var['acquired_pressure'], base['acquired_pressure'], rtol=1e-9, atol=0) and \
                        np.allclose(var['acquired_loading'], c * base['acquired_loading'], rtol=1e-9, atol=0)
                if d:
                    rep.failure(classify(entry, 'scaling', info), '%s(%s): loadings x %g: %s' % (entry, name, c, d[:3]), info)
                else:
                    nontrivial.add((entry, name, 'scale', c))
            # ---- the SAME isotherm object: analysed, converted in place, analysed again (whatever the first analysis cached - interpolators,
            #      memoised properties - must not survive the conversion)
            for rp, rl, tu in reuse_variants():
                obj = clone(iso0)
                oc1, first = run_entry(entry, obj)
                convert_in_place(obj, rp, rl, tu)
                oc, var = run_entry(entry, obj)
                n_eval += 2
                note(entry, 'reuse', oc)
                info = {'entry': entry, 'isotherm': name, 'kind': 'reuse', 'rp': rp and list(rp), 'rl': rl and list(rl), 'tu': tu}
                what = '%s(%s): the same object analysed, converted in place to %s and analysed again' % (entry, name, (rp, rl, tu))
                if oc1 != 'Ok' or oc != 'Ok':
                    rep.failure(classify(entry, 'representation', info), what + ': raises %s / %s (%s)' % (oc1, oc, var if oc != 'Ok' else first), info)
                    continue
                if henry:
                    b0 = clone(iso0)
                    i = int(np.argmax(np.abs(b0.data_raw[b0.loading_key].values)))
                    lfac = obj.data_raw[obj.loading_key].values[i] / b0.data_raw[b0.loading_key].values[i]
                    j = int(np.argmax(np.abs(b0.data_raw[b0.pressure_key].values)))
                    pfac = obj.data_raw[obj.pressure_key].values[j] / b0.data_raw[b0.pressure_key].values[j]
                    want = base['value'] * lfac / pfac
                    info['lfac'], info['pfac'] = float(lfac), float(pfac)
                    if not abs(var['value'] - want) <= 1e-4 * abs(want):
                        rep.failure(classify(entry, 'henry-factor', info), what + ': %r, the unit factors give %r' % (var['value'], want), info)
                    else:
                        nontrivial.add((entry, name, 'reuse', rp, rl))
                    continue
                d = differ(entry, base, var)
                if d and entry == 'psd_dft':
                    info['inputs_agree'] = not any(k.startswith('/acquired') for k, _ in d) and \
                        np.allclose(var['acquired_pressure'], base['acquired_pressure'], rtol=1e-9, atol=0) and np.allclose(var['acquired_loading'], base['acquired_loading'], rtol=1e-9, atol=0)
                if d:
                    rep.failure(classify(entry, 'representation', info), what + ': %s' % (d[:3],), info)
                else:
                    nontrivial.add((entry, name, 'reuse', rp, rl))
    # ---- alpha_s: sample and reference
    ref0 = convert(isos['SiO2'], ('relative', None))        # a reference the routine can read: relative mode, mmol/g
    samples = {n: alphas_sample(isos[n], ref0) for n in (('MCM-41', 'Takeda 5A') if tier == 'quick' else [n for n in isos if n != 'SiO2'])}
    for sname, s0 in samples.items():
        oc0, base = run_entry('alpha_s', s0, ref0)
        n_eval += 1
        note('alpha_s', 'baseline', oc0)
        if oc0 != 'Ok':
            continue
        for rp, rl, tu in variants():
            for kind in ('sample', 'reference'):
                s = convert(s0, rp, rl, tu) if kind == 'sample' else s0
                r = convert(isos['SiO2'], rp, rl, tu) if kind == 'reference' else ref0
                oc, var = run_entry('alpha_s', s, r)
                n_eval += 1
                note('alpha_s', kind, oc)
                info = {'entry': 'alpha_s', 'isotherm': sname, 'kind': kind, 'rp': list(rp), 'rl': list(rl), 'tu': tu}
                d = differ('alpha_s', base, var) if oc == 'Ok' else [('outcome', '%s: %s' % (oc, var))]
                if d:
                    rep.failure(classify('alpha_s', kind, info), 'alpha_s(%s, reference SiO2): %s converted to %s: %s' % (sname, kind, (rp, rl, tu), d[:2]), info)
                else:
                    nontrivial.add(('alpha_s', sname, kind, rp, rl))
        for c in factors:
            oc, var = run_entry('alpha_s', clone(s0, scale=c), ref0)
            n_eval += 1
            info = {'entry': 'alpha_s', 'isotherm': sname, 'kind': 'scaling', 'factor': c}
            d = differ('alpha_s', base, var, factor=c) if oc == 'Ok' else [('outcome', oc)]
            if d:
                rep.failure(classify('alpha_s', 'scaling', info), 'alpha_s(%s): sample loadings x %g: %s' % (sname, c, d[:2]), info)
            else:
                nontrivial.add(('alpha_s', sname, 'scale', c))
        # the same sample / reference OBJECT analysed, converted in place, analysed again. The reference keeps a representation the routine can
        # read (relative pressure, molar basis - see the findings on the reference look-up); its loading unit and temperature unit change.
        for kind, rp, rl, tu in [('sample', ('absolute', 'kPa'), ('mass', 'mg'), '°C'), ('sample', None, rnd.choice(LREPS), None),
                                 ('reference', None, ('molar', 'mol'), '°C'), ('reference', ('relative', None), ('molar', rnd.choice(['mol', 'kmol', 'cm3(STP)'])), None)]:
            s = clone(s0)
            r = convert(isos['SiO2'], ('relative', None))
            oc1, first = run_entry('alpha_s', s, r)
            convert_in_place(s if kind == 'sample' else r, rp, rl, tu)
            oc, var = run_entry('alpha_s', s, r)
            n_eval += 2
            note('alpha_s', 'reuse-' + kind, oc)
            info = {'entry': 'alpha_s', 'isotherm': sname, 'kind': 'reuse-' + kind, 'rp': rp and list(rp), 'rl': rl and list(rl), 'tu': tu}
            d = differ('alpha_s', base, var) if (oc1, oc) == ('Ok', 'Ok') else [('outcome', '%s / %s: %s' % (oc1, oc, var if oc != 'Ok' else first))]
            if d:
                rep.failure('C15:unclassified:alpha_s:reuse-%s' % kind, 'alpha_s(%s, reference SiO2): the same %s object analysed, converted in place to %s and analysed again: %s' % (
                    sname, kind, (rp, rl, tu), d[:2]), info)
            else:
                nontrivial.add(('alpha_s', sname, 'reuse', kind, rp, tuple(rl) if rl else None))
    # ---- isosteric enthalpy: the three BAX-1500 butane isotherms + a synthetic Clausius-Clapeyron set
    sets = {'BAX-1500': [load(f, 'isosteric') for f in ISOSTERIC]}
    for sname, iset in sets.items():
        oc0, base = run_entry('isosteric_enthalpy', [clone(i) for i in iset])
        n_eval += 1
        note('isosteric_enthalpy', 'baseline', oc0)
        if oc0 != 'Ok':
            continue
        trials = []
        for rp, rl, tu in variants():
            trials.append(('representation', [rp] * 3, [rl] * 3, [tu] * 3))
        trials.append(('mixed', [('absolute', 'bar'), ('absolute', 'kPa'), ('absolute', 'bar')], [('molar', 'mmol')] * 3, ['K'] * 3))
        trials.append(('mixed-loading-units', [('absolute', 'bar')] * 3, [('molar', 'mmol'), ('molar', 'mol'), ('molar', 'cm3(STP)')], ['K', '°C', 'K']))
        trials = [t + (None,) for t in trials]
        # converted to degC (in representations in which the routine is sound), then exported and re-imported, then analysed; one, two or all three of the set
        for route in ROUTES:
            who = rnd_rt.choice([(0, 1, 2), (0, 1, 2), (rnd_rt.randrange(3),), tuple(sorted(rnd_rt.sample(range(3), 2)))])
            pu = rnd_rt.choice(['bar', 'kPa', 'torr', 'Pa'])
            lrep = rnd_rt.choice([('molar', 'mmol'), ('molar', 'mol'), ('mass', 'mg'), ('mass', 'g')])
            trials.append(('representation', [('absolute', pu)] * 3, [lrep] * 3, ['°C' if k in who else 'K' for k in range(3)], (route, who)))
        for kind, rps, rls, tus, rt in trials:
            vs = [convert(i, rp, rl, tu) for i, rp, rl, tu in zip(iset, rps, rls, tus)]
            if rt is not None:
                try:
                    vs = [reimport(v, rt[0]) if k in rt[1] else v for k, v in enumerate(vs)]
                except Exception as e:  # noqa
                    rep.failure('C15:unclassified:isosteric_enthalpy:re-import-raises', 'isosteric set converted to %s / %s / %s cannot be re-imported through %s: %s' % (
                        rps[0], rls[0], tus, rt[0], str(e)[:200]), {'entry': 'isosteric_enthalpy', 'isotherm': sname, 'kind': kind, 'route': rt[0]})
                    continue
            oc, var = run_entry('isosteric_enthalpy', vs)
            n_eval += 1
            note('isosteric_enthalpy', kind if rt is None else 'converted+re-imported', oc)
            info = {'entry': 'isosteric_enthalpy', 'isotherm': sname, 'kind': kind, 'rps': [list(r) for r in rps], 'rls': [list(r) for r in rls], 'tus': tus}
            if rt is not None:
                info['route'], info['reimported'] = rt[0], list(rt[1])
                tus = '%s, isotherms %s then re-imported through %s' % (tus, list(rt[1]), rt[0])
            if oc != 'Ok':
                # the routine refuses isotherms in different loading bases (ParameterError): refusal is not a wrong result
                if oc == 'ParameterError':
                    continue
                rep.failure(classify('isosteric_enthalpy', kind, info), 'isosteric_enthalpy(%s) raises %s after conversion %s' % (sname, oc, kind), info)
                continue
            # the loading points are reported in the first isotherm's units: compare the enthalpies, slopes, correlation
            keep = lambda r: {k: v for k, v in r.items() if k != 'loading'}
            d = differ('isosteric_enthalpy', keep(base), keep(var))
            if d:
                rep.failure(classify('isosteric_enthalpy', kind, info), 'isosteric_enthalpy(%s) changes after conversion (%s) pressure %s loading %s temperature units %s: %s' % (
                    sname, kind, rps, rls, tus, d[:2]), info)
            else:
                nontrivial.add(('isosteric_enthalpy', sname, kind, tuple(rps), tuple(rls)))
        # the same three OBJECTS analysed (pressure_at builds their interpolators), converted in place, analysed again; representations in which the
        # routine is sound (absolute pressure in one unit, molar or mass loading - see the findings for the others)
        for rp, rl, tu in [(('absolute', 'kPa'), ('mass', 'mg'), '°C'), (None, ('mass', 'g'), None), (None, ('molar', 'mol'), None), (('absolute', 'torr'), None, None),
                           (('absolute', 'Pa'), ('molar', rnd.choice(['mol', 'kmol', 'cm3(STP)'])), rnd.choice(['K', '°C']))]:
            objs = [clone(i) for i in iset]
            oc1, first = run_entry('isosteric_enthalpy', objs)
            for o_ in objs:
                convert_in_place(o_, rp, rl, tu)
            oc, var = run_entry('isosteric_enthalpy', objs)
            n_eval += 2
            note('isosteric_enthalpy', 'reuse', oc)
            info = {'entry': 'isosteric_enthalpy', 'isotherm': sname, 'kind': 'reuse', 'rp': rp and list(rp), 'rl': rl and list(rl), 'tu': tu}
            keep = lambda r: {k: v for k, v in r.items() if k != 'loading'}
            d = differ('isosteric_enthalpy', keep(base), keep(var)) if (oc1, oc) == ('Ok', 'Ok') else [('outcome', '%s / %s: %s' % (oc1, oc, var if oc != 'Ok' else first))]
            if d:
                rep.failure('C15:unclassified:isosteric_enthalpy:reuse', 'isosteric_enthalpy(%s): the same isotherm objects analysed, converted in place to %s and analysed again: %s' % (
                    sname, (rp, rl, tu), d[:2]), info)
            else:
                nontrivial.add(('isosteric_enthalpy', sname, 'reuse', rp, rl))
        for c in factors:
            oc, var = run_entry('isosteric_enthalpy', [clone(i, scale=c) for i in iset])
            n_eval += 1
            info = {'entry': 'isosteric_enthalpy', 'isotherm': sname, 'kind': 'scaling', 'factor': c}
            d = differ('isosteric_enthalpy', base, var, factor=c) if oc == 'Ok' else [('outcome', oc)]
            if d:
                rep.failure(classify('isosteric_enthalpy', 'scaling', info), 'isosteric_enthalpy(%s): loadings x %g: %s' % (sname, c, d[:2]), info)
            else:
                nontrivial.add(('isosteric_enthalpy', sname, 'scale', c))
    return n_eval, nontrivial, hist


# ---------------------------------------------------------------------------------------------- adsorbate kinds x stored representations
KIND_ENTRIES = {'bet': ['area_BET', 't_plot', 'psd_mesoporous:pygaps-DH:ads', 'psd_mesoporous:BJH:ads', 'psd_mesoporous:DH:ads', 'psd_dft'],
                'langmuir': ['area_langmuir', 'alpha_s'],
                'da': ['dr_plot', 'da_plot', 'psd_microporous:HK', 'psd_microporous:HK-CY', 'psd_microporous:RY', 'psd_microporous:RY-CY']}


def kinds_sweep(rep, tier, seed, only=None):
    """every entry point x adsorbate kind x stored representation. The same physical points are WRITTEN DOWN in several pressure
    representations (synthetic(..., rp): relative, percent, absolute in a unit) and also converted with the implementation's conversions
    to other pressure / loading / temperature representations; every result must equal the one of the relative-mode construction, and a
    routine that applies in one representation applies in all (same outcome class)."""
    rnd = random.Random(seed + 23)
    n_eval, nontrivial, hist = 0, set(), {}
    absolute = [r for r in PREPS if r[0] == 'absolute']
    for ak in KINDS:
        for syn, entries in KIND_ENTRIES.items():
            if only and (ak, syn) != only:
                continue
            # construction representations: Pa (the unit the adsorbate reports in), bar, percent, + random absolute units (thorough: all)
            reps = [('absolute', 'Pa'), ('absolute', 'bar'), ('relative%', None)] + (rnd.sample([r for r in absolute if r[1] not in ('Pa', 'bar')], 2) if tier == 'quick'
                                                                                    else [r for r in absolute if r[1] not in ('Pa', 'bar')])
            trials = [('constructed', r, None) for r in reps]
            # conversions (the implementation's own) starting from an ABSOLUTE construction and from the relative one
            for _ in range(2 if tier == 'quick' else 6):
                trials.append(('converted', rnd.choice(reps[:2] + [('relative', None)]), (rnd.choice(PREPS), rnd.choice(LREPS), rnd.choice(['K', '°C']))))
            base_iso = {}
            for entry in entries:
                if tier == 'quick' and entry in ('psd_microporous:RY-CY', 'psd_mesoporous:DH:ads', 'psd_dft') and ak == 'backend':
                    continue
                ref = inside = None
                if entry == 'alpha_s':      # reference: the BET curve of the same adsorbate kind in a representation the look-up can read; sample: the Langmuir curve inside it
                    ref = synthetic('bet', ak)
                    inside = (float(min(ref.pressure(branch='ads'))), float(max(ref.pressure(branch='ads'))))
                my_trials = trials if not (entry == 'psd_dft' and tier == 'quick') else [trials[1], trials[3]]      # the slow routine: bar and one random unit
                oc0, base = run_entry(entry, synthetic(syn, ak, inside=inside), ref)
                n_eval += 1
                k0 = '%s/kind:%s/baseline/%s' % (entry.split(':')[0], ak, oc0)
                hist[k0] = hist.get(k0, 0) + 1
                for how, rp, conv in my_trials:
                    iso = synthetic(syn, ak, rp, inside=inside)
                    if conv is not None:
                        iso = convert(iso, *conv)
                    oc, var = run_entry(entry, iso, ref)
                    n_eval += 1
                    kk = '%s/kind:%s/%s/%s' % (entry.split(':')[0], ak, how, oc)
                    hist[kk] = hist.get(kk, 0) + 1
                    info = {'entry': entry, 'isotherm': 'syn-' + syn, 'kind': 'adsorbate-kind', 'adsorbate_kind': ak, 'constructed_in': list(rp),
                            'converted_to': conv and [list(conv[0]), list(conv[1]), conv[2]]}
                    where = 'written down in %s%s' % (rp, '' if conv is None else ' and converted to %s' % (conv,))
                    tag = 'C15:unclassified:%s:adsorbate-kind-%s' % (entry.split(':')[0], ak)
                    if (oc == 'Ok') != (oc0 == 'Ok'):
                        rep.failure(tag, '%s(syn-%s, %s adsorbate): %s with the points written down in relative pressure, %s with the same points %s (%s)' % (
                            entry, syn, ak, oc0, oc, where, var if oc != 'Ok' else base), info)
                        continue
                    if oc != 'Ok':
                        continue
                    d = differ(entry, base, var)
                    if d and entry == 'psd_dft':
                        # what the routine READ from the isotherm is judged here; the kernel fit's sensitivity to the last bits is the known finding of the main sweep
                        if not any(k.startswith('/acquired') for k, _ in d):
                            info['inputs_agree'] = True
                            tag = classify(entry, 'representation', info)
                    if d:
                        rep.failure(tag, '%s(syn-%s, %s adsorbate): the result for the points written down in relative pressure changes when the same points are %s: %s' % (
                            entry, syn, ak, where, d[:3]), info)
                    else:
                        nontrivial.add((entry, 'syn-' + syn, ak, how, tuple(rp), conv))
    return n_eval, nontrivial, hist


def all_isotherms(tier):
    isos = {k: load(v) for k, v in N77.items()}
    for kind in ('bet', 'langmuir', 'da'):
        isos['syn-' + kind] = synthetic(kind)
    return isos


def run(rep, tier, seed):
    vlib.standard_proof_phase(rep, 'C15', extra_targets=EXTRA_TARGETS)
    explore(rep, tier, seed)
    if rep.broken and not rep.violations and tier != 'thorough':
        explore(rep, 'thorough', seed + 1)


def explore(rep, tier, seed):
    isos = all_isotherms(tier)
    rk = random.Random(seed + 31)
    corr = {k: isos[k] for k in ('MCM-41', 'NaY', 'Takeda 5A')}
    for ak in KINDS:
        if ak != 'backend':     # the accessor model reads the adsorbate's pascal value and converts ONCE: every kind must behave so
            corr['syn-bet/' + ak] = synthetic('bet', ak, rk.choice([('absolute', 'bar'), ('absolute', 'kPa'), ('absolute', 'torr'), ('relative', None)]))
    n1 = correspondence(rep, tier, seed, corr)
    n2, nontrivial, hist = metamorphic(rep, tier, seed, isos)
    n3, nt3, hist3 = kinds_sweep(rep, tier, seed)
    n2 += n3
    nontrivial |= nt3
    hist.update(hist3)
    rep.cov['evaluations'] = n1 + n2
    rep.cov['distinct_nontrivial'] = len(nontrivial)
    rep.cov['rule'] = ('metamorphic: every entry point (area_BET, area_langmuir, t_plot, alpha_s, dr_plot, da_plot, psd_mesoporous x 3 models, psd_microporous x 4 '
                       'models, psd_dft, initial_henry_slope, initial_henry_virial, isosteric_enthalpy) x 5 shipped N2 isotherms + 3 synthetic (BET, Langmuir, DA) x '
                       'random (pressure representation of 10, non-fractional loading representation of 25, temperature unit) + 4 fixed variants + 3 variants converted to degC and THEN exported and '
                       're-imported (to_dict -> constructor, to_json -> from_json, PointIsotherm.from_isotherm; also 1-3 members of the isosteric set) x scale factors '
                       '0.5, 3, 1e-6, 1e6 (thorough: also 1e-4, 1e-3, 1e3); the SAME object analysed, converted in place and analysed again (every entry point; '
                       'alpha_s sample and reference objects; the isosteric set); alpha_s with sample / reference converted; isosteric sets converted jointly and mixed; adsorbate kinds '
                       '(backend nitrogen 77 K; user-defined stored-only 90 K; backend + different stored values 77 K; backend failing at 150 K + stored values) x 14 entry points (alpha_s sample side and the columns psd_dft acquires included) on the '
                       'synthetic isotherms, the same points written down in relative / percent / absolute Pa, bar + 2 random units (thorough: all 8) and converted onward, against the '
                       'relative-mode construction, same outcome class required. non-trivial = distinct (entry point, isotherm, variant) '
                       'whose result agreed field by field (1e-6; optimiser-based routines 1e-4) with the baseline / the exact factor')
    rep.cov['input_distribution'] = hist
    rep.cov['tolerance'] = {'default_rel': 1e-6, 'optimiser_based_rel': 1e-4}
    rep.cov['samples'] += [{'entry': 'area_BET', 'isotherm': 'MCM-41', 'variant': "('absolute','kPa'), ('mass','mg'), degC", 'result': 'equal field by field'}]
    rep.cov['trusted_base'] += ['translator tools/py2v_static.py (acquisition table; fail-closed on unclassifiable accessor calls)',
                                'translator tools/py2v_adsmethods.py (Adsorbate property methods; fail-closed on another body shape)',
                                'hand-written accessor model Charact/Invariance.v (validated against PointIsotherm.pressure/loading/loading_at above)',
                                'raw characterisation routines, scipy, numpy: not modelled (metamorphic validation only)',
                                'conversions used to build the variants are the implementation\'s own convert_* (verified by C02)']
    rep.assumptions += ['material basis/unit changes and fraction/percent loadings are outside the property',
                        'invariance of the RESULTS is proved for the acquired columns only; the raw routines are validated, not proved',
                        'IEEE rounding excluded (1e-6 / 1e-4 relative)']


def replay(d):
    import logging
    logging.disable(logging.CRITICAL)
    r = d['replay']
    isos = all_isotherms('quick')
    entry = r['entry']
    print('replaying', r)
    tup = lambda x: tuple(x) if x else None
    if entry == 'isosteric_enthalpy':
        iset = [load(f, 'isosteric') for f in ISOSTERIC]
        oc0, base = run_entry(entry, [clone(i) for i in iset])
        if r['kind'] == 'reuse':
            objs = [clone(i) for i in iset]
            print('same objects, first analysis:', run_entry(entry, objs)[0])
            for o_ in objs:
                convert_in_place(o_, tup(r['rp']), tup(r['rl']), r['tu'])
            oc, var = run_entry(entry, objs)
        elif r['kind'] == 'scaling':
            oc, var = run_entry(entry, [clone(i, scale=r['factor']) for i in iset])
        else:
            oc, var = run_entry(entry, [convert(i, tuple(rp), tuple(rl), tu) for i, rp, rl, tu in zip(iset, r['rps'], r['rls'], r['tus'])])
        print('baseline enthalpy', oc0, base['isosteric_enthalpy'][:3] if oc0 == 'Ok' else base)
        print('variant  enthalpy', oc, var['isosteric_enthalpy'][:3] if oc == 'Ok' else var)
        return 1
    if r.get('kind') == 'adsorbate-kind':
        syn, ak = r['isotherm'][4:], r['adsorbate_kind']
        ref = inside = None
        if entry == 'alpha_s':
            ref = synthetic('bet', ak)
            inside = (float(min(ref.pressure(branch='ads'))), float(max(ref.pressure(branch='ads'))))
        oc0, base = run_entry(entry, synthetic(syn, ak, inside=inside), ref)
        iso = synthetic(syn, ak, tuple(r['constructed_in']), inside=inside)
        if r.get('converted_to'):
            cv = r['converted_to']
            iso = convert(iso, tuple(cv[0]), tuple(cv[1]), cv[2])
        oc, var = run_entry(entry, iso, ref)
        print('adsorbate kind %r: %s at %s K, saturation pressure in Pa / in bar: %r / %r' % (
            ak, iso.adsorbate, iso.temperature, iso.adsorbate.saturation_pressure(KINDS[ak]), iso.adsorbate.saturation_pressure(KINDS[ak], unit='bar')))
        print('points written down in relative pressure:', oc0, {k: (v if np.size(v) < 4 else '...') for k, v in base.items()} if oc0 == 'Ok' else base)
        print('points written down in %s%s:' % (r['constructed_in'], ' then converted to %s' % r['converted_to'] if r.get('converted_to') else ''),
              oc, {k: (v if np.size(v) < 4 else '...') for k, v in var.items()} if oc == 'Ok' else var)
        bad = (oc == 'Ok') != (oc0 == 'Ok') or (oc == 'Ok' and differ(entry, base, var))
        print('DIFFERENT' if bad else 'equal')
        return 1 if bad else 0
    iso0 = isos[r['isotherm']]
    if entry == 'alpha_s':
        ref0 = convert(isos['SiO2'], ('relative', None))
        s0 = alphas_sample(iso0, ref0)
        oc0, base = run_entry(entry, s0, ref0)
        if r['kind'].startswith('reuse-'):
            s_, r_ = clone(s0), convert(isos['SiO2'], ('relative', None))
            print('same objects, first analysis:', run_entry(entry, s_, r_)[0])
            convert_in_place(s_ if r['kind'] == 'reuse-sample' else r_, tup(r['rp']), tup(r['rl']), r['tu'])
            oc, var = run_entry(entry, s_, r_)
        elif r['kind'] == 'scaling':
            oc, var = run_entry(entry, clone(s0, scale=r['factor']), ref0)
        elif r['kind'] == 'sample':
            oc, var = run_entry(entry, convert(s0, tuple(r['rp']), tuple(r['rl']), r['tu']), ref0)
        else:
            oc, var = run_entry(entry, s0, convert(isos['SiO2'], tuple(r['rp']), tuple(r['rl']), r['tu']))
    else:
        oc0, base = run_entry(entry, clone(iso0))
        if r['kind'] == 'reuse':
            obj = clone(iso0)
            print('same object, first analysis:', run_entry(entry, obj)[0])
            convert_in_place(obj, tup(r['rp']), tup(r['rl']), r['tu'])
            oc, var = run_entry(entry, obj)
        elif r['kind'] == 'scaling':
            oc, var = run_entry(entry, clone(iso0, scale=r['factor']))
        else:
            oc, var = run_entry(entry, convert(iso0, tuple(r['rp']), tuple(r['rl']), r['tu']))
    print('baseline', oc0, {k: (v if np.size(v) < 4 else '...') for k, v in base.items()} if oc0 == 'Ok' else base)
    print('variant ', oc, {k: (v if np.size(v) < 4 else '...') for k, v in var.items()} if oc == 'Ok' else var)
    return 1
