"""C04 - read-only queries and analyses are pure and independent of the query history.

proof phase   : Props/C04.v (purity, cache invariant over arbitrary histories, history independence) on Iso/IsoAccess.v
correspondence: histories mixing pressure / loading / loading_at / pressure_at / spreading_pressure_at (outcome) and permanent
                conversions on real PointIsotherms vs the model, caches threaded, compared per call
oracle/search : on the implementation, for every read-only call of a history: (i) the observable content (iso_id, labels, data,
                material / adsorbate properties) is unchanged, (ii) the outcome equals the outcome of the same call issued first on
                an identical fresh object; the same for exports, characterisation functions, model fitting, IAST and the
                adsorbate's thermodynamic state (opaque queries)
"""
import io
import json
import random
import sys

import numpy as np
import pandas as pd

import vlib
from vlib import ostr, flit, fme
from props import c01, c02, c03

EXTRA_TARGETS = ['Iso/AccessShow.vo']
MANIFEST = dict(
    text="Machine-checked (Coq 8.16) theorems on the accessor model Iso/IsoAccess.v (hand-written, calling the converters and convert_* "
         "methods GENERATED from the source; tied to PointIsotherm by per-call correspondence): for ALL states and ALL arguments loading_at / "
         "pressure_at / spreading_pressure_at leave the observable content unchanged, also over arbitrary query histories (induction); the cache "
         "invariant 'a cached interpolator equals a fresh build from the current data' holds after ANY history of queries and permanent "
         "conversions with any arguments (proved over the generated convert_* code, so a dropped cache reset breaks the proof); hence the values "
         "or error kind of every interpolation query after any history equal those on an identical fresh object. The outcome of "
         "spreading_pressure_at is history independent (after a fix: commit; formerly refuted with a witness). A census of the source, regenerated "
         "on every run, proves that no analysis calls a mutating method on, assigns into, or applies an in-place container method to an isotherm "
         "handed in. Characterisation, fitting, IAST, exports and the CoolProp state are covered by the run-time oracle (partial): 56 calls = "
         "analysis x kind of argument (point / model isotherms, lists in mixed units) x optional arguments in random histories, each outcome "
         "compared with the same call in a FRESH PROCESS, raw state compared before / after, identifier reads included.",
    note="Trusted: Coq kernel; hand model Iso/IsoAccess.v (validated by correspondence); translators py2v_iso / py2v_units; interp1d contract; the "
         "opaque analyses (characterisation, model_iso, iast, to_json/csv/aif, Adsorbate backend state) are exercised, not modelled.",
    technique="Coq proof (invariant + induction over query/conversion histories) on accessor model over generated code; generated purity census; differential run vs fresh twin and fresh process")

HEADER = c03.HEADER
PREPS, LREPS, MREPS = c01.PREPS, c01.LREPS, c01.MREPS


def coq_query(q):
    if q[0] == 'spreading':
        _, p, b, fill, pu, pm, lu, lb, mu, mb = q
        return '(QSpread %s %s %s %s %s %s %s %s %s)' % (flit(p), ostr(b), c03.ofill(fill), ostr(pu), ostr(pm), ostr(lu), ostr(lb), ostr(mu), ostr(mb))
    return c03.coq_query(q)


def do_query(iso, q):
    if q[0] == 'spreading':
        _, p, b, fill, pu, pm, lu, lb, mu, mb = q
        try:
            r = iso.spreading_pressure_at(p, branch=b, pressure_unit=pu, pressure_mode=pm, loading_unit=lu, loading_basis=lb,
                                          material_unit=mu, material_basis=mb, interp_fill=fill)
            return ('Ok', [float(x) for x in np.atleast_1d(np.asarray(r, dtype=float))])
        except Exception as e:  # noqa
            return (vlib.exn_class(e), [])
    return c03.do_query(iso, q)


def obs(iso):
    d = iso.data_raw
    return (iso.iso_id, tuple(sorted((k, str(v)) for k, v in iso.units.items())), iso._temperature,
            tuple(map(tuple, d.to_numpy().tolist())), tuple(d.columns), tuple(d.index), tuple(str(t) for t in d.dtypes),
            tuple(sorted((k, repr(v)) for k, v in iso.material.properties.items())), str(iso.material),
            tuple(sorted((k, repr(v)) for k, v in iso.adsorbate.properties.items())), str(iso.adsorbate),
            tuple(sorted((k, repr(v)) for k, v in iso.properties.items())))


def same_result(a, b):
    if a[0] != b[0] or len(a[1]) != len(b[1]):
        return False
    return all((x == y) or (x != x and y != y) or abs(x - y) <= 1e-9 * max(abs(x), abs(y)) for x, y in zip(a[1], b[1]))


def gen(tier, seed):
    rnd = random.Random(seed)
    out = []
    for si in range(40 if tier == 'quick' else 500):
        rp = rnd.choice(PREPS); rl = rnd.choice(LREPS[:25]) if rnd.random() < 0.85 else rnd.choice(LREPS[25:]); rm = rnd.choice(MREPS)
        ak = rnd.choice(['full', 'full', 'water', 'nitrogen'])
        tu = rnd.choice(['K', '°C'])
        TK = 573.15 if ak == 'water' else 77.355
        init = (rp, rl, rm, tu, TK if tu == 'K' else round(TK - 273.15, 3), ak)
        scratch = c03.build(init, tag='s')
        qs = []
        for _ in range(rnd.randint(3, 8 if tier == 'quick' else 20)):
            kind = rnd.choice(['loading_at', 'pressure_at', 'spreading', 'spreading', 'loading_at', 'pressure', 'loading', 'conv'])
            b = rnd.choice(['ads', 'des', 'ads', 'des', None, 'bogus']) if kind in ('pressure', 'loading') else rnd.choice(['ads', 'des'])
            if kind == 'conv':
                qs.append(('conv', rnd.choice([('P', rnd.choice(PREPS)), ('L', rnd.choice(LREPS[:25])), ('M', rnd.choice(MREPS)), ('P', (None, None)), ('L', ('molar', None))])))
                continue
            named = rnd.random() < 0.35
            pm, pu = rnd.choice(PREPS) if named else (None, None)
            lb, lu = rnd.choice(LREPS[:25]) if (named and rnd.random() < 0.5) else (None, None)
            mb, mu = (None, None)
            if kind == 'pressure':
                qs.append(('pressure', b, pu, pm, None)); continue
            if kind == 'loading':
                qs.append(('loading', b, lu, lb, mu, mb, None)); continue
            fill = rnd.choice([None, None, None, 0.0, (0.0, 20.0), 'extrapolate', 5.0, (0.0, 25.0)])
            kindi = 'linear' if rnd.random() < 0.8 else rnd.choice(['cubic', 'nearest', 'quadratic'])
            if kind in ('loading_at', 'spreading'):
                oc, knots = c03.do_query(scratch, ('pressure', b, pu, pm, None))
            else:
                oc, knots = c03.do_query(scratch, ('loading', b, lu, lb, mu, mb, None))
            if oc != 'Ok' or len(knots) < 2:
                knots = [0.1, 0.2, 0.3]
            ks = sorted(knots)
            inside = [ks[len(ks) // 2], (ks[0] + ks[1]) / 2, (ks[-2] + ks[-1]) / 2, ks[1]]
            outside = [ks[0] * 0.5, ks[-1] * 1.5]
            if kind == 'spreading':
                p = rnd.choice(inside + outside + outside)
                qs.append(('spreading', p, b, fill, pu, pm, lu, lb, mu, mb))
            else:
                pts = rnd.sample(inside + outside, rnd.randint(1, 4))
                qs.append((kind, tuple(pts), b, kindi, fill, pu, pm, lu, lb, mu, mb))
        out.append((init, qs))
    # ---- targeted: two calls whose cache keys differ in exactly one component (branch / kind / fill), queried outside the
    #      range so that the fill rule matters; and a permanent conversion between two identical calls
    init0 = (('absolute', 'bar'), ('molar', 'mmol'), ('mass', 'g'), 'K', 77.355, 'full')
    fills = [None, 0.0, 5.0, (0.0, 20.0), (0.0, 25.0), (1.0, 20.0), (3.0, 4.0), 'extrapolate']
    pts_p, pts_l = (0.01, 0.3, 2.0), (0.3, 3.0, 9.0)      # below / inside / above the measured range (ads branch)
    pairs = [(f1, f2) for f1 in fills for f2 in fills if f1 != f2]
    if tier == 'quick':
        pairs = rnd.sample(pairs, 28)
    for f1, f2 in pairs:
        out.append((init0, [('loading_at', pts_p, 'ads', 'linear', f1) + (None,) * 6, ('loading_at', pts_p, 'ads', 'linear', f2) + (None,) * 6]))
        out.append((init0, [('pressure_at', pts_l, 'ads', 'linear', f1) + (None,) * 6, ('pressure_at', pts_l, 'ads', 'linear', f2) + (None,) * 6]))
    for b1, b2, k1, k2 in [('ads', 'des', 'linear', 'linear'), ('des', 'ads', 'linear', 'linear'), ('ads', 'ads', 'cubic', 'linear'), ('ads', 'ads', 'nearest', 'linear')]:
        out.append((init0, [('loading_at', (0.3, 0.6), b1, k1, (0.0, 20.0)) + (None,) * 6, ('loading_at', (0.3, 0.6), b2, k2, (0.0, 20.0)) + (None,) * 6]))
        out.append((init0, [('pressure_at', (2.0, 3.5), b1, k1, (0.0, 20.0)) + (None,) * 6, ('pressure_at', (2.0, 3.5), b2, k2, (0.0, 20.0)) + (None,) * 6]))
    convs = [('P', ('absolute', 'kPa')), ('P', ('relative', None)), ('L', ('mass', 'mg')), ('L', ('molar', 'mol')), ('M', ('mass', 'kg')), ('M', ('volume', 'cm3')), ('M', ('molar', 'mmol'))]
    for cv in convs:
        for kind, pts in (('loading_at', (0.3, 0.6)), ('pressure_at', (2.0, 3.5))):
            q = (kind, pts, 'ads', 'linear', (0.0, 20.0)) + (None,) * 6
            out.append((init0, [q, ('conv', cv), q]))
    return out


def classify(q, before_kinds):
    if q[0] == 'spreading' and any(k == 'loading_at' or k == 'spreading' for k in before_kinds):
        return 'C04:spreading-guard-reads-cached-interpolator'
    return 'C04:unclassified:%s' % q[0]


def run(rep, tier, seed):
    vlib.standard_proof_phase(rep, 'C04', extra_targets=EXTRA_TARGETS)
    explore(rep, tier, seed)
    if rep.broken and not rep.violations and tier != 'thorough':
        explore(rep, 'thorough', seed + 1)


def explore(rep, tier, seed):
    G = gen(tier, seed)
    impl = []
    n_q = n_dis = 0
    hist = {}
    nontrivial = set()
    for gi, (init, qs) in enumerate(G):
        iso = c03.build(init, tag=str(gi % 5))
        res = []
        for qi, q in enumerate(qs):
            before = obs(iso) if q[0] != 'conv' else None
            r = do_query(iso, q)
            res.append(r)
            n_q += 1
            hist[(q[0], r[0])] = hist.get((q[0], r[0]), 0) + 1
            if q[0] == 'conv':
                continue
            # (i) purity
            if obs(iso) != before:
                rep.failure('C04:unclassified:not-pure:%s' % q[0], 'read-only call %r changed the isotherm' % (q,),
                            {'init': list(init), 'history': [list(x) for x in qs[:qi + 1]], 'kind': 'not-pure'})
            # (ii) history independence: the same call issued first on an identical fresh object
            twin = c03.build(init, tag='t')
            for qq in qs[:qi]:
                if qq[0] == 'conv':
                    c02.do_call(twin, qq[1])
            r2 = do_query(twin, q)
            if not same_result(r, r2):
                rep.failure(classify(q, [x[0] for x in qs[:qi]]),
                            '%r gives %r after the history %r but %r on an identical fresh isotherm' % (q, (r[0], r[1][:3]), [x[0] for x in qs[:qi]], (r2[0], r2[1][:3])),
                            {'init': list(init), 'history': [list(x) for x in qs[:qi + 1]], 'kind': 'history-dependent', 'after_history': [r[0], r[1][:4]], 'fresh': [r2[0], r2[1][:4]]})
            elif qi > 0 and r[0] == 'Ok':
                nontrivial.add((init[:3], q[0], tuple(x[0] for x in qs[:qi])))
        impl.append((iso, res))
    # ---- correspondence with the model
    terms = []
    exp = lambda vals: '[' + '; '.join('((%d)%%Z, (%d)%%Z)' % fme(x) for x in vals) + ']'
    for (init, qs), (iso, res) in zip(G, impl):
        terms.append('(run_queries_cmp 1 1000000000 %s [%s])' % (c03.coq_state(init, iso),
                     '; '.join('(%s, %s)' % (coq_query(q), exp([] if q[0] == 'spreading' else r[1])) for q, r in zip(qs, res))))
    model = None
    try:
        model = vlib.run_coq_cases('c04m', HEADER, 'fun x : list (list Z) => x', terms, per_file=40, nested=True)
    except RuntimeError as e:
        rep.broken_obligation('correspondence:IsoAccess-evaluation', str(e)[-800:])
    if model is not None:
        for gi, ((init, qs), (iso, res)) in enumerate(zip(G, impl)):
            for qi, (q, r) in enumerate(zip(qs, res)):
                mz = model[gi][qi]
                moc = vlib.EXN[mz[0]]
                if moc == 'FellOffEnd':       # unmodelled interpolation kind
                    continue
                ok = moc == r[0] and mz[1] == 1
                if moc == 'ValueError' and r[0].startswith('other'):
                    ok = True
                if not ok:
                    n_dis += 1
                    if n_dis <= 6:
                        rep.broken_obligation('correspondence:IsoAccess-vs-implementation',
                                              {'init': [str(x) for x in init], 'queries': [str(x) for x in qs[:qi + 1]], 'implementation': [r[0], r[1][:4]],
                                               'model_outcome': moc, 'values_agree': bool(mz[1])})
    n_op = opaque_queries(rep, tier, seed)
    rep.cov['evaluations'] = rep.cov.get('evaluations', 0) + n_q + n_op
    rep.cov['distinct_nontrivial'] = rep.cov.get('distinct_nontrivial', 0) + len(nontrivial)
    rep.cov['rule'] = ('random histories (3-8 calls quick, 3-20 thorough) of pressure / loading / loading_at / pressure_at / spreading_pressure_at with varying branch, '
                       'interpolation kind, fill, unit arguments, query points inside and outside the range, interleaved with permanent conversions; every read-only '
                       'call compared with the same call on an identical fresh object and for purity; non-trivial = distinct (stored rep, call kind, kinds of the '
                       'preceding calls) with a non-empty history and an Ok outcome equal to the fresh one; plus opaque analyses (characterisation, model_iso, '
                       'iast, exports, adsorbate state)')
    rep.cov['input_distribution'] = {'%s/%s' % k: v for k, v in sorted(hist.items())}
    rep.cov['correspondence'] = {'queries': n_q, 'disagreements': n_dis, 'what': 'hand model Iso/IsoAccess.v (QNum) vs PointIsotherm per call (spreading pressure: outcome class only)'}
    rep.cov['samples'] += [{'init': [str(x) for x in G[i][0]], 'history': [str(q)[:100] for q in G[i][1][:4]], 'outcomes': [r[0] for r in impl[i][1][:4]]} for i in (0, len(G) - 1)]
    rep.cov['trusted_base'] += ['hand-written model Iso/IsoAccess.v (validated by correspondence)', 'translators py2v_iso / py2v_units',
                                'opaque analyses (characterisation, fitting, IAST, exports, CoolProp state) are not modelled: run-time oracle only']
    rep.assumptions += ['module-level caches (_LOADED kernels / reference curves) covered only by "second call equals first"']


# ---------------------------------------------------------------------------------------------------------------------
# opaque analyses: every call = (kind of argument object, function); the reference outcome of each call is computed in a FRESH
# PROCESS that does nothing else (so module-level state cannot hide a dependence on the query history), the checked run makes the
# same calls in random order on shared objects of every kind (PointIsotherm, ModelIsotherm of several models) with default AND
# non-default optional arguments.
_PREL = [0.01, 0.03, 0.05, 0.08, 0.12, 0.16, 0.2, 0.25, 0.3, 0.4, 0.5, 0.6, 0.7, 0.8, 0.9, 0.95]


def _objects():
    import pygaps
    from pygaps.modelling import get_isotherm_model
    nm, C = 5.0, 120.0
    load = [nm * C * p / ((1 - p) * (1 - p + C * p)) for p in _PREL]
    kw = dict(material='verif_c04', adsorbate='nitrogen', temperature=77.355, loading_basis='molar', loading_unit='mmol', material_basis='mass', material_unit='g')

    def model(name, params, unit='bar'):
        return pygaps.ModelIsotherm(model=get_isotherm_model(name, parameters=dict(params)), pressure_mode='absolute', pressure_unit=unit, **kw)
    return {
        'point_rel': lambda: pygaps.PointIsotherm(pressure=_PREL, loading=load, pressure_mode='relative', **kw),
        'point_abs': lambda: mk_abs(pygaps, 3.0, 0.8),
        'model_langmuir': lambda: model('Langmuir', {'n_m': 3.0123456789123, 'K': 0.8123456789123}),
        'model_toth': lambda: model('Toth', {'n_m': 3.0123456789123, 'K': 0.8123456789123, 't': 0.7123456789123}),
        'model_dsl': lambda: model('DSLangmuir', {'n_m1': 2.0, 'K1': 0.8, 'n_m2': 1.0, 'K2': 0.05}),
        # several isotherms handed over together, stored in DIFFERENT pressure units / temperatures (isosteric enthalpy, IAST)
        'point_list_mixed': lambda: [_langmuir_point(pygaps, T, K, unit, scale) for T, K, unit, scale in
                                     ((298.15, 0.9, 'bar', 1.0), (323.15, 0.55, 'kPa', 100.0), (348.15, 0.35, 'Pa', 1e5))],
        # material properties given as other JSON types (int, numeric text): reads that need them must not rewrite them
        'point_rel_typed': lambda: pygaps.PointIsotherm(pressure=_PREL, loading=load, pressure_mode='relative',
                                                       **dict(kw, material={'name': 'verif_c04_typed', 'density': 2, 'molar_mass': '60', 'batch': 7})),
        # models that keep the temperature of the fit: fitted at two different temperatures in one process
        'model_dr_77': lambda: _fit_model(pygaps, 'DR', 77.355), 'model_da_77': lambda: _fit_model(pygaps, 'DA', 77.355),
        'model_langmuir_pa': lambda: model('Langmuir', {'n_m': 3.0123456789123, 'K': 0.8123456789123e-5}, 'Pa'),
        'model_toth_pa': lambda: model('Toth', {'n_m': 3.0123456789123, 'K': 0.8123456789123e-5, 't': 0.7123456789123}, 'Pa'),
    }


def _langmuir_point(pygaps, T, K, unit, scale, ads='nitrogen'):
    p = [0.05, 0.1, 0.2, 0.5, 1.0, 2.0, 4.0, 7.0, 10.0]
    return pygaps.PointIsotherm(pressure=[x * scale for x in p], loading=[3.0 * K * x / (1 + K * x) for x in p], material='verif_c04', adsorbate=ads, temperature=T,
                                pressure_mode='absolute', pressure_unit=unit, loading_basis='molar', loading_unit='mmol', material_basis='mass', material_unit='g')


def _fit_model(pygaps, name, T):
    """a model isotherm FITTED (not built from parameters) on Dubinin-type data at temperature T, relative pressure"""
    import pygaps.modelling as pgm
    p = [1e-4, 1e-3, 5e-3, 0.01, 0.03, 0.06, 0.1, 0.15, 0.2, 0.3]
    n = [8.0 * np.exp(-((8.314 * T * np.log(1 / x)) / 9000.0) ** 2) for x in p]
    iso = pygaps.PointIsotherm(pressure=p, loading=n, material='verif_c04', adsorbate='nitrogen', temperature=T, pressure_mode='relative',
                               loading_basis='molar', loading_unit='mmol', material_basis='mass', material_unit='g')
    return pgm.model_iso(iso, model=name)


def _calls():
    import pygaps.characterisation as pgc
    import pygaps.modelling as pgm
    import pygaps.iast as pgi
    import pygaps.parsing as pgp
    PR = 'point_rel'
    c = {
        'area_BET': (PR, lambda i: pgc.area_BET(i)), 'area_BET_limits': (PR, lambda i: pgc.area_BET(i, p_limits=(0.04, 0.3))),
        'area_langmuir': (PR, lambda i: pgc.area_langmuir(i)), 'area_langmuir_limits': (PR, lambda i: pgc.area_langmuir(i, p_limits=(0.02, 0.6))),
        't_plot': (PR, lambda i: pgc.t_plot(i)), 't_plot_halsey_limits': (PR, lambda i: pgc.t_plot(i, thickness_model='Halsey', t_limits=(0.3, 0.6))),
        'alpha_s': (PR, lambda i: pgc.alpha_s(i, reference_isotherm=i, reference_area=400.0)),
        'dr_plot': (PR, lambda i: pgc.dr_plot(i)), 'da_plot': (PR, lambda i: pgc.da_plot(i, exp=2)), 'da_plot_limits': (PR, lambda i: pgc.da_plot(i, exp=3, p_limits=(0.01, 0.2))),
        'psd_mesoporous': (PR, lambda i: pgc.psd_mesoporous(i, branch='ads')),
        'psd_mesoporous_bjh_sphere': (PR, lambda i: pgc.psd_mesoporous(i, psd_model='pygaps-DH', pore_geometry='sphere', branch='ads', thickness_model='Halsey', p_limits=(0.2, 0.9))),
        'psd_microporous': (PR, lambda i: pgc.psd_microporous(i)),
        'psd_microporous_rycy': (PR, lambda i: pgc.psd_microporous(i, psd_model='RY', pore_geometry='cylinder', material_model='AlSiOxideIon', p_limits=(0.01, 0.5))),
        'psd_dft': (PR, lambda i: pgc.psd_dft(i)),
        'psd_dft_units': (PR, lambda i: pgc.psd_dft(i, kernel_units={'loading_unit': 'mol', 'material_unit': 'kg'}, bspline_order=2, p_limits=(0.02, 0.9))),
        'initial_henry_slope': (PR, lambda i: pgc.initial_henry_slope(i, max_adjrms=0.5)),
        'initial_henry_virial': (PR, lambda i: pgc.initial_henry_virial(i)),
        'model_iso': (PR, lambda i: pgm.model_iso(i, model='BET').model.params),
        'model_iso_guess': ('point_abs', lambda i: pgm.model_iso(i, model=['Langmuir', 'Henry', 'Toth']).model.name),
        'to_json': (PR, lambda i: pgp.isotherm_to_json(i)), 'to_csv': (PR, lambda i: pgp.isotherm_to_csv(i)), 'to_aif': (PR, lambda i: pgp.isotherm_to_aif(i)),
        'loading_at_cubic': (PR, lambda i: i.loading_at([0.22, 0.33], interpolation_type='cubic')),
        'spreading_inside': (PR, lambda i: i.spreading_pressure_at(0.45)),
        'pressure_abs': (PR, lambda i: i.pressure(pressure_mode='absolute', pressure_unit='bar')),
        'whittaker_point': ('point_abs', lambda i: pgc.enthalpy_sorption_whittaker(i, model='Langmuir', loading=[0.5, 1.0])),
        'whittaker_point_toth': ('point_abs', lambda i: pgc.enthalpy_sorption_whittaker(i, model='Toth', loading=[0.5, 1.0])),
    }
    c['isosteric_enthalpy:mixed_units'] = ('point_list_mixed', lambda L: pgc.isosteric_enthalpy(L, loading_points=[0.4, 0.8, 1.2]))
    c['isosteric_enthalpy:out_of_range'] = ('point_list_mixed', lambda L: pgc.isosteric_enthalpy(L, loading_points=[0.4, 2.9]))
    c['iast:point_list'] = ('point_list_mixed', lambda L: pgi.iast_point_fraction(L[:2], [0.4, 0.6], 1.5))
    c['loading_vol:typed'] = ('point_rel_typed', lambda i: i.loading(material_basis='volume', material_unit='cm3'))
    c['loading_molar:typed'] = ('point_rel_typed', lambda i: i.loading(material_basis='molar', material_unit='mmol'))
    c['loading_at_vol:typed'] = ('point_rel_typed', lambda i: i.loading_at(0.3, material_basis='volume', material_unit='cm3'))
    c['material_getters:typed'] = ('point_rel_typed', lambda i: [repr(i.material.density), repr(i.material.molar_mass)])
    for mk in ('model_dr_77', 'model_da_77'):
        c['loading_at:' + mk] = (mk, lambda i: i.loading_at([0.01, 0.1]))
        c['pressure_at:' + mk] = (mk, lambda i: i.pressure_at([2.0, 5.0]))
        c['spreading:' + mk] = (mk, lambda i: i.spreading_pressure_at(0.1))
    c['fit_dr_at_another_temperature'] = ('point_rel', lambda i: _fit_model(__import__('pygaps'), 'DR', 120.0).model.params)
    c['fit_da_at_another_temperature'] = ('point_rel', lambda i: _fit_model(__import__('pygaps'), 'DA', 95.0).model.params)
    for mk in ('model_langmuir', 'model_toth', 'model_dsl'):
        if mk != 'model_dsl':
            c['whittaker:' + mk] = (mk + '_pa', lambda i: pgc.enthalpy_sorption_whittaker(i, loading=[0.5, 1.0]))
            c['to_json:%s_pa' % mk] = (mk + '_pa', lambda i: pgp.isotherm_to_json(i))
        c['to_json:' + mk] = (mk, lambda i: pgp.isotherm_to_json(i))
        c['to_csv:' + mk] = (mk, lambda i: pgp.isotherm_to_csv(i))
        c['loading_at:' + mk] = (mk, lambda i: i.loading_at([0.3, 2.0], pressure_unit='kPa'))
        c['pressure_at:' + mk] = (mk, lambda i: i.pressure_at([0.4, 1.1], loading_unit='mol', material_unit='kg'))
        c['spreading:' + mk] = (mk, lambda i: i.spreading_pressure_at(0.5, pressure_unit='kPa'))
        c['iast:' + mk] = (mk, lambda i: pgi.iast_point_fraction([i, _objects()['model_langmuir']()], [0.3, 0.7], 2.0))
        c['area_BET:' + mk] = (mk, lambda i: pgc.area_BET(i))
    return c


def _summar(x):
    if isinstance(x, dict):
        return [[str(k), _summar(v)] for k, v in sorted(x.items(), key=lambda kv: str(kv[0])) if k not in ('limits',)]
    if isinstance(x, (list, tuple, np.ndarray, pd.Series)):
        arr = np.asarray(x)
        if arr.dtype.kind in 'fiu':
            return ['%.9g' % v for v in arr.astype(float).ravel().tolist()]
        return [_summar(v) for v in list(x)]
    if isinstance(x, (float, np.floating)):
        return '%.9g' % float(x)
    if hasattr(x, 'iso_id'):
        return x.iso_id
    return repr(x)[:200]


def _raw_state(iso):
    """the stored state itself, read WITHOUT going through the identifier / export code (which could touch it)"""
    if hasattr(iso, 'data_raw'):
        d = iso.data_raw
        core = (tuple(map(tuple, d.to_numpy().tolist())), tuple(d.columns), tuple(str(t) for t in d.dtypes))
    else:
        m = iso.model
        core = (tuple(sorted((k, repr(v)) for k, v in m.params.items())), repr(m.pressure_range), repr(m.loading_range),
                repr(getattr(m, 'rmse', None)), tuple(sorted(k for k in vars(m))))
    return core + (tuple(sorted((k, repr(v)) for k, v in vars(iso).items() if k not in ('data_raw', 'model', '_material', '_adsorbate', 'l_interpolator', 'p_interpolator'))),
                   tuple(sorted((k, repr(v)) for k, v in iso.material.properties.items())), tuple(sorted((k, repr(v)) for k, v in iso.adsorbate.properties.items())))


def _obs_any(iso):
    """everything observable of an isotherm of either class: the raw state first, then identifier / export, then the raw state
    again (reading the identifier or exporting must not change the object either: field 0 tells)"""
    if isinstance(iso, (list, tuple)):
        parts = [_obs_any(x) for x in iso]
        return (all(x[0] for x in parts), tuple(x[1] for x in parts), tuple(x[2] for x in parts))
    raw1 = _raw_state(iso)
    if hasattr(iso, 'data_raw'):
        rest = obs(iso)
    else:
        rest = (iso.iso_id, repr(sorted((k, repr(v)) for k, v in iso.to_dict().items())), str(iso))
    raw2 = _raw_state(iso)
    return (raw1 == raw2, raw1, rest)


def _outcome(fn, obj):
    import logging
    logging.disable(logging.CRITICAL)
    try:
        return ['Ok', _summar(fn(obj))]
    except Exception as e:  # noqa
        return [vlib.exn_class(e), None]


def child(name):
    """entry point of the reference process: one call on a fresh object in a fresh interpreter"""
    import warnings
    warnings.simplefilter('ignore')
    kind, fn = _calls()[name]
    print('C04REF ' + json.dumps(_outcome(fn, _objects()[kind]())))


def _references(names):
    import subprocess
    from concurrent.futures import ThreadPoolExecutor

    def one(name):
        r = subprocess.run([sys.executable, '-c', 'import sys; from props import c04; c04.child(sys.argv[1])', name], capture_output=True, text=True, timeout=600)
        for line in r.stdout.split('\n'):
            if line.startswith('C04REF '):
                return json.loads(line[7:])
        return ['NOREF', (r.stderr or r.stdout)[-300:]]
    with ThreadPoolExecutor(12) as ex:
        return dict(zip(names, ex.map(one, names)))


def opaque_queries(rep, tier, seed):
    """purity + repeatability + equality with the same call made in a fresh process, for analyses that are not modelled"""
    import pygaps
    import pygaps.characterisation as pgc
    import pygaps.modelling as pgm
    import pygaps.iast as pgi
    import warnings
    warnings.simplefilter('ignore')
    rnd = random.Random(seed + 3)
    n = 0
    calls = _calls()
    names = sorted(calls)
    refs = _references(names)
    noref = [k for k, v in refs.items() if v[0] == 'NOREF']
    if noref:
        rep.cov.setdefault('notes', []).append('no reference process result for %r: %r' % (noref[:3], refs[noref[0]][1]))
    rep.cov['opaque_reference_outcomes'] = {}
    for k, v in refs.items():
        rep.cov['opaque_reference_outcomes'][v[0]] = rep.cov['opaque_reference_outcomes'].get(v[0], 0) + 1
    for trial in range(4 if tier == 'quick' else 30):
        objs = {k: mk() for k, mk in _objects().items()}
        order = rnd.sample(names, len(names))
        if trial % 2:   # some calls repeated later in the history
            order += rnd.sample(names, len(names) // 3)
        for k, name in enumerate(order):
            kind, fn = calls[name]
            iso = objs[kind]
            n += 1
            before = _obs_any(iso)
            if not before[0]:
                rep.failure('C04:unclassified:not-pure:identifier-read', 'reading iso_id / to_dict / str of the %s changed its stored state' % kind,
                            {'analysis': 'iso_id', 'object': kind, 'history': order[:k], 'kind': 'not-pure'})
            r1 = _outcome(fn, iso)
            if _obs_any(iso)[1:] != before[1:]:
                rep.failure('C04:unclassified:not-pure:%s' % name, 'analysis %s changed the %s passed to it' % (name, kind),
                            {'analysis': name, 'object': kind, 'history': order[:k + 1], 'kind': 'not-pure'})
                objs[kind] = _objects()[kind]()
            if refs[name][0] != 'NOREF' and json.loads(json.dumps(r1)) != refs[name]:
                tag = 'C04:unclassified:history-dependent:%s' % name
                rep.failure(tag, 'analysis %s returns something else after %r than in a fresh process' % (name, order[max(0, k - 6):k]),
                            {'analysis': name, 'object': kind, 'history': order[:k + 1], 'kind': 'history-dependent', 'after': str(r1)[:300], 'fresh': str(refs[name])[:300]})
    # Whittaker on a PointIsotherm (absolute pressure in bar)
    pabs = [0.05, 0.1, 0.2, 0.4, 0.7, 1.0, 1.5, 2.0, 3.0, 5.0]
    lo = [3.0 * 0.8 * p / (1 + 0.8 * p) for p in pabs]
    iso = pygaps.PointIsotherm(pressure=pabs, loading=lo, material='verif_c04', adsorbate='nitrogen', temperature=77.355, pressure_mode='absolute', pressure_unit='bar',
                               loading_basis='molar', loading_unit='mmol', material_basis='mass', material_unit='g')
    before = obs(iso)
    n += 1
    try:
        pgc.enthalpy_sorption_whittaker(iso, model='Langmuir', loading=[0.5, 1.0])
    except Exception:  # noqa
        pass
    if obs(iso) != before:
        rep.failure('C04:whittaker-converts-the-callers-isotherm', 'enthalpy_sorption_whittaker(PointIsotherm) left the caller\'s isotherm converted to %r' % (iso.pressure_unit,),
                    {'analysis': 'enthalpy_sorption_whittaker', 'kind': 'not-pure', 'units_before': 'bar', 'units_after': str(iso.pressure_unit)})
    # IAST on model isotherms: inputs unchanged, result repeatable
    try:
        m1 = pgm.model_iso(mk_abs(pygaps, 2.0, 0.5), model='Langmuir'); m2 = pgm.model_iso(mk_abs(pygaps, 3.0, 0.1, ads='methane'), model='Langmuir')
        b1, b2 = (m1.iso_id, dict(m1.model.params)), (m2.iso_id, dict(m2.model.params))
        ra = pgi.iast_point_fraction([m1, m2], [0.3, 0.7], 1.0)
        rb = pgi.iast_point_fraction([m1, m2], [0.3, 0.7], 1.0)
        n += 2
        if (m1.iso_id, dict(m1.model.params)) != b1 or (m2.iso_id, dict(m2.model.params)) != b2:
            rep.failure('C04:unclassified:not-pure:iast', 'iast_point_fraction changed its input isotherms', {'analysis': 'iast_point_fraction', 'kind': 'not-pure'})
        if not np.allclose(ra, rb, rtol=1e-12):
            rep.failure('C04:unclassified:history-dependent:iast', 'iast_point_fraction is not repeatable', {'analysis': 'iast_point_fraction', 'kind': 'history-dependent'})
    except Exception as e:  # noqa
        rep.cov.setdefault('notes', []).append('iast opaque query skipped: %r' % (e,))
    # adsorbate thermodynamic state: a read at T1 must not influence the read at T2
    for name in ('nitrogen', 'water', 'carbon dioxide'):
        try:
            a = pygaps.Adsorbate.find(name)
            t1, t2 = (70.0, 90.0) if name == 'nitrogen' else ((300.0, 400.0) if name == 'water' else (230.0, 280.0))
            seq = [a.saturation_pressure(t1), a.liquid_density(t2), a.surface_tension(t1), a.saturation_pressure(t2), a.gas_density(t1), a.saturation_pressure(t1)]
            # a call that FAILS (supercritical temperature) must fail the same way when repeated, and must not poison later calls
            ts = a.t_critical() + 40.0

            def klass(fn, *args):
                try:
                    v = fn(*args)
                    return ('Ok', None if v is None else round(float(v), 9))
                except Exception as e:  # noqa
                    return (vlib.exn_class(e), None)
            for meth in ('saturation_pressure', 'liquid_density', 'gas_density', 'surface_tension'):
                first = klass(getattr(a, meth), ts)
                again = klass(getattr(a, meth), ts)
                fr = klass(getattr(pygaps.Adsorbate(name + '_y', backend_name=a.backend_name), meth), ts)
                after = klass(a.saturation_pressure, t1)
                n += 4
                if not (first == again == fr) or after != ('Ok', round(float(seq[0]), 9)):
                    rep.failure('C04:unclassified:adsorbate-state-visible', '%s.%s(%r): first %r, repeated %r, fresh adsorbate %r; saturation_pressure(%r) afterwards %r vs %r before'
                                % (name, meth, ts, first, again, fr, t1, after, seq[0]),
                                {'adsorbate': name, 'method': meth, 'T': ts, 'first': first, 'again': again, 'fresh': fr, 'kind': 'history-dependent'})
            fresh = [pygaps.Adsorbate(name + '_x', backend_name=a.backend_name).saturation_pressure(t1)]
            n += 7
            if seq[0] != seq[5] or seq[0] != fresh[0]:
                rep.failure('C04:unclassified:adsorbate-state-visible', 'saturation_pressure(%s, %r) depends on earlier backend calls' % (name, t1),
                            {'adsorbate': name, 'first': seq[0], 'again': seq[5], 'fresh': fresh[0], 'kind': 'history-dependent'})
        except Exception as e:  # noqa
            rep.cov.setdefault('notes', []).append('adsorbate state query skipped for %s: %r' % (name, e))
    return n


def mk_abs(pygaps, nm, K, ads='nitrogen'):
    p = [0.1, 0.2, 0.5, 1.0, 2.0, 4.0, 7.0, 10.0]
    return pygaps.PointIsotherm(pressure=p, loading=[nm * K * x / (1 + K * x) for x in p], material='verif_c04', adsorbate=ads, temperature=298.0,
                                pressure_mode='absolute', pressure_unit='bar', loading_basis='molar', loading_unit='mmol', material_basis='mass', material_unit='g')


def replay(d):
    r = d['replay']
    if 'history' in r and 'init' in r:
        init = r['init']
        init = (tuple(init[0]), tuple(init[1]), tuple(init[2]), init[3], init[4], init[5])
        iso = c03.build(init, tag='r')
        for q in r['history']:
            q = tuple(tuple(x) if isinstance(x, list) else x for x in q)
            print(q[0], '->', do_query(iso, q))
        q = r['history'][-1]
        q = tuple(tuple(x) if isinstance(x, list) else x for x in q)
        print('same call on a fresh isotherm ->', do_query(c03.build(init, tag='f'), q))
    elif 'analysis' in r and isinstance(r.get('history'), list) and r.get('object'):
        calls = _calls()
        objs = {k: mk() for k, mk in _objects().items()}
        bad = 0
        for name in r['history']:
            kind, fn = calls[name]
            before = _obs_any(objs[kind])
            out = _outcome(fn, objs[kind])
            if _obs_any(objs[kind]) != before:
                print('NOT PURE:', name, 'changed its', kind); bad = 1
        ref = _references([r['analysis']])[r['analysis']]
        print('after the history :', str(out)[:300]); print('fresh process     :', str(ref)[:300])
        if json.loads(json.dumps(out)) != ref:
            print('HISTORY-DEPENDENT'); bad = 1
        return bad
    else:
        print(r)
    return 1
