"""C18 - kernel (DFT) fitting is non-negative and reproduces the isotherm.   PARTIAL proof.

proof phase   : Props/C18.v over the hand-written glue model Charact/Kernel.v (SLSQP, cubic interp1d, bspline are Section
                variables / kernel data with their contracts as premises)
correspondence: every case is also run through `psd_dft QNum` INSIDE Coq (vm_compute) with the oracle answers recorded from the real
                run (interpolator values at the window pressures, result.x / result.fun of SLSQP, output of bspline): outcome class,
                limits, pore_widths, pore_distribution, pore_volume_cumulative, kernel_loading and the objective value are compared
                inside Coq; plus `_load_kernel` vs the csv file (zero row prepended, nodes reproduced)
oracle/search : certificate checking of the implementation's actual outputs against the property text: non-negativity, reproduction
                of exact combinations within the optimiser tolerance, kernel_loading = kernel applied to distribution*dw (order 0),
                cumulative non-decreasing and = running integral, points outside the limits do not matter (moved / removed),
                CalculationError for window pressures outside the kernel's range; several kernel files in one process (same file
                name in different directories, same stem / other extension, same content / other name, shipped kernel by name and by
                path before and after its namesakes): each fit is judged against the file actually passed; the kernel the cache returns
                after the whole history is compared with the file text; the cache model (Charact/KernelCache.v) is run in Coq on the history
"""
import os
import random
import shutil

import numpy as np

import vlib
from vlib import flit

# ---- tolerances (measured on the unchanged tree, see rep.cov['tolerance'])
NONNEG_TOL = 1e-12
# SLSQP is called with ftol=1e-4 on the ABSOLUTE objective sum((fit-load)^2); it stops when the objective changes by less than ftol
# between iterations, so the final objective is a multiple of ftol whatever the magnitude of the isotherm. Measured on the unchanged
# tree over 2400 generated exact combinations (seeds 1-4, thorough size): 2377 end with objective <= 1.59e-2 (99 % below 3e-3); the other
# 23 end with objective >= 2.0e5 (SLSQP reports success far from the minimum; all have loadings above 600 mmol/g, see LARGE_LOADING).
# Nothing lies in between. The oracle accepts objective <= 5e-2 (= 500 x ftol, 3 x the measured maximum): every residual <= 0.23 mmol/g.
SSQ_TOL = 5e-2
# input pattern of the recorded finding C18-F1: isotherms with loadings of several hundred mmol/g and more (physically unrealistic for
# N2 at 77 K, but inside the property's quantifier)
LARGE_LOADING = 500.0
REL = 1e-9
REL = 1e-9

MANIFEST = dict(
    text="PARTIAL machine-checked proof (Coq 8.16) about a hand-written model of the glue of psd_dft / psd_dft_kernel_fit (limit window by "
         "searchsorted, kernel matrix from the interpolators with ValueError -> CalculationError, kernel_loading = sum_j x_j K_j, objective, "
         "dist = x/dw, bspline degree 0 = identity, cumsum(dist*dw)): reported kernel_loading = kernel applied to the non-negative solver "
         "weights (= distribution*dw for order 0); an exact non-negative combination makes the objective's minimum 0 and every feasible "
         "minimiser reproduces it, objective <= eps bounds every squared residual; cumulative = running integral (induction) and monotone when "
         "the reported distribution is non-negative; result depends only on the points inside [lo,hi) for any number of outside points; "
         "pressures outside the interpolators' range give CalculationError; the kernel cache of _load_kernel (path-keyed) hands every fit the "
         "parse of the file that was actually passed, for any history of kernel files in one process (induction over the history; a cache keyed "
         "by the bare file name is refuted). NOT proved, only validated on every run by certificate checking of "
         "the implementation's outputs on random sparse/dense exact combinations (shipped 77-width kernel and generated user kernel files, "
         "orders 0-3, limits): SLSQP convergence to a minimiser within tolerance (objective <= 5e-2 = 500 x ftol, 3 x the measured maximum), non-negativity "
         "after B-spline smoothing, behaviour of scipy's cubic interp1d inside its range. The model is tied to the code on every run by "
         "executing it inside Coq on the recorded oracle answers and comparing all outputs with the implementation. Several kernel files are "
         "used in ONE process on every run (edited copies of the shipped kernel under the same file name in other directories, before and after "
         "the shipped one by name and by path; user kernels with the same name in different directories / same stem with another extension; "
         "byte copies under another name): every fit is judged against the file actually passed (kernel isotherms read from the file text at the "
         "file's own pressure nodes, or parsed with an empty cache), and the cache model is executed in Coq on the recorded history. "
         "bspline (math_utilities.py): its integer bookkeeping - degree clamp, knot vector, sampled parameter range - is regenerated on every run "
         "(Gen/BsplineGen.v, tools/py2v_bspline.py); theorem: for ANY number of pore widths >= 1 and any order >= 1 the degree handed to splev is "
         "min(order, widths-1), the knot vector has widths+degree+1 entries inside [0, widths-degree] and the sampled range is not degenerate (partial: "
         "splev itself is an oracle); the generated definitions are executed in Coq against the degree / knots / range scipy's splev really received "
         "in every fit of the run. Generated cases include user kernels of 1, 2, 3, 4 pore widths x orders 0-3 (all outputs finite, non-negative, "
         "cumulative = running integral, fitted isotherm = kernel combination) and psd_dft_kernel_fit on descending / shuffled / one-point-out-of-place "
         "pressure grids (per-point outputs reported at the position of the point passed).",
    note="Trusted: Coq kernel; Reals axioms as Print Assumptions reports; oracles scipy.optimize.minimize(SLSQP) (post-condition x>=0, len x = "
         "number of widths is a premise), scipy.interpolate.interp1d cubic (raises ValueError outside its range: premise), bspline/splev for "
         "degree>0 (no contract); searchsorted modelled for ascending pressures; carrier argument RNum/QNum; harness hooks on "
         "psd_kernel.optimize / psd_kernel.bspline (module attributes replaced in the harness process only) to record the oracle answers.",
    technique="Coq proof of solver glue with oracle premises + in-Coq execution of the model on recorded oracle answers + certificate checking")

EXTRA_TARGETS = ['Charact/KernelShow.vo', 'Charact/Bspline.vo']
HEADER = """From Coq Require Import QArith ZArith List.
From PG Require Import Lib.Num Lib.Py Lib.Show Charact.Kernel Charact.KernelShow.
Import ListNotations.
"""
SHIPPED = 'DFT-N2-77K-carbon-slit'


# ------------------------------------------------------------------ implementation access
def pk():
    from pygaps.characterisation import psd_kernel
    return psd_kernel


def kernel_path(name):
    from pygaps.data import KERNELS
    return str(KERNELS.get(name, name))


_FRESH = {}


def load(path):
    """ORACLE side: the implementation's own kernel PARSER applied to the file at `path`, with an empty kernel cache (so that what
    the harness calls "the kernel of file X" never depends on which kernels the process used before); the implementation's own,
    stateful cache is left untouched. -> (keys, widths, {key: interp1d}, lo, hi)"""
    path = str(path)
    if path not in _FRESH:
        m = pk()
        saved = getattr(m, '_LOADED', None)
        if isinstance(saved, dict):
            m._LOADED = {}
        try:
            _FRESH[path] = m._load_kernel(path)
        finally:
            if isinstance(saved, dict):
                m._LOADED = saved
    k = _FRESH[path]
    keys = list(k.keys())
    x = k[keys[0]].x
    return keys, np.asarray(keys, dtype='float64'), k, float(x[0]), float(x[-1])


def load_stateful(path):
    """the kernel the implementation holds for `path` NOW (through its cache, after whatever the process did before)"""
    return pk()._load_kernel(str(path))


def fingerprint(k):
    """identifies the CONTENT of a loaded kernel (column names, nodes and values of the first and last column)"""
    keys = list(k.keys())
    a, b = k[keys[0]], k[keys[-1]]
    return (tuple(str(x) for x in keys), tuple(np.asarray(a.x, dtype=float)), tuple(np.asarray(a.y, dtype=float)), tuple(np.asarray(b.y, dtype=float)))


def kernel_matrix(path, p):
    """kernel isotherms at pressures p, evaluated THROUGH the implementation's interpolators"""
    keys, _, k, _, _ = load(path)
    return np.asarray([k[s](np.asarray(p, dtype=float)) for s in keys])


class Hooks:
    """records what SLSQP and bspline answered during one call (module attributes of psd_kernel replaced in this process only)"""

    def __init__(self):
        self.x = None; self.fun = None; self.success = None; self.spline = None; self.loads = []
        self.knots = None       # (number of control points, degree REQUESTED, knot vector and degree bspline handed to scipy's splev)

    def __enter__(self):
        m = pk()
        self.m, self.o_opt, self.o_bs, self.o_lk = m, m.optimize, m.bspline, m._load_kernel
        hook = self

        def lk(path, *a, **kw):
            r = hook.o_lk(path, *a, **kw)
            hook.loads.append((str(path), r))
            return r

        class Opt:
            def __getattr__(s, n):
                return getattr(hook.o_opt, n)

            def minimize(s, *a, **kw):
                r = hook.o_opt.minimize(*a, **kw)
                hook.x, hook.fun, hook.success = np.array(r.x, dtype=float), float(r.fun), bool(r.success)
                return r

        def bs(xs, ys, *a, **kw):
            import scipy.interpolate as si
            deg = kw.get('degree', a[1] if len(a) > 1 else 2)
            o_splev = si.splev

            def splev(x, tck, *a2, **kw2):
                try:
                    hook.knots = (len(xs), int(deg), [int(v) for v in np.asarray(tck[0]).tolist()], int(tck[2]),
                                  float(np.asarray(x)[0]), float(np.asarray(x)[-1]))
                except Exception:  # noqa
                    hook.knots = (len(xs), int(deg), None, None, None, None)
                return o_splev(x, tck, *a2, **kw2)
            si.splev = splev
            try:
                r = hook.o_bs(xs, ys, *a, **kw)
            finally:
                si.splev = o_splev
            hook.spline = (int(deg), np.array(r[0], dtype=float), np.array(r[1], dtype=float))
            return r
        m.optimize, m.bspline, m._load_kernel = Opt(), bs, lk
        return self

    def __exit__(self, *a):
        self.m.optimize, self.m.bspline, self.m._load_kernel = self.o_opt, self.o_bs, self.o_lk


def make_iso(p, l):
    import pygaps
    return pygaps.PointIsotherm(pressure=list(map(float, p)), loading=list(map(float, l)), material='verif_c18', adsorbate='N2',
                                temperature=77.355, pressure_mode='relative', loading_basis='molar', loading_unit='mmol',
                                material_basis='mass', material_unit='g')


def call_psd(c, p=None, l=None):
    """-> (outcome class, result dict | None, hooks)"""
    p = c['p'] if p is None else p
    l = c['l'] if l is None else l
    h = Hooks()
    try:
        with h:
            if c.get('direct'):
                r = pk().psd_dft_kernel_fit(np.asarray(p, dtype=float), np.asarray(l, dtype=float), c['path'], c['order'])
                r = dict(pore_widths=r[0], pore_distribution=r[1], pore_volume_cumulative=r[2], kernel_loading=r[3], limits=(0, len(p) - 1))
            else:
                lim = None if c['lo'] is None and c['hi'] is None else (c['lo'], c['hi'])
                r = pk().psd_dft(make_iso(p, l), kernel=(SHIPPED if c.get('by_name') else c['path']), p_limits=lim, bspline_order=c['order'])
        return 'Ok', {k: (np.asarray(v, dtype=float) if k != 'limits' else (int(v[0]), int(v[1]))) for k, v in r.items()}, h
    except Exception as e:  # noqa
        return vlib.exn_class(e), None, h


# ------------------------------------------------------------------ user kernels
def write_user_kernel(rnd, d, i, name=None, m=None, npz=None):
    m = rnd.randint(4, 10) if m is None else m
    npz = rnd.randint(8, 20) if npz is None else npz
    w = np.cumsum([rnd.uniform(0.3, 0.8)] + [rnd.uniform(0.05, 0.6) for _ in range(m - 1)])
    pmax = rnd.choice([0.5, 0.9, 0.95, 1.0])
    pr = np.sort(np.exp([rnd.uniform(np.log(1e-5), np.log(pmax)) for _ in range(npz - 1)] + [np.log(pmax)]))
    pr = np.unique(np.round(pr, 9))
    os.makedirs(d, exist_ok=True)
    path = os.path.join(d, name or 'user_kernel_%d.csv' % i)
    with open(path, 'w') as f:
        f.write(',' + ','.join('%.4f' % x for x in w) + '\n')
        cap = [rnd.uniform(2, 30) for _ in range(m)]
        b = [10 ** rnd.uniform(0, 5) / (j + 1) ** 2 for j in range(m)]
        for p in pr:
            f.write('%.9g,' % p + ','.join('%.9g' % (cap[j] * b[j] * p / (1 + b[j] * p) + 0.3 * j * p) for j in range(m)) + '\n')
    return path


def read_csv_plain(path):
    """the kernel file as text (independent of pandas): header keys, pressures, table"""
    rows = [r.rstrip('\n').rstrip('\r').split(',') for r in open(path, encoding='utf8') if r.strip()]
    keys = rows[0][1:]
    pr = [float(r[0]) for r in rows[1:]]
    tab = [[float(v) for v in r[1:]] for r in rows[1:]]
    return keys, pr, tab


def kernel_matrix_text(path, p):
    """kernel isotherms at pressures that are NODES of the file, read from the file text (no interpolation, no loader)"""
    fk, fp, ft = read_csv_plain(path)
    row = {x: i for i, x in enumerate(fp)}
    return np.asarray([[ft[row[float(x)]][j] for x in p] for j in range(len(fk))], dtype=float)


def check_loader(rep, path, stateful=False):
    """_load_kernel vs the file: same columns in file order, abscissae = [0] + file pressures, ordinates = [0] + column,
    every interpolator reproduces its nodes; -> (lo, hi) the range the FILE implies (zero row prepended).
    stateful=True: the kernel the implementation's cache returns for this path after the whole history of this process
    (cache coherence: it must still be the parse of THIS file)"""
    fk, fp, ft = read_csv_plain(path)
    if stateful:
        k = load_stateful(path)
        keys = list(k.keys())
    else:
        keys, widths, k, lo, hi = load(path)
    bad = None
    if len(keys) != len(fk) or [float(a) for a in keys] != [float(a) for a in fk]:
        bad = 'columns differ from the file'
    else:
        for j, s in enumerate(keys):
            x, y = np.asarray(k[s].x, dtype=float), np.asarray(k[s].y, dtype=float)
            col = [0.0] + [r[j] for r in ft]
            if list(x) != [0.0] + fp or not np.allclose(y, col, rtol=1e-12, atol=0):
                bad = 'interpolator of column %s is not built on [0]+file pressures / [0]+file column' % s; break
            v = k[s](np.asarray(fp))
            if not np.allclose(v, col[1:], rtol=1e-9, atol=1e-12):
                bad = 'interpolator of column %s does not reproduce the file values at the file pressures' % s; break
    if bad:
        rep.broken_obligation('correspondence:_load_kernel-vs-file' + ('-after-history' if stateful else ''),
                              {'kernel': path, 'what': bad + (' (kernel returned by the cache after other kernels were used in this process)' if stateful else '')})
    return 0.0, max(fp)


# ------------------------------------------------------------------ several kernel files in ONE process
def write_kernel_text(path, keys, pr, tab):
    os.makedirs(os.path.dirname(path), exist_ok=True)
    with open(path, 'w') as f:
        f.write(',' + ','.join(keys) + '\n')
        for x, r in zip(pr, tab):
            f.write('%r,' % float(x) + ','.join('%.9g' % v for v in r) + '\n')
    return path


def edited_copy(rnd, src, dst, how):
    """a user's edited copy of a kernel file: 'scale' (every column by its own factor), 'drop' (about half of the widths removed),
    'shift' (other widths in the header, same table), 'same' (byte copy)"""
    if how == 'same':
        os.makedirs(os.path.dirname(dst), exist_ok=True)
        shutil.copyfile(src, dst)
        return dst
    keys, pr, tab = read_csv_plain(src)
    tab = np.asarray(tab, dtype=float)
    if how == 'scale':
        tab = tab * np.array([rnd.uniform(0.3, 3.0) for _ in keys])
    elif how == 'drop':
        keep = sorted(rnd.sample(range(len(keys)), max(4, len(keys) // 2)))
        keys, tab = [keys[j] for j in keep], tab[:, keep]
    elif how == 'shift':
        keys = ['%.4f' % (float(k) * 1.25 + 0.1) for k in keys]
    return write_kernel_text(dst, keys, pr, tab)


def gen_multi(rnd, udir, shipped_path):
    """-> list of (scenario label, path, by_name, twin index | None): kernel files used one after the other in this process.
    Same file name in different directories (copies of the shipped kernel with edited content, generated user kernels), same stem
    with another extension, different names with the same content; every file is used before AND after its namesakes."""
    base = os.path.basename(shipped_path)
    d = lambda *a: os.path.join(udir, *a)
    hows = ['scale', 'drop', 'shift']
    rnd.shuffle(hows)
    s1a = edited_copy(rnd, shipped_path, d('m1', base), hows[0])
    s1b = edited_copy(rnd, shipped_path, d('m2', base), hows[1])
    ua = write_user_kernel(rnd, d('ua'), 0, name='kernel.csv')
    ub = write_user_kernel(rnd, d('ub'), 0, name='kernel.csv')
    uc = write_user_kernel(rnd, d('ua'), 0, name='kernel.txt')
    k1 = write_user_kernel(rnd, d('uc'), 0, name='first_name.csv')
    k2 = edited_copy(rnd, k1, d('uc', 'second_name.csv'), 'same')
    k3 = edited_copy(rnd, k1, d('ud', 'first_name.csv'), hows[2])
    seq = [('copy-of-shipped-same-name', s1a, False), ('shipped-after-its-namesake', shipped_path, True),
           ('copy-of-shipped-same-name', s1b, False), ('shipped-after-its-namesake', shipped_path, False),
           ('copy-of-shipped-same-name', s1a, False),
           ('user-same-name-other-directory', ua, False), ('user-same-name-other-directory', ub, False), ('user-same-stem-other-extension', uc, False),
           ('user-same-name-other-directory', ua, False), ('user-same-name-other-directory', ub, False),
           ('same-content-other-name', k1, False), ('same-content-other-name', k2, False), ('user-same-name-other-directory', k3, False),
           ('same-content-other-name', k1, False)]
    return seq, {k2: k1}


# ------------------------------------------------------------------ cases
def gen_weights(rnd, m):
    pat = rnd.choice(['one', 'few', 'few', 'band', 'dense', 'dense', 'half'])
    scale = rnd.choice([0.003, 0.03, 0.3, 3.0])
    w = np.zeros(m)
    if pat == 'one':
        idx = [rnd.randrange(m)]
    elif pat == 'few':
        idx = rnd.sample(range(m), min(m, rnd.randint(2, 6)))
    elif pat == 'band':
        a = rnd.randrange(m); idx = list(range(a, min(m, a + rnd.randint(3, 15))))
    elif pat == 'half':
        idx = rnd.sample(range(m), m // 2)
    else:
        idx = list(range(m))
    for j in idx:
        w[j] = rnd.uniform(0, scale) if rnd.random() < 0.8 else scale * 10 ** rnd.uniform(-4, 0)
    return pat, scale, w


def gen_grid(rnd, lo, hi, first_file_p, n):
    kind = rnd.choice(['log', 'log', 'mixed', 'linear'])
    pmin = rnd.choice([first_file_p * 0.4, first_file_p, 1e-5, 1e-4]) if first_file_p < 1e-4 else first_file_p * rnd.choice([0.4, 1.0])
    pmin = max(pmin, 1e-9)
    pts = set()
    while len(pts) < n:
        if kind == 'log' or (kind == 'mixed' and rnd.random() < 0.5):
            v = float(np.exp(rnd.uniform(np.log(pmin), np.log(hi))))
        else:
            v = rnd.uniform(pmin, hi)
        if lo < v <= hi:
            pts.add(float('%.8g' % v) if float('%.8g' % v) <= hi else v)
    p = sorted(pts)
    if rnd.random() < 0.2:
        p[-1] = hi              # the last kernel pressure itself is inside the range
    return kind, p


def gen_cases(tier, seed, udir):
    rnd = random.Random(seed)
    nfit = 600 if tier == 'thorough' else 40
    nuser = 12 if tier == 'thorough' else 3
    kernels = [kernel_path(SHIPPED)] + [write_user_kernel(rnd, udir, i, name='user_kernel_%d_s%d_%s.csv' % (i, seed, tier)) for i in range(nuser)]
    cases = []
    # ---- several kernel files used one after the other in THIS process (they come first: the implementation's kernel cache is
    # still empty for them on the first exploration). Every fit is judged against the file that was actually passed.
    multi, twins = gen_multi(rnd, os.path.join(udir, 'multi_%d_%s' % (seed, tier)), kernels[0])
    last = {}
    for si, (label, path, by_name) in enumerate(multi):
        if path in twins and twins[path] in last:
            c = dict(last[twins[path]])
            c.update(path=path, scenario=label, twin_of=twins[path])
            cases.append(c)
            continue
        keys, widths, k, klo, khi = load(path)
        fk, fp, ft = read_csv_plain(path)
        text_nodes = si % 2 == 0
        if text_nodes:      # pressures = nodes of the file: the kernel isotherms are read from the file TEXT
            p = sorted(rnd.sample(fp, min(len(fp), rnd.randint(10, 30))))
            kind = 'file-nodes'
        else:
            kind, p = gen_grid(rnd, klo, khi, float(k[keys[0]].x[1]), rnd.randint(10, 30))
        n = len(p)
        pat, scale, w = gen_weights(rnd, len(keys))
        K = kernel_matrix_text(path, p) if text_nodes else kernel_matrix(path, p)
        l = (K * w[:, None]).sum(axis=0)
        direct = (not by_name and si % 5 == 3)
        lm = rnd.choice(['none', 'none', 'both', 'hi']) if n >= 10 and not direct else 'none'
        lo = hi = None
        if lm == 'both':
            i = rnd.randint(1, max(1, n // 3)); lo = 0.5 * (p[i - 1] + p[i])
        if lm in ('hi', 'both'):
            i = rnd.randint(max(2 * n // 3, 5), n - 1); hi = 0.5 * (p[i - 1] + p[i])
        c = dict(kind='fit', path=path, shipped=(path == kernels[0]), by_name=by_name, p=[float(x) for x in p], l=[float(v) for v in l],
                 w=[float(v) for v in w], lo=lo, hi=hi, order=0, weights=pat, scale=scale, grid=kind, limits=lm, direct=direct,
                 scenario=label, text_nodes=text_nodes, history=[(q, bn) for _, q, bn in multi[:si]])
        last[path] = c
        cases.append(c)
    for ci in range(nfit):
        path = kernels[0] if rnd.random() < 0.7 else rnd.choice(kernels[1:])
        keys, widths, k, klo, khi = load(path)
        firstp = float(k[keys[0]].x[1])
        n = rnd.randint(10, 60) if tier == 'thorough' else rnd.randint(10, 40)
        kind, p = gen_grid(rnd, klo, khi, firstp, n)
        pat, scale, w = gen_weights(rnd, len(keys))
        l = (kernel_matrix(path, p) * w[:, None]).sum(axis=0)
        lm = rnd.choice(['none', 'none', 'lo', 'hi', 'both', 'both', 'both'])
        lo = hi = None
        if lm in ('lo', 'both'):
            i = rnd.randint(1, max(1, n // 3))
            lo = p[i] if rnd.random() < 0.25 else 0.5 * (p[i - 1] + p[i])          # sometimes exactly at a point
        if lm in ('hi', 'both'):
            i = rnd.randint(max(2 * n // 3, 5), n - 1)
            hi = p[i] if rnd.random() < 0.25 else 0.5 * (p[i - 1] + p[i])
        cases.append(dict(kind='fit', path=path, shipped=(path == kernels[0]), p=p, l=[float(v) for v in l], w=[float(v) for v in w], lo=lo, hi=hi,
                          order=ci % 4, weights=pat, scale=scale, grid=kind, limits=lm, direct=False, by_name=(path == kernels[0] and ci % 3 == 0)))
    # ---- boundary sizes of user-supplied kernels: 1, 2, 3, 4 pore widths (and few pressure rows) x every spline order 0..3, through
    # psd_dft and through psd_dft_kernel_fit (there also with 1-2 isotherm points)
    for rep_ in range(3 if tier == 'thorough' else 1):
        for m in (1, 2, 3, 4):
            path = write_user_kernel(rnd, os.path.join(udir, 'small'), 0, name='small_%d_%d_s%d_%s.csv' % (m, rep_, seed, tier), m=m, npz=rnd.choice([3, 4, 5, 8]))
            keys, widths, k, klo, khi = load(path)
            fk, fp, ft = read_csv_plain(path)
            for order in (0, 1, 2, 3):
                # pressures = nodes of the file (a cubic interpolator through so few, widely spaced nodes overshoots between them: the
                # kernel isotherms are read from the file TEXT); at least three points (psd_dft refuses fewer)
                direct = rnd.random() < 0.5
                p = sorted(rnd.sample(fp, rnd.randint(3, len(fp))))
                pat, scale, w = gen_weights(rnd, len(keys))
                l = (kernel_matrix_text(path, p) * w[:, None]).sum(axis=0)
                cases.append(dict(kind='fit', path=path, shipped=False, p=p, l=[float(v) for v in l], w=[float(v) for v in w], lo=None, hi=None,
                                  order=order, weights=pat, scale=scale, grid='%d-widths/file-nodes' % m, limits='none', direct=direct, by_name=False,
                                  text_nodes=True))
    # ---- psd_dft_kernel_fit on pressure grids that are NOT ascending (descending = raw desorption data, shuffled, one point out of place):
    # every output that is reported per point is reported at the position of the point that was passed
    for ci in range(60 if tier == 'thorough' else 8):
        path = kernels[0] if rnd.random() < 0.5 else rnd.choice(kernels[1:])
        keys, widths, k, klo, khi = load(path)
        kind, p = gen_grid(rnd, klo, khi, float(k[keys[0]].x[1]), rnd.randint(6, 30))
        pat, scale, w = gen_weights(rnd, len(keys))
        how = ('descending', 'shuffled', 'one-out-of-place')[ci % 3]
        if how == 'descending':
            p = p[::-1]
        elif how == 'shuffled':
            rnd.shuffle(p)
        else:
            i, j = rnd.sample(range(len(p)), 2)
            p.insert(j, p.pop(i))
        l = (kernel_matrix(path, p) * w[:, None]).sum(axis=0)
        cases.append(dict(kind='fit', path=path, shipped=(path == kernels[0]), p=p, l=[float(v) for v in l], w=[float(v) for v in w], lo=None, hi=None,
                          order=ci % 4, weights=pat, scale=scale, grid='direct-' + how, limits='none', direct=True, by_name=False))
    # refusal: a pressure of the window outside the kernel's range; and (correspondence only) windows with < 3 points
    nref = 60 if tier == 'thorough' else 12
    for ci in range(nref):
        path = rnd.choice(kernels) if ci % 2 else kernels[0]
        keys, widths, k, klo, khi = load(path)
        kind, p = gen_grid(rnd, klo, khi, float(k[keys[0]].x[1]), rnd.randint(6, 14))
        _, _, w = gen_weights(rnd, len(keys))
        l = list((kernel_matrix(path, p) * w[:, None]).sum(axis=0))
        how = rnd.choice(['above', 'above', 'just-above', 'below'])
        if how == 'above':
            bad = khi + rnd.uniform(1e-4, 0.5) * (1.5 - khi) if khi < 1 else khi + rnd.uniform(1e-6, 0.5)
            p = [x for x in p if x < bad] + [bad]; l = l[:len(p) - 1] + [l[-1] * 1.01]
        elif how == 'just-above':
            bad = float(np.nextafter(khi, 2.0)) if rnd.random() < 0.5 else khi * (1 + 1e-9)
            p = [x for x in p if x < khi] + [bad]; l = l[:len(p) - 1] + [l[-1]]
        else:
            bad = -rnd.choice([1e-12, 1e-6, 1e-3])
            p = [bad] + p; l = [0.0] + l
        direct = rnd.random() < 0.4
        cases.append(dict(kind='refusal', path=path, shipped=(path == kernels[0]), p=[float(x) for x in p], l=[float(x) for x in l], w=[float(v) for v in w],
                          lo=None, hi=None, order=ci % 4, weights='-', scale=0, grid=how, limits='none', direct=direct, bad=bad))
    # ---- the other size boundary: a user kernel with as many pore widths as the smoothing spline has samples (the default `n` of
    # math_utilities.bspline, read from its signature), and one fewer / one more (thorough) x every spline order. Own generator.
    import inspect
    from pygaps.utilities import math_utilities as _mu
    n_s = inspect.signature(_mu.bspline).parameters['n'].default
    rs = random.Random(seed * 7919 + 13)
    if isinstance(n_s, int) and 5 < n_s <= 400:
        for m in ((n_s, n_s - 1, n_s + 1) if tier == 'thorough' else (n_s,)):
            path = write_user_kernel(rs, os.path.join(udir, 'small'), 0, name='samples_%d_s%d_%s.csv' % (m, seed, tier), m=m, npz=rs.randint(12, 20))
            keys, widths, k, klo, khi = load(path)
            fk, fp, ft = read_csv_plain(path)
            for order in (0, 1, 2, 3):
                p = sorted(rs.sample(fp, rs.randint(max(3, len(fp) - 4), len(fp))))
                pat, scale, w = gen_weights(rs, len(keys))
                l = (kernel_matrix_text(path, p) * w[:, None]).sum(axis=0)
                if float(np.abs(l).max()) > 20.0:            # keep the loadings in the usual mmol/g range (C18-F1 is about hundreds of mmol/g)
                    f_ = 20.0 / float(np.abs(l).max()); w = w * f_; l = l * f_
                cases.append(dict(kind='fit', path=path, shipped=False, p=p, l=[float(v) for v in l], w=[float(v) for v in w], lo=None, hi=None,
                                  order=order, weights=pat, scale=scale, grid='%d-widths/file-nodes' % m, limits='none', direct=(order % 2 == 1), by_name=False,
                                  text_nodes=True))
    for ci in range(6 if tier == 'thorough' else 2):
        path = kernels[0]
        keys, widths, k, klo, khi = load(path)
        kind, p = gen_grid(rnd, klo, khi, float(k[keys[0]].x[1]), 8)
        l = list(np.linspace(0.1, 2, len(p)))
        cases.append(dict(kind='narrow', path=path, shipped=True, p=p, l=l, w=[], lo=0.5 * (p[2] + p[3]), hi=0.5 * (p[4] + p[5]) if ci % 2 else p[5],
                          order=0, weights='-', scale=0, grid=kind, limits='both', direct=False))
    return cases


def window_idx(c):
    """indices of the points the property text calls inside the limits, and of those strictly outside [lo, hi]"""
    p = c['p']
    ins = [i for i, x in enumerate(p) if (c['lo'] is None or x >= c['lo']) and (c['hi'] is None or x < c['hi'])]
    out = [i for i, x in enumerate(p) if (c['lo'] is not None and x < c['lo']) or (c['hi'] is not None and x > c['hi'])]
    return ins, out


# ------------------------------------------------------------------ Coq term of one case
def ql(xs):
    return '[' + '; '.join(flit(x) for x in xs) + ']'


def coq_term(c, oc, res, h, frange):
    keys, widths, k, _, _ = load(c['path'])
    klo, khi = frange[c['path']]
    ins, _ = window_idx(c) if not c.get('direct') else (list(range(len(c['p']))), [])
    tkeys = [c['p'][i] for i in ins if klo <= c['p'][i] <= khi][:80]
    KP = kernel_matrix(c['path'], tkeys) if tkeys else np.zeros((len(keys), 0))
    cols = '[' + '; '.join('(%s, %s)' % (flit(wd), ql(KP[j])) for j, wd in enumerate(widths)) + ']'
    opt = lambda v: 'None' if v is None else '(Some %s)' % flit(v)
    if h.x is None:
        solver, fun = '(Err CalculationError)', '0'
    elif not h.success:
        solver, fun = '(Err CalculationError)', '0'
    else:
        solver, fun = '(Ok %s)' % ql(h.x), flit(h.fun)
    sd, sw, sdist = h.spline if h.spline is not None else (0, [], [])
    if res is None:
        exp = '(mkImpl [] [] [] [])'
    else:
        exp = '(mkImpl %s %s %s %s)' % (ql(res['pore_widths']), ql(res['pore_distribution']), ql(res['pore_volume_cumulative']), ql(res['kernel_loading']))
    return '(run_case %s %s %s %s %s %s %s %s %d%%nat %s %s %d%%nat (%s, %s) %s)' % (
        flit(klo), flit(khi), ql(tkeys), cols, ql(c['p']), ql(c['l']), opt(c['lo']), opt(c['hi']), c['order'], solver, fun, sd, ql(sw), ql(sdist), exp)


# ------------------------------------------------------------------ classification of failing inputs (by input pattern + failed clause)
def classify(c, clause):
    if clause in ('exact-combination-not-reproduced', 'in-range-fit-refused') and c['l'] and max(abs(v) for v in c['l']) > LARGE_LOADING:
        return 'C18:large-loading-slsqp-misconverges'
    return 'C18:unclassified:%s:%s:order%d:limits-%s:%s' % (clause, 'shipped' if c['shipped'] else 'user-kernel', c['order'], c['limits'], c['weights'])


def brief(c):
    d = {k: c[k] for k in ('kind', 'path', 'p', 'l', 'w', 'lo', 'hi', 'order', 'weights', 'scale', 'grid', 'limits', 'direct')}
    d['by_name'] = bool(c.get('by_name'))
    if not c['shipped']:
        d['kernel_csv'] = open(c['path']).read()
    if c.get('scenario'):
        # the kernel files this process used BEFORE this fit (needed to reproduce: the failure may depend on them)
        d['scenario'] = c['scenario']
        stem = lambda q: os.path.splitext(os.path.basename(q))[0]
        seen, hb = set(), []
        for q, bn in c.get('history', []):
            if q == c['path'] or q in seen or (stem(q) != stem(c['path']) and q != kernel_path(SHIPPED)):
                continue
            seen.add(q)
            hb.append({'path': q, 'by_name': bn, 'csv': (None if q == kernel_path(SHIPPED) else open(q).read())})
        d['kernels_used_before'] = hb
        d['kernels_used_before_note'] = 'namesakes of the failing kernel file and the shipped kernel only; %d files were used before in the run' % len(c.get('history', []))
    return d


def run(rep, tier, seed):
    vlib.standard_proof_phase(rep, 'C18', extra_targets=EXTRA_TARGETS)
    udir = os.path.join(vlib.SCRATCH, 'c18_%d' % os.getpid())
    os.makedirs(udir, exist_ok=True)
    try:
        explore(rep, tier, seed, udir)
        if rep.broken and not rep.violations and tier != 'thorough':
            explore(rep, 'thorough', seed + 1, udir)
    finally:
        shutil.rmtree(udir, ignore_errors=True)


def explore(rep, tier, seed, udir):
    cases = gen_cases(tier, seed, udir)
    frange = {}
    for path in sorted({c['path'] for c in cases}):
        frange[path] = check_loader(rep, path)
    hist = {}
    nontrivial = set()
    terms, meta = [], []
    stats = dict(max_objective=0.0, max_abs_residual=0.0, min_distribution=0.0, fits=0, perturbation_runs=0, refusals=0)
    rnd = random.Random(seed * 7 + 1)
    results = {}
    history = []
    knots = []

    def fail(c, clause, what, extra=None):
        d = brief(c); d['clause'] = clause
        if extra:
            d.update(extra)
        if c.get('scenario'):
            what += ' [kernel %s; scenario %s: %d kernel file(s) used earlier in this process, namesakes: %s]' % (
                c['path'], c['scenario'], len(c.get('history', [])),
                sorted({q for q, _ in c.get('history', []) if q != c['path'] and os.path.splitext(os.path.basename(q))[0] == os.path.splitext(os.path.basename(c['path']))[0]}))
        rep.failure(classify(c, clause), what, d)

    import time
    t_impl = time.time()
    for ci, c in enumerate(cases):
        oc, res, h = call_psd(c)
        key = ('multi-kernel/%s/%s' % (c['scenario'], c['grid'])) if c.get('scenario') else '%s/%s/order%d/limits-%s/%s/%s' % (c['kind'], 'shipped' if c['shipped'] else 'user', c['order'], c['limits'], c['weights'], c['grid'])
        hist[key] = hist.get(key, 0) + 1
        terms.append(coq_term(c, oc, res, h, frange)); meta.append((c, oc, res))
        for lp, lk_ in h.loads:
            history.append((lp, fingerprint(lk_), ci))
        klo, khi = frange[c['path']]
        if c['kind'] == 'refusal':
            stats['refusals'] += 1
            if oc != 'CalculationError':
                fail(c, 'out-of-range-not-refused', 'pressure %r outside the kernel range [%g, %g] gave %s instead of CalculationError' % (c['bad'], klo, khi, oc))
            else:
                nontrivial.add(('refusal', c['grid'], c['shipped'], c['direct']))
            continue
        if c['kind'] == 'narrow':
            continue      # fewer than 3 points in the window: behaviour not stated by the property; model-vs-code only
        _, out = window_idx(c)
        if oc != 'Ok':
            # an exact combination on an in-range grid must be fitted (SLSQP failure would surface here as CalculationError)
            fail(c, 'in-range-fit-refused', 'in-range exact combination refused with %s' % oc)
            continue
        stats['fits'] += 1
        W, D, C, KL = res['pore_widths'], res['pore_distribution'], res['pore_volume_cumulative'], res['kernel_loading']
        # the window the implementation REPORTS (limits); the property requires that it holds only points inside the requested limits.
        # Whether a point exactly at a limit belongs to it is left open by the text (the model-vs-code comparison pins the code's choice).
        mn, mx = res['limits']
        ins = list(range(max(mn, 0), min(mx, len(c['p']) - 1) + 1))
        pw = [c['p'][i] for i in ins]; lw = np.array([c['l'][i] for i in ins])
        if any((c['lo'] is not None and x < c['lo']) or (c['hi'] is not None and x > c['hi']) for x in pw) or mn < 0 or mx >= len(c['p']):
            fail(c, 'window-holds-outside-point', 'reported limits %r include a point outside the requested limits' % (res['limits'],))
        if h.knots is not None:
            knots.append((ci, h.knots))
        # 0 every reported number is a number
        if not all(np.isfinite(v).all() for v in (W, D, C, KL)):
            fail(c, 'non-finite-output', 'non-finite values in %s (kernel of %d pore widths, spline order %d)' % (
                [nm for nm, v in (('pore_widths', W), ('pore_distribution', D), ('pore_volume_cumulative', C), ('kernel_loading', KL)) if not np.isfinite(v).all()],
                len(load(c['path'])[0]), c['order']))
            continue
        # 1 non-negative distribution
        stats['min_distribution'] = min(stats['min_distribution'], float(D.min()))
        if not (D >= -NONNEG_TOL).all() or not np.isfinite(D).all():
            fail(c, 'negative-distribution', 'pore_distribution has min %g' % D.min())
        # 2 the fitted isotherm reproduces the exact combination within the optimiser tolerance
        if len(KL) != len(pw):
            fail(c, 'fitted-isotherm-not-on-window', 'kernel_loading has %d points, %d points are inside the limits' % (len(KL), len(pw)))
        else:
            ssq = float(((KL - lw) ** 2).sum())
            stats['max_objective'] = max(stats['max_objective'], ssq)
            stats['max_abs_residual'] = max(stats['max_abs_residual'], float(np.abs(KL - lw).max()))
            if not ssq <= SSQ_TOL:
                fail(c, 'exact-combination-not-reproduced', 'sum of squared residuals %g > %g (max residual %g, max loading %g)' % (
                    ssq, SSQ_TOL, float(np.abs(KL - lw).max()), float(np.abs(lw).max())))
            else:
                stats['max_objective_accepted'] = max(stats.get('max_objective_accepted', 0.0), ssq)
        # 3 kernel-weighted sum of the reported distribution is the reported fitted isotherm (order 0: reported on the kernel widths)
        if len(W) != len(D):
            fail(c, 'widths-distribution-shape', 'pore_widths has %d entries, pore_distribution %d' % (len(W), len(D)))
            continue
        dW = np.ediff1d(W, to_begin=W[0])
        if c['order'] == 0:
            KPw = kernel_matrix_text(c['path'], pw) if c.get('text_nodes') else kernel_matrix(c['path'], pw)
            if len(D) != KPw.shape[0] or len(KL) != KPw.shape[1] or not np.allclose((KPw * (D * dW)[:, None]).sum(axis=0), KL, rtol=REL, atol=1e-12):
                fail(c, 'fitted-isotherm-not-kernel-sum', 'kernel_loading != kernel applied to pore_distribution*dw')
        # 4 cumulative: non-decreasing, running integral of the reported distribution
        if len(C) != len(D) or len(W) != len(D) or not np.allclose(C, np.cumsum(D * dW), rtol=REL, atol=1e-14):
            fail(c, 'cumulative-not-running-integral', 'pore_volume_cumulative != cumsum(pore_distribution*dw)')
        if (np.diff(C) < -NONNEG_TOL).any():
            fail(c, 'cumulative-decreasing', 'pore_volume_cumulative decreases by %g' % float(-np.diff(C).min()))
        # 5 points outside the limits do not matter: (a) moved and re-loaded, (b) removed
        if out:
            below = [i for i in out if c['lo'] is not None and c['p'][i] < c['lo']]
            above = [i for i in out if c['hi'] is not None and c['p'][i] > c['hi']]
            p2, l2 = list(c['p']), list(c['l'])
            if below:
                newp = sorted({float('%.8g' % rnd.uniform(max(klo, 1e-9), c['lo'])) for _ in range(4 * len(below))} - {c['lo']})
                newp = [x for x in newp if klo < x < c['lo']][:len(below)]
                if len(newp) == len(below):
                    for i, x in zip(below, newp):
                        p2[i] = x
            if above:
                newp = sorted({float('%.8g' % rnd.uniform(c['hi'], khi)) for _ in range(4 * len(above))})
                newp = [x for x in newp if c['hi'] < x <= khi][:len(above)]
                if len(newp) == len(above):
                    for i, x in zip(above, newp):
                        p2[i] = x
            for i in out:
                l2[i] = c['l'][i] * rnd.uniform(0.1, 4) + rnd.uniform(0, 2) * (1 + abs(c['l'][i]))
            keep = [i for i in range(len(c['p'])) if i not in out]
            for label, (pp, ll) in (('moved', (p2, l2)), ('removed', ([c['p'][i] for i in keep], [c['l'][i] for i in keep]))):
                oc2, res2, _ = call_psd(c, pp, ll)
                stats['perturbation_runs'] += 1
                same = oc2 == 'Ok' and all(len(res2[k]) == len(res[k]) and np.allclose(res2[k], res[k], rtol=1e-10, atol=1e-14)
                                           for k in ('pore_widths', 'pore_distribution', 'pore_volume_cumulative', 'kernel_loading'))
                if same and label == 'moved' and res2['limits'] != res['limits']:
                    same = False
                if not same:
                    fail(c, 'outside-points-influence', 'points outside the limits %s: result changed (%s)' % (label, oc2),
                         {'perturbed_p': pp, 'perturbed_l': ll})
            nontrivial.add(('window', ci))
        # 5b points outside the limits that no kernel could describe (above the kernel range, above saturation p/p0 > 1, below the
        # first kernel pressure) do not matter either: the isotherm WITH such points + limits == the isotherm without them
        if not c.get('direct') and (c['hi'] is not None or (c['lo'] is not None and klo > 0)) and (tier == 'thorough' or stats.get('beyond_range_runs', 0) < 16):
            keep = [i for i in range(len(c['p'])) if i not in out]
            rb = random.Random(seed * 1009 + ci)
            pp, ll = [c['p'][i] for i in keep], [c['l'][i] for i in keep]
            added = []
            if c['hi'] is not None:
                kinds = rb.sample(['above-kernel-range', 'over-saturation', 'far-above'], rb.randint(1, 3))
                xs = set()
                for kd in kinds:
                    if kd == 'above-kernel-range' and khi < 1:
                        xs.add(float('%.8g' % rb.uniform(khi + 1e-6 * (1 - khi), 1.0)))
                    elif kd == 'over-saturation':
                        xs.add(float('%.8g' % (1 + 10 ** rb.uniform(-5, -2))))
                    else:
                        xs.add(float('%.8g' % rb.uniform(max(1.0, khi) * 1.011, 3.0)))
                xs = sorted(x for x in xs if x > khi and x > pp[-1] and x > c['hi'])
                top = max(ll) if ll else 1.0
                for j, x in enumerate(xs):
                    pp.append(x); ll.append(top * (1 + 0.01 * (j + 1)) + 1e-3 * (j + 1))
                added += xs
            if c['lo'] is not None and klo > 0:
                xs = sorted({float('%.8g' % (klo * 10 ** rb.uniform(-3, -0.01))) for _ in range(rb.randint(1, 2))})
                xs = [x for x in xs if 0 < x < klo and x < pp[0] and x < c['lo']]
                pp = xs + pp; ll = [min(ll) * 0.5 * (j + 1) / (len(xs) + 1) for j in range(len(xs))] + ll
                added += xs
            if added:
                oc2, res2, _ = call_psd(c, pp, ll)
                stats['perturbation_runs'] += 1
                stats['beyond_range_runs'] = stats.get('beyond_range_runs', 0) + 1
                same = oc2 == 'Ok' and all(len(res2[k]) == len(res[k]) and np.allclose(res2[k], res[k], rtol=1e-10, atol=1e-14)
                                           for k in ('pore_widths', 'pore_distribution', 'pore_volume_cumulative', 'kernel_loading'))
                if not same:
                    fail(c, 'outside-points-influence', 'points %r outside the requested limits (%r, %r) and outside what the kernel covers [%g, %g] added: '
                         'result changed (%s)' % (added, c['lo'], c['hi'], klo, khi, oc2), {'perturbed_p': pp, 'perturbed_l': ll})
                else:
                    nontrivial.add(('window-beyond-range', ci))
        # 6 several kernel files in one process: a byte-identical copy under another name gives the same result
        results[ci] = res
        if c.get('twin_of') is not None:
            j = next((i for i in range(ci) if cases[i]['path'] == c['twin_of'] and i in results), None)
            if j is not None and not all(len(results[j][k]) == len(res[k]) and np.allclose(results[j][k], res[k], rtol=1e-10, atol=1e-14)
                                         for k in ('pore_widths', 'pore_distribution', 'pore_volume_cumulative', 'kernel_loading')):
                fail(c, 'same-content-kernel-different-result', 'kernel file %s is a byte copy of %s but the same isotherm is fitted differently' % (c['path'], c['twin_of']))
        if c.get('scenario'):
            nontrivial.add(('multi-kernel', c['scenario'], ci))
            stats['multi_kernel_fits'] = stats.get('multi_kernel_fits', 0) + 1
        nontrivial.add(('fit', c['shipped'], c['order'], c['limits'], c['weights'], ci))

    # ---- cache coherence: after this history of kernel files, the kernel the implementation returns for every path is still the
    # parse of THAT file (model: Charact/KernelCache.v, cache_coherent)
    for path in sorted({c['path'] for c in cases}):
        check_loader(rep, path, stateful=True)
    # the cache model executed inside Coq on the history of _load_kernel calls of this exploration: the kernel handed out at step i
    # (identified by its content) must be the one the model returns = the parse of the i-th requested file
    if history:
        paths = sorted({lp for lp, _, _ in history})
        fp_of = {lp: fingerprint(load(lp)[2]) for lp in paths}
        ids = {}
        for lp in paths:
            ids.setdefault(fp_of[lp], len(ids))
        seen = [ids.get(f, -1) for _, f, _ in history]
        hdr = ('From Coq Require Import ZArith List String.\nFrom PG Require Import Charact.KernelCache.\nImport ListNotations. Open Scope string_scope.\n'
               'Definition hist_ok (files : list (string * Z)) (hist : list string) (seen : list Z) : list Z :=\n'
               '  let parse := fun p => match find (fun x => String.eqb (fst x) p) files with Some x => snd x | None => (-1)%Z end in\n'
               '  map (fun ab => if Z.eqb (fst ab) (snd ab) then 1%Z else 0%Z) (combine (path_cache_run parse hist) seen).\n')
        qs = lambda t: '"%s"' % t.replace('"', '""')
        term = '(hist_ok [%s] [%s] [%s])' % ('; '.join('(%s, %d%%Z)' % (qs(lp), ids[fp_of[lp]]) for lp in paths),
                                            '; '.join(qs(lp) for lp, _, _ in history), '; '.join('(%d)%%Z' % v for v in seen))
        try:
            okl = vlib.run_coq_cases('c18h', hdr, 'fun x : list Z => x', [term], per_file=1, nested=True)[0]
            nbad = 0
            for (lp, _, ci), ok1 in zip(history, okl):
                if ok1 != 1 and nbad < 3:
                    nbad += 1
                    rep.broken_obligation('correspondence:kernel-cache-model-vs-implementation',
                                          {'step': history.index((lp, _, ci)), 'requested': lp, 'what': 'the kernel handed to the fit is not the content of the requested file '
                                           '(model Charact/KernelCache.v: path-keyed cache returns parse(path) after any history)',
                                           'kernel_files_requested_before': [q for q, _, _ in history[:history.index((lp, _, ci))]][-6:]})
            if len(okl) != len(history):
                rep.broken_obligation('correspondence:kernel-cache-model-vs-implementation', 'history length %d, model answered %d' % (len(history), len(okl)))
        except RuntimeError as e:
            rep.broken_obligation('correspondence:kernel-cache-model-evaluation', str(e)[-600:])
        rep.cov['kernel_cache_history'] = {'load_calls': len(history), 'distinct_files': len(paths), 'distinct_contents': len(ids)}
    # ---- the GENERATED integer bookkeeping of bspline (Gen/BsplineGen.v) executed inside Coq on every recorded bspline call of degree > 0:
    # the degree and the knot vector scipy's splev received, and the end of the sampled parameter range, must be the generated ones
    if knots:
        hdr = ('From Coq Require Import ZArith List.\nFrom PG Require Import Charact.BsplineLib Gen.BsplineGen.\nImport ListNotations. Open Scope Z_scope.\n'
               'Fixpoint zl_eqb (a b : list Z) : bool := match a, b with [] , [] => true | x :: r, y :: q => Z.eqb x y && zl_eqb r q | _, _ => false end.\n'
               'Definition knots_ok (count d k rend : Z) (kv : list Z) : list Z :=\n'
               '  let k\' := bspline_open_degree count d in\n'
               '  [if Z.eqb k\' k then 1 else 0; if zl_eqb (bspline_open_knots count k\') kv then 1 else 0; if Z.eqb (bspline_open_range_end count k\') rend then 1 else 0].\n')
        kterms, kown = [], []
        for ci, (cnt, d, kv, k, r0, r1) in knots:
            if kv is None or r1 is None or r1 != int(r1) or r0 != 0.0:
                rep.broken_obligation('correspondence:generated-bspline-bookkeeping-vs-implementation',
                                      {'kernel_widths': cnt, 'order': d, 'what': 'splev did not receive an integer knot vector / a range starting at 0', 'got': [kv, k, r0, r1]})
                continue
            kterms.append('(knots_ok %d %d %d %d [%s])' % (cnt, d, k, int(r1), '; '.join('(%d)' % v for v in kv))); kown.append((ci, cnt, d, kv, k, r1))
        try:
            kres = vlib.run_coq_cases('c18k', hdr, 'fun x : list Z => x', kterms, per_file=400, nested=True) if kterms else []
            nb = 0
            for (ci, cnt, d, kv, k, r1), z in zip(kown, kres):
                if list(z) != [1, 1, 1] and nb < 3:
                    nb += 1
                    rep.broken_obligation('correspondence:generated-bspline-bookkeeping-vs-implementation',
                                          {'kernel_widths': cnt, 'order_requested': d, 'degree_passed_to_splev': k, 'knots_passed_to_splev': kv, 'range_end': r1,
                                           'generated model agrees on [degree, knots, range end]': list(z)})
        except RuntimeError as e:
            rep.broken_obligation('correspondence:generated-bspline-bookkeeping-evaluation', str(e)[-600:])
        rep.cov['bspline_bookkeeping'] = {'bspline_calls_compared': len(kterms),
                                          'distinct (widths, order)': len({(cnt, d) for _, (cnt, d, *_r) in knots})}
    # ---- the model inside Coq on the recorded oracle answers
    model = None
    t_coq = time.time()
    try:
        model = vlib.run_coq_cases('c18m', HEADER, 'fun x : list Z => x', terms, per_file=max(1, min(4, len(terms) // vlib.NCPU + 1)), nested=True)
    except RuntimeError as e:
        rep.broken_obligation('correspondence:Kernel-model-evaluation', str(e)[-800:])
    rep.cov['phase_wall_s'] = {'implementation_and_oracle_s': round(t_coq - t_impl, 1), 'coq_model_s': round(time.time() - t_coq, 1)}
    ndis = 0
    if model is not None:
        for (c, oc, res), mz in zip(meta, model):
            moc = vlib.EXN[mz[0]] if 0 <= mz[0] < len(vlib.EXN) else '?'
            if oc == 'Ok':
                ok = moc == 'Ok' and (mz[1], mz[2]) == tuple(res['limits']) and all(v == 1 for v in mz[3:8])
            else:
                ok = moc == oc
            if not ok:
                ndis += 1
                if ndis <= 5:
                    rep.broken_obligation('correspondence:Kernel-model-vs-implementation',
                                          {'case': brief(c), 'implementation': [oc, None if res is None else list(res['limits'])],
                                           'model [outcome, min, max, widths, distribution, cumulative, kernel_loading, objective agree]': [moc] + list(mz[1:])})
    rep.cov['evaluations'] = rep.cov.get('evaluations', 0) + len(cases) + stats['perturbation_runs']
    rep.cov['distinct_nontrivial'] = len(nontrivial)
    rep.cov['rule'] = ('one evaluation = one call of psd_dft / psd_dft_kernel_fit on the implementation (main runs + 2 perturbed runs per case with points '
                       'outside the limits + 1 run with added points beyond the kernel range / above saturation / below the first kernel pressure, outside the limits; quick tier: first 16 such cases). non-trivial = distinct fit cases (exact non-negative combination, fitted Ok and all certificate clauses '
                       'checked) + distinct window cases with at least one outside point perturbed + distinct refusal patterns (how, kernel, entry point)')
    rep.cov['input_distribution'] = dict(sorted(hist.items()))
    rep.cov['generator'] = ('random.Random(seed): kernel = shipped 77-width file (70 %) or a generated user csv (4-10 widths, 8-20 pressures), plus user kernels with 1-4 widths and with as many widths as math_utilities.bspline has samples (n=100; thorough: 99, 101) x spline orders 0-3; weights pattern in '
                            '{one, few(2-6), band(3-15 contiguous), half, dense} x scale {0.003,0.03,0.3,3} (20 % log-uniform over 4 decades); grid of 10-40 (quick) / '
                            '10-60 (thorough) strictly increasing pressures, log / linear / mixed, inside (0, kernel max], sometimes below the first file pressure '
                            'and sometimes ending exactly at the kernel maximum; limits none/lo/hi/both, 25 % exactly at a data point; spline order = index mod 4; '
                            'isotherm = weights applied to the kernel isotherms evaluated through the implementation\'s own _load_kernel interpolators')
    rep.cov['tolerance'] = {'non_negativity': NONNEG_TOL, 'objective_sum_of_squares_max': SSQ_TOL,
                            'objective_note': 'SLSQP ftol=1e-4 (absolute, on the objective); measured on the unchanged tree over 2400 exact combinations: 2377 <= 1.59e-2, 23 >= 2e5 (finding C18-F1, loadings > 600 mmol/g), none between; bound = 500 x ftol',
                            'identities_rel': REL, 'model_vs_implementation_rel': 1e-9, 'measured_this_run': stats}
    rep.cov['correspondence'] = {'cases': len(terms), 'disagreements': ndis,
                                 'what': 'psd_dft QNum (Charact/Kernel.v) executed by vm_compute on the recorded interpolator values / SLSQP result.x, result.fun / bspline '
                                         'output vs the implementation: outcome class, limits, pore_widths, pore_distribution, pore_volume_cumulative, kernel_loading, '
                                         'objective value; _load_kernel vs the csv text (zero row, nodes)'}
    rep.cov['samples'] += [{'case': {k: (v if not isinstance(v, list) else v[:4]) for k, v in brief(cases[i]).items() if k != 'kernel_csv'}, 'outcome': meta[i][1]}
                           for i in (0, len(cases) // 2, len(cases) - 1)]
    rep.cov['trusted_base'] += ['oracle: scipy.optimize.minimize(method=SLSQP, bounds (0,None)) - premise: len(x) = number of kernel columns, x >= 0; convergence validated only',
                                'oracle: scipy.interpolate.interp1d(kind=cubic) - premise: ValueError outside [x0, xn], a value inside; values validated only through self-consistency',
                                'oracle: math_utilities.bspline / scipy.interpolate.splev for degree > 0 - no contract assumed; non-negativity after smoothing validated only',
                                'numpy.searchsorted modelled as the number of leading elements < v (ascending pressures)',
                                'harness hooks: psd_kernel.optimize / psd_kernel.bspline / psd_kernel._load_kernel replaced by recording wrappers in the harness process; the harness reads "the kernel of file X" with an EMPTY kernel cache (module attribute _LOADED swapped for the call) or from the file text',
                                'carrier: theorems over RNum, execution over QNum']
    rep.assumptions += ['un-modelled runtime behaviour: SLSQP convergence (reproduction of exact combinations is validated: objective <= 5e-2 on every generated case; SLSQP reporting success far from the minimum for loadings of hundreds of mmol/g is the recorded finding C18-F1)',
                        'un-modelled: B-spline smoothing for orders 1-3 (non-negativity and monotone cumulative after smoothing are validated on the outputs, not proved)',
                        'un-modelled: cubic interpolation inside the kernel range (synthetic isotherms are built through the same interpolators)',
                        'pressures ascending (adsorption branch); IEEE rounding excluded (1e-9 relative)',
                        'points exactly equal to the upper limit are excluded by the code (searchsorted left); the oracle perturbs only points strictly outside [lo, hi]']


def replay(d):
    import logging
    logging.disable(logging.CRITICAL)
    r = d['replay']
    c = dict(r)
    c['shipped'] = 'kernel_csv' not in r
    if 'kernel_csv' in r and not r.get('kernels_used_before'):
        udir = os.path.join(vlib.SCRATCH, 'c18_replay_%d' % os.getpid())
        os.makedirs(udir, exist_ok=True)
        c['path'] = os.path.join(udir, 'k.csv')
        open(c['path'], 'w').write(r['kernel_csv'])
    if r.get('kernels_used_before'):
        # several kernel files in one process: recreate the files (same file names, separate directories as in the run) and use them first
        udir = os.path.join(vlib.SCRATCH, 'c18_replay_%d' % os.getpid())
        dirs = {}
        def place(orig, text):
            dd = dirs.setdefault(os.path.dirname(orig), os.path.join(udir, 'd%d' % len(dirs)))
            os.makedirs(dd, exist_ok=True)
            q = os.path.join(dd, os.path.basename(orig))
            open(q, 'w').write(text)
            return q
        for hst in r['kernels_used_before']:
            q = kernel_path(SHIPPED) if hst['csv'] is None else place(hst['path'], hst['csv'])
            keys, _, k, _, khi = load(q)
            pp = list(np.linspace(khi / 20, khi, 12))
            ll = list(k[keys[0]](np.asarray(pp)))
            oc0, _, _ = call_psd(dict(path=q, by_name=hst['by_name'], p=pp, l=ll, lo=None, hi=None, order=0, direct=False))
            print('used before:', q, '->', oc0)
        if 'kernel_csv' in r:
            c['path'] = place(r['path'], r['kernel_csv'])
    print('clause:', r.get('clause'), '| kernel:', c['path'], '| order', c['order'], '| limits', c['lo'], c['hi'])
    oc, res, h = call_psd(c)
    print('outcome:', oc)
    if res is not None:
        lw = np.array(c['l'][max(res['limits'][0], 0):res['limits'][1] + 1])
        print('limits', res['limits'], 'min distribution %g' % res['pore_distribution'].min(), 'cumulative monotone', bool((np.diff(res['pore_volume_cumulative']) >= -1e-12).all()))
        if len(lw) == len(res['kernel_loading']):
            print('sum of squared residuals %g' % float(((res['kernel_loading'] - lw) ** 2).sum()))
        if c['order'] == 0:
            pw = c['p'][max(res['limits'][0], 0):res['limits'][1] + 1]
            KPw = kernel_matrix(c['path'], pw)          # the kernel of the file that was passed (read with an empty cache)
            W, D = res['pore_widths'], res['pore_distribution']
            same = len(D) == KPw.shape[0] and len(res['kernel_loading']) == KPw.shape[1] and bool(
                np.allclose((KPw * (D * np.ediff1d(W, to_begin=W[0]))[:, None]).sum(axis=0), res['kernel_loading'], rtol=REL, atol=1e-12))
            print('kernel_loading is the sum of the kernel isotherms of THIS file weighted by the reported distribution:', same,
                  '(%d reported widths, the file has %d columns)' % (len(W), KPw.shape[0]))
    if 'perturbed_p' in r:
        oc2, res2, _ = call_psd(c, r['perturbed_p'], r['perturbed_l'])
        print('perturbed outcome:', oc2, None if res2 is None else float(np.abs(res2['pore_distribution'] - res['pore_distribution']).max()) if len(res2['pore_distribution']) == len(res['pore_distribution']) else 'shape differs')
    if r.get('kernels_used_before'):
        shutil.rmtree(os.path.join(vlib.SCRATCH, 'c18_replay_%d' % os.getpid()), ignore_errors=True)
    elif 'kernel_csv' in r:
        shutil.rmtree(os.path.dirname(c['path']), ignore_errors=True)
    return 1
