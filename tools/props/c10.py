"""C10 - isotherm model equations are mutually inverse, monotonic and physically bounded.

proof phase   : Props/C10.v over the definitions GENERATED on every run from loading()/pressure() of the 16 classes in
                /repo/src/pygaps/modelling (Gen/FormulasGen.v, tools/py2v_formulas.py), proofs in coq/Models/*.v
translator    : (i) the translator's IR evaluated in binary64 vs the real methods on random in-bounds points,
validation      (ii) `interval` goals inside Coq: |generated real expression - implementation's float| <= tol,
                (iii) numerically inverted methods: the returned root substituted back into the generated formula
oracle/search : on the implementation: pressure(loading(p)) == p and loading(pressure(n)) == n for Python floats, numpy scalars,
                0-d and 1-d arrays incl. the zero point; loading(0) == 0, non-negative, non-decreasing, below saturation, Henry slope
                on grids; ModelIsotherm.loading_at/pressure_at == unit conversions around the bare model
"""
import math
import random

import numpy as np

import vlib
import formulas_lib as fl
from formulas_lib import SPECS

MANIFEST = dict(
    text="Machine-checked (Coq 8.16, Coquelicot) theorems over the real-valued definitions GENERATED on every run from the loading()/pressure() "
         "methods and param_default_bounds of the 16 model classes: for the closed-form pairs (Henry, Langmuir, DSLangmuir, BET, GAB, Quadratic, "
         "Freundlich, Toth, DR, DA) pressure(loading p) = p for ALL parameters in the declared bounds (degenerate points excluded explicitly and "
         "stated as refuted lemmas: BET C = N, GAB C = 1, Quadratic Kb = 0) and ALL pressures of the validity range, with every denominator / "
         "sqrt / log / power side condition PROVED (no reliance on Coq's totalised /0, ln); loading(0) = 0, non-negativity, monotonicity, "
         "saturation bounds and the Henry slope as a derivative at 0; for the numerically inverted models strict monotonicity => the root a solver "
         "returns is THE inverse (solver success is an oracle). The converse identity loading(pressure n) = n is full for the algebraically "
         "simple pairs and stated on the image of the validity range (`_partial`) for the quadratic-formula models. The generated formulas are tied "
         "to the running code by binary64 re-evaluation of the translator's IR and by coq-interval enclosures against the implementation's outputs; "
         "the implementation itself is searched for failing inputs (round trips with scalars / 0-d / 1-d arrays incl. zero, grids, ModelIsotherm wrappers).",
    note="Trusted: Coq kernel; Reals/Coquelicot axioms; translator tools/py2v_formulas.py (validated by IR re-evaluation and interval goals); numpy "
         "broadcasting = pointwise application of the scalar formula; IEEE rounding excluded (tolerances in evidence); scipy.optimize.root/minimize are "
         "oracles (a reported success is certified by substituting the root back); Virial/VST monotone range is a hypothesis.",
    technique="Coq proof over a model regenerated from source (real analysis: field/nra/auto_derive/MVT); interval-arithmetic correspondence; randomized search on the implementation")

KINDS = ['pyfloat', 'npfloat', '0d', '1d1', '1dN']
DEGENERATE = {   # interior points of the declared bounds where the quadratic formula's leading coefficient vanishes
    'BET': ('C10:BET-pressure-C-equals-N', lambda r: dict(n_m=fl.r3(r.uniform(1, 10)), C=0.5, N=0.5)),
    'GAB': ('C10:GAB-pressure-C-equals-1', lambda r: dict(n_m=fl.r3(r.uniform(1, 10)), C=1.0, K=fl.r3(r.uniform(0.1, 0.9)))),
    'Quadratic': ('C10:Quadratic-pressure-Kb-equals-0', lambda r: dict(n_m=fl.r3(r.uniform(1, 10)), Ka=fl.r3(r.uniform(0.1, 5)), Kb=0.0)),
}


def is_degenerate(name, params):
    return (name == 'BET' and params['C'] == params['N']) or (name == 'GAB' and params['C'] == 1) or (name == 'Quadratic' and params['Kb'] == 0)


def as_kind(xs, kind):
    if kind == 'pyfloat': return float(xs[0])
    if kind == 'npfloat': return np.float64(xs[0])
    if kind == '0d': return np.array(float(xs[0]))
    if kind == '1d1': return np.array([float(xs[0])])
    return np.array([float(x) for x in xs])


def flat(y):
    return [float(v) for v in np.ravel(np.asarray(y, dtype=float))]


def points(rnd, lo, hi, n, logscale=True):
    if logscale:
        return [math.exp(rnd.uniform(math.log(lo), math.log(hi))) for _ in range(n)]
    return [rnd.uniform(lo, hi) for _ in range(n)]


def classify(ir, name, params, attrs, method, kind, x, exc, what, origin=None, result=None):
    """tag from the failing INPUT pattern. `ir` may be None / empty (translator refused the source): only the nan-guard tag needs it"""
    cls = (ir or {}).get(name)
    # C10-F6 in all its guises: Virial.loading (Nelder-Mead started at the pressure value) reports success at a NEGATIVE loading
    if name == 'Virial' and exc is None and ((method == 'loading' and result is not None and result < 0) or (method == 'pressure' and what == 'roundtrip' and x < 0)):
        return 'C10:Virial-loading-start-far-from-root'
    if cls is not None and exc == 'ValueError' and cls['methods'][method]['kind'] == 'fun' and cls['methods'][method].get('nan_guard') \
            and kind in ('pyfloat', 'npfloat', '0d') and fl.nan_branch_hit(cls, method, params, attrs, float(x)):
        return 'C10:nan_to_num-copy-False-on-scalar'     # C10-F1, fixed by c2b035c: listed under "fixed", so this is a VIOLATION again
    # C10-F8: the VST pressure equation has further pre-images OUTSIDE [0, n_m]; the root finder may land on one
    if name in ('WVST', 'FHVST') and method == 'loading' and exc is None and what in ('roundtrip', 'root-certificate'):
        return 'C10:VST-loading-root-finder-reports-success-at-a-wrong-root'
    if name == 'Virial' and method == 'loading' and kind == '1dN' and exc == 'ValueError':
        return 'C10:Virial-loading-array-input'
    if name == 'Virial' and method == 'loading' and exc is None and origin and x > 3 * origin:
        # Nelder-Mead is started AT the pressure value; far above the root it walks to negative loadings where the residual is flat
        return 'C10:Virial-loading-start-far-from-root'
    if method == 'pressure' and is_degenerate(name, params) and exc is None and what == 'roundtrip':
        return DEGENERATE[name][0]
    return 'C10:unclassified:%s:%s:%s:%s:%s' % (name, method, kind, exc or 'value', what)


def run(rep, tier, seed):
    vlib.standard_proof_phase(rep, 'C10', extra_targets=['Models/EvalTac.vo'])
    explore(rep, tier, seed)
    if rep.broken and not rep.violations and tier != 'thorough':
        explore(rep, 'thorough', seed + 1)


def explore(rep, tier, seed):
    import warnings
    warnings.filterwarnings('ignore')
    np.seterr(all='ignore')
    from pygaps.utilities.exceptions import CalculationError
    rnd = random.Random(seed)
    try:
        ir = fl.load_ir()
    except Exception as e:  # noqa  (translator refuses the source: already recorded as broken by the proof phase)
        rep.broken_obligation('translator:py2v_formulas(IR)', str(e)[-600:])
        ir = None
    thorough = tier == 'thorough'
    n_param = 40 if thorough else 8
    n_val = 200 if thorough else 60
    n_goal = 40 if thorough else 6
    evals = 0
    nontrivial = set()
    hist = {}
    goals = []
    val_dis = 0
    cert_n = cert_bad = 0
    solver_refused = 0
    samples = []

    def bump(k):
        hist[k] = hist.get(k, 0) + 1

    # ------------------------------------------------------------ (i)+(ii)+(iii) translator validation
    if ir is not None:
        missing = sorted(set(SPECS) ^ set(ir))
        if missing:
            rep.broken_obligation('model-table', 'models of the harness and of the source differ: %r' % missing)
        for name in sorted(ir):
            if name not in SPECS:
                continue
            cls, sp = ir[name], SPECS[name]
            for method in ('loading', 'pressure'):
                mk = cls['methods'][method]
                regs = sorted(sp.regimes)
                for i in range(n_val):
                    # the first iterations walk through the parameter regimes (both signs of the quadratic's leading coefficient ...)
                    params, attrs = fl.sample_case(name, rnd, regs[i % len(regs)] if i < 2 * len(regs) else None)
                    m = fl.make_model(name, params, attrs)
                    explicit_is_loading = cls['calculates'] == 'loading'
                    # a point of the validity range, in the argument space of `method`
                    if explicit_is_loading:
                        lo, hi = sp.prange(params)
                        p = fl.r3(points(rnd, lo, hi, 1)[0])
                        x = p if method == 'loading' else float(np.ravel(m.loading(p))[0])
                    else:
                        lo, hi = sp.nrange(params)
                        n = fl.r3(points(rnd, lo, hi, 1, logscale=False)[0])
                        x = n if method == 'pressure' else float(np.ravel(m.pressure(n))[0])
                    if not (x == x and 0 < x < 1e300):
                        continue
                    evals += 1
                    if mk['kind'] == 'fun':
                        try:
                            impl = float(np.ravel(getattr(m, method)(x))[0])
                        except Exception as e:  # noqa
                            continue
                        mine = fl.ir_call(cls, method, params, attrs, x)
                        bump('validate:%s' % method)
                        if not (impl == impl) or not vlib.close(impl, mine, rtol=1e-11, atol=1e-300):
                            val_dis += 1
                            if val_dis <= 5:
                                rep.broken_obligation('translator-validation:%s.%s' % (name, method),
                                                      {'params': params, 'attrs': attrs, 'x': x, 'implementation': impl, 'generated formula (binary64)': mine})
                        elif i < n_goal:
                            goals.append(('%s.%s %r %r x=%r -> %r' % (name, method, params, attrs, x, impl), fl.formula_goal(cls, method, params, attrs, x, impl)))
                    elif mk['kind'] == 'root' and sp.monotone(params):
                        try:
                            root = float(np.ravel(getattr(m, method)(x))[0])
                        except CalculationError:
                            solver_refused += 1
                            continue
                        except Exception:  # noqa  (judged by the oracle below)
                            continue
                        back = fl.ir_call(cls, mk['of'], params, attrs, root)
                        cert_n += 1
                        bump('certificate:%s' % method)
                        if not vlib.close(x, back, rtol=max(sp.inv_rtol, 1e-6) * 10, atol=1e-12):
                            cert_bad += 1
                            if cert_bad <= 5:
                                origin = n if (not explicit_is_loading and method == 'loading') else None
                                rep.failure(classify(ir, name, params, attrs, method, 'pyfloat', x, None, 'root-certificate', origin, result=root),
                                            '%s.%s(%r) reported success with %r but %s(root) = %r' % (name, method, x, root, mk['of'], back),
                                            {'model': name, 'params': params, 'attrs': attrs, 'method': method, 'kind': 'pyfloat', 'x': [x]})
        n_ok, failed = (0, [])
        if goals:
            try:
                n_ok, failed = fl.run_goals('c10i', goals)
            except Exception as e:  # noqa
                rep.broken_obligation('correspondence:interval-goals', str(e)[-600:])
        for label, msg in failed[:5]:
            rep.broken_obligation('correspondence:interval-goal', {'case': label, 'coq': msg})
        rep.cov['correspondence'] = {'ir_binary64_points': sum(v for k, v in hist.items() if k.startswith('validate')), 'ir_disagreements': val_dis,
                                     'interval_goals': len(goals), 'interval_goals_failed': len(failed), 'tolerance_interval': 'rel 1e-9 + abs 1e-12',
                                     'tolerance_ir': 'rel 1e-11', 'root_certificates': cert_n, 'root_certificates_failed': cert_bad,
                                     'solver_refusals_skipped': solver_refused}

    # ------------------------------------------------------------ property oracle on the implementation
    def judge_roundtrip(name, params, attrs, m, first, second, xs, kind, rtol, first_name, second_name):
        """second(first(x)) == x on the given input kind. Returns nothing; records failures."""
        nonlocal evals
        arg = as_kind(xs, kind)
        evals += 1
        replay = {'model': name, 'params': params, 'attrs': attrs, 'method': second_name, 'kind': kind, 'x': [float(v) for v in xs], 'first': first_name}
        try:
            y = first(arg)
        except CalculationError:
            return
        except Exception as e:  # noqa
            tag = classify(ir, name, params, attrs, first_name, kind, xs[0], type(e).__name__, 'exception')
            rep.failure(tag, '%s.%s(%r) [%s] raised %s: %s' % (name, first_name, arg, kind, type(e).__name__, str(e)[:80]), replay)
            return
        try:
            back = second(y)
        except CalculationError:
            return
        except Exception as e:  # noqa
            yv = flat(y)
            tag = classify(ir, name, params, attrs, second_name, kind, yv[0], type(e).__name__, 'exception')
            rep.failure(tag, '%s.%s(%r) [%s] raised %s: %s' % (name, second_name, y, kind, type(e).__name__, str(e)[:80].replace('\n', ' ')), replay)
            return
        bv = flat(back)
        used = xs if kind == '1dN' else xs[:1]
        # where the first function is undefined at x (nan/inf: outside the model's validity range) the element is not judged
        yv0 = flat(y)
        # ... and where it underflows to exactly 0 for x != 0 (binary64 underflow of exp(-large): the information is gone; the value
        # itself is still validated against the generated formula in the translator-validation part)
        finite = [i for i in range(min(len(yv0), len(used))) if yv0[i] == yv0[i] and abs(yv0[i]) != float('inf') and not (yv0[i] == 0 and used[i] != 0)]
        if len(yv0) == len(used) and len(bv) == len(used) and len(finite) < len(used):
            if not finite:
                return
            bv = [bv[i] for i in finite]
            used = [used[i] for i in finite]
        ok = len(bv) == len(used) and all((b == b) and abs(b - x) <= rtol * abs(x) + 1e-12 * (1 if x else 0) + (1e-9 if x == 0 else 0) for b, x in zip(bv, used))
        bump('roundtrip:%s:%s' % (kind, 'ok' if ok else 'FAIL'))
        if ok:
            if any(x != 0 for x in used):
                nontrivial.add((name, tuple(sorted(params.items())), second_name, kind))
        else:
            worst = max(range(len(used)), key=lambda i: abs(bv[i] - used[i]) if i < len(bv) and bv[i] == bv[i] else 1e300) if len(bv) == len(used) else 0
            tag = classify(ir, name, params, attrs, second_name, kind, flat(y)[worst if kind == '1dN' else 0], None, 'roundtrip',
                           used[worst], result=(bv[worst] if worst < len(bv) else None))
            rep.failure(tag, '%s: %s(%s(x)) != x for x=%r [%s]: got %r (params %r)' % (name, second_name, first_name, used, kind, bv, params), replay)

    names = sorted(SPECS)
    for name in names:
        sp = SPECS[name]
        cases = fl.stratified_cases(name, rnd, n_param, 2 if thorough else 1)
        if name in DEGENERATE:
            cases += [(DEGENERATE[name][1](rnd), {}) for _ in range(2)]
        for params, attrs in cases:
            m = fl.make_model(name, params, attrs)
            explicit_loading = m.calculates == 'loading'
            mono = sp.monotone(params)
            if explicit_loading:
                lo, hi = sp.prange(params)
                xs = [fl.r3(v) for v in points(rnd, lo, hi, 4)]
                fwd, inv, fn, inn = m.loading, m.pressure, 'loading', 'pressure'
            else:
                lo, hi = sp.nrange(params)
                xs = [fl.r3(v) for v in points(rnd, lo, hi, 4, logscale=False)]
                fwd, inv, fn, inn = m.pressure, m.loading, 'pressure', 'loading'
            grid = np.array(sorted(points(rnd, lo, hi, 40, logscale=explicit_loading)))
            try:
                g = np.asarray(fwd(grid), dtype=float)
            except Exception as e:  # noqa
                rep.failure('C10:unclassified:%s:%s:grid-exception' % (name, fn), '%s.%s(grid) raised %r' % (name, fn, e),
                            {'model': name, 'params': params, 'attrs': attrs, 'method': fn, 'kind': '1dN', 'x': [float(v) for v in grid[:5]]})
                continue
            evals += 1
            observed_mono = bool(np.all(np.diff(g) > 0))
            rp = {'model': name, 'params': params, 'attrs': attrs, 'method': fn, 'kind': '1dN', 'x': [float(v) for v in grid]}
            scale = float(np.max(np.abs(g))) or 1.0
            # ---- grid clauses (explicit function)
            if not np.all(np.isfinite(g)) or np.any(g < -1e-12 * scale):
                rep.failure('C10:TemkinApprox-negative-loading-theta-above-4' if (name == 'TemkinApprox' and params['tht'] > 4 and np.all(np.isfinite(g)))
                            else 'C10:unclassified:%s:negative-or-nan' % name, '%s.%s is negative / not finite inside the validity range (params %r)' % (name, fn, params), rp)
            if mono and name != 'WVST' and np.any(np.diff(g) < -1e-10 * scale):
                i = int(np.argmin(np.diff(g)))
                rep.failure('C10:unclassified:%s:not-monotone' % name, '%s.%s decreases between %r and %r (params %r)' % (name, fn, grid[i], grid[i + 1], params), rp)
            if sp.sat is not None and explicit_loading and np.any(g > sp.sat(params) * (1 + 1e-12)):
                rep.failure('C10:unclassified:%s:above-saturation' % name, '%s.loading exceeds the saturation capacity %r (params %r)' % (name, sp.sat(params), params), rp)
            if sp.zero_defined:
                # the zero point of BOTH functions, for every input kind (Python float, numpy scalar, 0-d, 1-d), at every parameter vector
                # incl. the degenerate ones (theorems *_zero, *_zero_point, *_zero_roundtrip: 0 |-> 0 in both directions)
                for zf, zn in ((fwd, fn), (inv, inn)):
                    for kind in ('pyfloat', 'npfloat', '0d', '1d1', '1dN'):
                        zin = [0.0, 0.0] if kind == '1dN' else [0.0]
                        if name == 'Virial' and zn == 'loading' and kind == '1dN':
                            continue        # C10-F5 (array input of the Nelder-Mead inverse) is exercised by the round trips
                        try:
                            z = flat(zf(as_kind(zin, kind)))
                            if not (len(z) == len(zin) and all(abs(v) <= (1e-300 if zn == fn else 1e-9) for v in z)):
                                rep.failure('C10:unclassified:%s:zero-point' % name, '%s.%s(0) [%s] = %r (params %r)' % (name, zn, kind, z, params),
                                            {'model': name, 'params': params, 'attrs': attrs, 'method': zn, 'kind': kind, 'x': zin})
                            else:
                                bump('zero:%s:%s' % (zn, kind))
                        except CalculationError:
                            bump('zero:%s:solver-refused' % zn)
                        except Exception as e:  # noqa
                            rep.failure(classify(ir, name, params, attrs, zn, kind, 0.0, type(e).__name__, 'zero-point-exception'),
                                        '%s.%s(0) [%s] raised %s: %s (params %r)' % (name, zn, kind, type(e).__name__, str(e)[:80], params),
                                        {'model': name, 'params': params, 'attrs': attrs, 'method': zn, 'kind': kind, 'x': zin})
                        evals += 1
            if sp.henry is not None:
                eps = lo * 1e-30
                try:
                    v = flat(fwd(eps))[0] / eps
                    want = sp.henry(params) if explicit_loading else 1.0 / sp.henry(params)
                    evals += 1
                    if not abs(v - want) <= 1e-6 * abs(want):
                        rep.failure('C10:unclassified:%s:henry-slope' % name, '%s.%s(eps)/eps = %r, Henry slope %r (params %r)' % (name, fn, v, want, params),
                                    {'model': name, 'params': params, 'attrs': attrs, 'method': fn, 'kind': 'pyfloat', 'x': [eps]})
                except Exception:  # noqa
                    pass
            # ---- round trips (only where the explicit function is invertible on the range)
            if not (mono and (observed_mono or name not in ('WVST', 'FHVST', 'Virial'))):
                bump('roundtrip-skipped:not-monotone-parameters')
                continue
            for kind in KINDS:
                pts = ([0.0] + xs) if (kind == '1dN' and sp.zero_defined) else xs
                judge_roundtrip(name, params, attrs, m, fwd, inv, pts, kind, sp.inv_rtol, fn, inn)
                # the converse: start in the range of the explicit function (values rounded, so they are not exact images)
                ys = [fl.r3(v) for v in flat(fwd(np.array(xs)))]
                if all(v == v and v > 0 for v in ys) and (sp.sat is None or not explicit_loading or all(v < sp.sat(params) for v in ys)) \
                        and not is_degenerate(name, params):
                    judge_roundtrip(name, params, attrs, m, inv, fwd, ([0.0] + ys) if (kind == '1dN' and sp.zero_defined) else ys, kind,
                                    max(sp.inv_rtol, 1e-7), inn, fn)
            # the zero point alone, every scalar kind
            if sp.zero_defined:
                for kind in ('pyfloat', 'npfloat', '0d', '1d1'):
                    judge_roundtrip(name, params, attrs, m, fwd, inv, [0.0], kind, sp.inv_rtol, fn, inn)
                    judge_roundtrip(name, params, attrs, m, inv, fwd, [0.0], kind, sp.inv_rtol, inn, fn)
            if len(samples) < 6 and rnd.random() < 0.1:
                samples.append({'model': name, 'params': params, 'attrs': attrs, 'x': xs, fn: flat(fwd(np.array(xs)))})
            # ---- the equations are evaluated with the object's CURRENT parameters: same object re-parametrised, asked again at arguments it has
            # already answered == a freshly built model (memoised values, quantities derived once from the parameters ... would show here)
            params2, attrs2 = fl.sample_case(name, rnd)
            m.params.update(params2)
            for k_, v_ in attrs2.items():
                setattr(m, k_, v_)
            fresh = fl.make_model(name, params2, attrs2)
            for meth in (fn, inn):
                arg = xs[0] if meth == fn else ys[0] if ys else xs[0]
                outs = []
                for obj in (m, fresh):
                    try:
                        outs.append(('Ok', flat(getattr(obj, meth)(arg))))
                    except Exception as e:  # noqa
                        outs.append((type(e).__name__, None))
                evals += 1
                same = outs[0][0] == outs[1][0] and (outs[0][1] is None or (len(outs[0][1]) == len(outs[1][1]) and all(
                    (a != a and b != b) or a == b or abs(a - b) <= 1e-12 * max(abs(a), abs(b)) for a, b in zip(outs[0][1], outs[1][1]))))
                bump('reparametrised:%s' % ('ok' if same else 'FAIL'))
                if not same:
                    rep.failure('C10:unclassified:%s:%s:stale-after-parameter-change' % (name, meth),
                                '%s.%s(%r) on an object re-parametrised from %r to %r gives %r, a fresh model %r' % (name, meth, arg, params, params2, outs[0], outs[1]),
                                {'model': name, 'params': params2, 'attrs': attrs2, 'method': meth, 'kind': 'pyfloat', 'x': [arg], 'old_params': params})
    # ------------------------------------------------------------ ModelIsotherm wrappers
    wrap_n = wrap_bad = 0
    try:
        wrap_n, wrap_bad = model_isotherm_wrappers(rep, rnd, 12 if thorough else 4)
    except Exception as e:  # noqa
        rep.broken_obligation('oracle:ModelIsotherm-wrappers', repr(e)[-400:])
    evals += wrap_n
    rep.cov['evaluations'] += evals
    rep.cov['distinct_nontrivial'] = len(nontrivial)
    rep.cov['rule'] = ('per model: random parameter vectors strictly inside param_default_bounds (4 significant digits) plus the interior degenerate points '
                       'BET C=N, GAB C=1, Quadratic Kb=0; per vector 4 points of the validity range + zero, as Python float / numpy.float64 / 0-d / 1-d(1) / 1-d(N) '
                       'input, both composition orders; a 40-point grid for sign, monotonicity, saturation; loading(0); Henry slope at 1e-30 of the range. '
                       'non-trivial = distinct (model, parameters, inverted method, input kind) whose round trip at non-zero points agreed')
    rep.cov['input_distribution'] = dict(sorted(hist.items()))
    rep.cov['model_isotherm_wrapper_cases'] = wrap_n
    rep.cov['samples'] += samples[:6]
    rep.cov['trusted_base'] += ['translator tools/py2v_formulas.py (validated: IR in binary64 vs the methods, interval goals vs the methods)',
                                'oracle: scipy.optimize.root / minimize (success flag certified by substitution)',
                                'numpy broadcasting = pointwise application; IEEE rounding excluded']
    rep.assumptions += ['parameters strictly inside the declared bounds (a closed bound at which the equation degenerates, e.g. K = 0, is excluded)',
                        'round trips of Quadratic / TemkinApprox / Virial / VST judged only for parameters where the defining equation is monotone',
                        'tolerances: closed forms 1e-8..1e-7 relative, numerical inverses 1e-6 (Virial: Nelder-Mead, 2e-3)']


def _wrapper_env():
    import pygaps
    from props import c02
    key = 'verif_ads_c10'
    if key not in c02._ADS:
        c02._ADS[key] = pygaps.Adsorbate(key, store=True, **c02.ADS_FULL)
    return key, pygaps.Material('verif_mat_c10', **c02.MAT_FULL)


def wrapper_case(name, params, attrs, units, xs):
    """(got, want): ModelIsotherm.loading_at / pressure_at with unit arguments vs the C01 converters around the bare model"""
    import pygaps
    from pygaps.units.converter_mode import c_pressure, c_loading, c_material
    key, mat = _wrapper_env()
    pu, lb, lu, mb, mu = units
    m = fl.make_model(name, params, attrs)
    iso = pygaps.ModelIsotherm(model=m, material=mat, adsorbate=key, temperature=77.355, pressure_mode='absolute', pressure_unit='bar',
                               loading_basis='molar', loading_unit='mmol', material_basis='mass', material_unit='g')
    ads = iso.adsorbate
    xs = np.array(xs)
    if m.calculates == 'loading':
        p_user = c_pressure(xs, 'absolute', 'absolute', 'bar', pu, ads, 77.355)
        got = iso.loading_at(p_user, pressure_unit=pu, loading_basis=lb, loading_unit=lu, material_basis=mb, material_unit=mu)
        # the loading is first expressed per REQUESTED material quantity; a fraction / percent is then formed with that material basis / unit
        want = c_loading(c_material(m.loading(c_pressure(p_user, 'absolute', 'absolute', pu, 'bar', ads, 77.355)), 'mass', mb, 'g', mu, mat),
                         'molar', lb, 'mmol', lu, ads, 77.355, mb, mu)
        rel = iso.loading_at(p_user / c_pressure(ads.saturation_pressure(77.355), 'absolute', 'absolute', 'Pa', pu, ads, 77.355), pressure_mode='relative')
        ok = np.allclose(got, want, rtol=1e-10, atol=0) and np.allclose(rel, m.loading(xs), rtol=1e-9, atol=0)
    else:
        got = iso.pressure_at(xs, pressure_unit=pu)
        want = c_pressure(m.pressure(xs), 'absolute', 'absolute', 'bar', pu, ads, 77.355)
        ok = np.allclose(got, want, rtol=1e-10, atol=0)
    return bool(ok), got, want


def model_isotherm_wrappers(rep, rnd, n):
    """ModelIsotherm.loading_at / pressure_at == the C01 converters around the bare model, for requested pressure units, loading bases / units
    (incl. the dimensionless fraction / percent) TOGETHER with a requested material basis / unit"""
    count = bad = 0
    for name in ('Langmuir', 'BET', 'Toth', 'DSLangmuir', 'Virial', 'TemkinApprox'):
        for _ in range(n):
            params, attrs = fl.sample_case(name, rnd)
            sp = SPECS[name]
            pu = rnd.choice(['kPa', 'torr', 'bar'])
            mb, mu = rnd.choice([('mass', 'kg'), ('mass', 'g'), ('mass', 'mg'), ('volume', 'cm3'), ('volume', 'm3'), ('molar', 'mol')])
            lb, lu = rnd.choice([('molar', 'mol'), ('molar', 'mmol'), ('mass', 'mg'), ('percent', None), ('fraction', None), ('percent', None)])
            if fl.make_model(name, params, attrs).calculates == 'loading':
                lo, hi = sp.prange(params)
                xs = sorted(points(rnd, lo, hi, 3))
            else:
                lo, hi = sp.nrange(params)
                xs = sorted(points(rnd, lo, hi, 3, logscale=False))
            count += 1
            units = [pu, lb, lu, mb, mu]
            ok, got, want = wrapper_case(name, params, attrs, units, xs)
            if not ok:
                bad += 1
                rep.failure('C10:unclassified:ModelIsotherm-wrapper:%s' % name,
                            'ModelIsotherm accessor with units %r differs from the conversions around the bare %s model: %r vs %r' % (units, name, got, want),
                            {'model': name, 'params': params, 'attrs': attrs, 'method': 'wrapper', 'kind': '1dN', 'x': [float(v) for v in xs], 'units': units})
    return count, bad


def replay(d):
    import warnings
    warnings.filterwarnings('ignore')
    np.seterr(all='ignore')
    r = d['replay']
    m = fl.make_model(r['model'], r['params'], r.get('attrs'))
    print('model', r['model'], r['params'], r.get('attrs'))
    if r['method'] == 'wrapper':
        ok, got, want = wrapper_case(r['model'], r['params'], r.get('attrs') or {}, r['units'], r['x'])
        print('ModelIsotherm (stored: bar, mmol/g) accessor with [pressure unit, loading basis, loading unit, material basis, material unit] =', r['units'])
        print('  at', r['x'], '->', got, '\n  conversions around the bare model:', want, '\n  agree:', ok)
        return 1
    arg = as_kind(r['x'], r['kind']) if r['x'] else None
    first = r.get('first')
    try:
        if first:
            y = getattr(m, first)(arg)
            print('%s(%r) = %r' % (first, arg, y))
            print('%s(%r) = %r   (expected %r)' % (r['method'], y, getattr(m, r['method'])(y), arg))
        else:
            print('%s(%r) = %r' % (r['method'], arg, getattr(m, r['method'])(arg)))
    except Exception as e:  # noqa
        print('raised %s: %s' % (type(e).__name__, str(e)[:200]))
    return 1
