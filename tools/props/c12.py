"""C12 - Model fitting is self-consistent (PARTIAL proof + validation on the implementation's actual fits).

proof phase   : Props/C12.v - hand-written model of the logic around scipy.optimize.least_squares (Fit/FitLogic.v: initial_guess_bounds
                clamp, residual / reported error, branch selection, best-of-list) and its theorems (Fit/FitTheorems.v); the optimiser is a premise
correspondence: the model (QNum, vm_compute) against the implementation on every generated fit: clamp of random guesses, rmse^2 from the
                captured opt_res.fun and the ROWS handed to the optimiser (the model computes max - min itself; the reported value must be >= 0),
                bound / start vectors captured from the least_squares call vs the model's by-name construction from the dictionaries in the
                user's key order (permuted keys, subsets -> KeyError), the rows handed to the optimiser vs the requested branch, position of the model
                returned by ModelIsotherm.guess among the single fits (least_squares is observed by proxying base_model.optimize)
oracle/search : on the implementation: contract of least_squares (fun == residual at x, bounds), error identity recomputed through the model's own
                loading()/pressure() on increasing / decreasing / shuffled rows and on both branches of two-branch DataFrames, and for the documented
                optional arguments (optimization_params incl. the robust losses soft_l1 / huber / cauchy / arctan with f_scale, solver settings, param_guess,
                param_bounds, verbose) on strongly noisy increasing data with outliers through all four entry points; exact-data recovery
                for the well-posed models in every row order, best-of-list vs single fits (smallest reported AND smallest independently recomputed
                error), bounds by name for permuted / partial dictionaries with binding caps (same outcome as in param_names order), branch
                clause (perturbing the other branch changes nothing; on tables whose branches are NOT monotone in pressure and whose marks are given by the user,
                through every fitting entry point: the optimiser receives exactly the rows of the requested branch, model.pressure_range / loading_range span
                them, the reported error is the rms on them, the parameters equal those of a fit of exactly these rows given as arrays and are a least-squares
                solution on them by an independent re-optimisation), PointIsotherm.from_modelisotherm lies on the model / keeps metadata /
                re-fits to the same curve, pressure / loading / temperature unit covariance of the fitted curve
"""
import math
import random
import warnings

import numpy as np
import pandas as pd

import vlib
from vlib import fme

MANIFEST = dict(
    text="PARTIAL proof. Machine-checked (Coq 8.16) for a hand-written model of the decision logic around scipy.optimize.least_squares: "
         "initial_guess_bounds puts every start value inside its bounds; whenever fit succeeds the parameters respect the bounds in force and the "
         "reported error IS sqrt(sum r_i^2 / N)/range of the residual of the fitted model at the returned parameters (premise: least_squares returns "
         "fun = residual(x) with x inside the bounds) - also for the expression GENERATED from the source line `self.rmse = ...` of IsothermBaseModel.fit / "
         "Virial.fit together with the generated residual and range (tools/py2v_fitglue.py, fail-closed: every other statement of fit is compared with the text "
         "the translator knows): whatever cost / optimality the optimiser reports and whatever optimization_params (robust losses) it was given, the value "
         "assigned is the documented error of the residual vector; ModelIsotherm.guess returns a candidate that converged, with the smallest reported error, the "
         "earliest among ties (induction over any attempt list); bounds and start values are dictionaries keyed by parameter NAME: the vector handed to "
         "the optimiser at position i is the entry of param_names[i] for ANY key order of the user's dictionary (induction over the name list and over "
         "Permutation), a missing name is a KeyError, so every fitted parameter lies within the bounds given for ITS name; the normalising range is "
         "max - min of the fitted rows, non-negative and invariant under any re-ordering of the rows (desorption branch, unsorted arrays), hence the "
         "reported error is non-negative and order independent; only rows of the requested branch reach the optimiser - a point is fitted iff it is a row MARKED with that branch, "
         "the two branches partition the table, whatever the pressure sequence (the branch guess - rows after the first pressure maximum - is modelled too, executed beside the code for "
         "tables without marks, and shown not to be idempotent on a non-monotone branch: marks must travel with the rows); for data generated exactly "
         "from the model the cost at the generator is 0 = global minimum and every zero-cost parameter vector reproduces the data; a change of "
         "loading or pressure unit maps (bound-constrained) least-squares minimisers to minimisers and changes the curve only by that unit change, for "
         "every family whose parameter vector absorbs the factor entry-wise - shown for the formulas GENERATED from pygaps/modelling (Henry, Langmuir, "
         "DS/TSLangmuir, BET, GAB, Quadratic, TemkinApprox, Toth; loading unit also Freundlich, DR, DA). NOT proved (numerical optimisation is not modelled): that least_squares converges to the global minimum - recovery of the "
         "generator, re-fitting of generated point isotherms and unit covariance of the FITTED curve for all ten well-posed models are validated on "
         "the implementation on every run, as are the least_squares contract and the error identity (recomputed through the model's own "
         "loading()/pressure()). The model is tied to the code by executing it (QNum) beside the implementation.",
    note="Trusted: Coq kernel; Reals axioms as printed by Print Assumptions; hand-written model Fit/FitLogic.v (validated by correspondence: clamp, "
         "rmse^2, branch rows, best-of-list position); scipy.optimize.least_squares is an oracle with a validated contract; model formulas are C10's; "
         "pandas row filtering modelled as list filter; theorems over RNum, execution over QNum.",
    technique="Coq proof of optimiser glue + consequences of the optimiser contract; validation of fits on the implementation; model/code correspondence")

HEADER = """From Coq Require Import String.
From Coq Require Import QArith ZArith List.
From PG Require Import Lib.Num Lib.Py Lib.Show Fit.FitLogic Fit.FitShow Fit.FitBranch.
Import ListNotations. Open Scope Z_scope.
"""
ORDERS = ['inc', 'dec', 'shuf']
WELL_POSED = ['Henry', 'Langmuir', 'DSLangmuir', 'BET', 'Freundlich', 'DR', 'DA', 'TemkinApprox', 'Toth', 'JensenSeaton']
ALL_MODELS = ["Henry", "Langmuir", "DSLangmuir", "TSLangmuir", "BET", "GAB", "Freundlich", "DA", "DR", "Quadratic", "TemkinApprox",
              "Virial", "Toth", "JensenSeaton", "FHVST", "WVST"]
RELATIVE = ('BET', 'DR', 'DA', 'GAB')
T_K = 77.355


def lu(rnd, a, b):
    return math.exp(rnd.uniform(math.log(a), math.log(b)))


def rparams(rnd, k):
    K = lambda: lu(rnd, 0.05, 20)
    M = lambda: lu(rnd, 0.5, 10)
    return {'Henry': lambda: {'K': K()}, 'Langmuir': lambda: {'K': K(), 'n_m': M()},
            'DSLangmuir': lambda: {'K1': lu(rnd, 0.05, 2), 'n_m1': M(), 'K2': lu(rnd, 5, 50), 'n_m2': M()},
            'BET': lambda: {'n_m': M(), 'C': lu(rnd, 5, 300), 'N': rnd.uniform(0.3, 1.0)},
            'Freundlich': lambda: {'K': M(), 'm': rnd.uniform(1.2, 5)},
            'DR': lambda: {'n_m': M(), 'e': lu(rnd, 2000, 15000)},
            'DA': lambda: {'n_m': M(), 'e': lu(rnd, 2000, 15000), 'm': rnd.uniform(1.2, 2.8)},
            'TemkinApprox': lambda: {'n_m': M(), 'K': K(), 'tht': rnd.uniform(0.0, 0.5)},
            'Toth': lambda: {'n_m': M(), 'K': K(), 't': rnd.uniform(0.3, 1.5)},
            'JensenSeaton': lambda: {'K': lu(rnd, 0.5, 20), 'a': M(), 'b': lu(rnd, 0.01, 1), 'c': rnd.uniform(0.3, 2)}}[k]()


def grid(rnd, k):
    n = rnd.randint(8, 60)
    if k in RELATIVE:
        return np.linspace(0.01, 0.6 if k in ('BET', 'GAB') else 0.9, n), 'relative'
    return (np.geomspace(0.01, 10, n) if rnd.random() < 0.5 else np.linspace(0.05, 10, n)), 'absolute'


def exact_curve(k, params, p):
    from pygaps.modelling import get_isotherm_model
    m = get_isotherm_model(k, parameters=params)
    m.__init_parameters__({'temperature': T_K})
    return np.array(m.loading(p), dtype=float)


def reorder(rnd, how, *arrs):
    """the same rows in another order: 'inc' as generated, 'dec' from high to low pressure (a desorption run), 'shuf' unsorted"""
    n = len(arrs[0])
    idx = list(range(n))
    if how == 'dec':
        idx.reverse()
    elif how == 'shuf':
        while n > 2 and idx in (list(range(n)), list(range(n))[::-1]):
            rnd.shuffle(idx)
    return [np.asarray(a)[idx] for a in arrs]


def actual_rmse(m, p, l):
    """the error as documented, recomputed independently through the model's own methods at its current parameters:
    sqrt(sum r^2 / n) / (max - min of the fitted quantity); Virial: its own linearised residual, no range. -> (value|None, range, n, residual|None)"""
    p = np.asarray(p, dtype=float); l = np.asarray(l, dtype=float)
    with np.errstate(all='ignore'), warnings.catch_warnings():
        warnings.simplefilter('ignore')
        try:
            if m.name == 'Virial':
                keep = np.logical_and(p > 0, l > 0)
                pp, ll = p[keep], l[keep]
                r = m.params['C'] * ll**3 + m.params['B'] * ll**2 + m.params['A'] * ll - np.log(m.params['K']) - np.log(pp / ll)
                return float(np.sqrt(np.sum(r**2) / len(ll))), 1.0, len(ll), r
            if m.calculates == 'loading':
                r = np.array(m.loading(p), dtype=float) - l
                rng = float(max(l) - min(l))
            else:
                r = np.array([float(m.pressure(v)) for v in l], dtype=float) - p
                rng = float(max(p) - min(p))
            return float(np.sqrt(np.sum(r**2) / len(l)) / rng), rng, len(l), r
        except Exception:  # noqa
            return None, 0.0, len(l), None


class OptProxy:
    """stands in for base_model.optimize: records every least_squares call (arguments and result)"""

    def __init__(self, real):
        self._real = real
        self.calls = []

    def __getattr__(self, k):
        return getattr(self._real, k)

    def least_squares(self, **kw):
        rec = dict(kw=kw, res=None, exc=None)
        self.calls.append(rec)
        try:
            rec['res'] = self._real.least_squares(**kw)
        except Exception as e:  # noqa
            rec['exc'] = e
            raise
        return rec['res']


def call(fn, *a, **kw):
    with warnings.catch_warnings():
        warnings.simplefilter('ignore')
        with np.errstate(all='ignore'):
            try:
                return 'Ok', fn(*a, **kw)
            except Exception as e:  # noqa
                return vlib.exn_class(e), None


def zme(x):
    x = float(x)
    if x == float('inf'):
        return '(1, 1100)'
    if x == float('-inf'):
        return '((-1), 1100)'
    return '((%d), (%d))' % fme(x)


def zlist(xs):
    return '[' + '; '.join(zme(x) for x in xs) + ']'


def occode(oc):
    return vlib.EXN.index(oc) if oc in vlib.EXN else 99


def kw_iso(mode):
    return dict(material='verif_m', adsorbate='N2', temperature=T_K, pressure_mode=mode, pressure_unit='bar' if mode == 'absolute' else None,
                loading_basis='molar', loading_unit='mmol', material_basis='mass', material_unit='g')


def noisy_increasing(rnd, p, l):
    """strongly noisy increasing data with outliers: multiplicative noise of 3-25 %, 0-3 points pushed far off the curve, then made increasing again
    either by sorting the loadings or by a running maximum (an outlier then lifts every later point: a step). -> (p, l, description)"""
    sigma = rnd.choice([0.03, 0.08, 0.15, 0.25])
    l = np.asarray(l, dtype=float) * (1 + np.array([rnd.gauss(0, sigma) for _ in p]))
    n_out = rnd.choice([0, 1, 1, 2, 3])
    for j in rnd.sample(range(len(l)), n_out):
        l[j] = l[j] * rnd.choice([0.3, 0.5, 1.6, 2.5]) + rnd.choice([0.0, 0.5 * float(np.max(l))])
    how = rnd.choice(['sorted', 'running-max'])
    l = np.sort(l) if how == 'sorted' else np.maximum.accumulate(l)
    l = np.maximum(l, 1e-6)
    return np.asarray(p, dtype=float), l, 'noise %g, %d outliers, %s' % (sigma, n_out, how)


def random_optimization_params(rnd, it):
    """the documented `optimization_params` dictionary (handed to scipy.optimize.least_squares): None, a robust loss with / without f_scale,
    solver settings, or both"""
    c = it % 5
    if c == 0:
        return None
    opt = {}
    if c in (1, 2, 3):
        opt['loss'] = rnd.choice(['soft_l1', 'huber', 'cauchy', 'arctan'])
        if rnd.random() < 0.6:
            opt['f_scale'] = float(rnd.choice([0.05, 0.1, 0.3, 0.5, 1.0, 2.0]))
    if c in (3, 4):
        for key, val in rnd.sample([('ftol', 1e-10), ('xtol', 1e-10), ('gtol', 1e-10), ('max_nfev', 4000), ('method', 'dogbox'), ('x_scale', 'jac'),
                                    ('tr_solver', 'exact'), ('jac', '3-point'), ('loss', 'linear')], rnd.randint(1, 3)):
            opt.setdefault(key, val)
    return opt


def fit_with_options(entry, k, p, l, mode, opt, verbose, extra):
    """one fit through one of the documented entry points, every optional argument handed over as the user would (fresh dictionaries)"""
    import pygaps
    import pygaps.modelling as pgm
    kw = dict(model=k, optimization_params=None if opt is None else dict(opt), verbose=verbose)
    for a in ('param_guess', 'param_bounds'):
        if a in extra:
            kw[a] = dict(extra[a])
    try:
        if entry == 'init':
            return call(pygaps.ModelIsotherm, pressure=p, loading=l, **kw, **kw_iso(mode))
        if entry == 'init-frame':
            df = pd.DataFrame({'pressure': p, 'loading': l})
            return call(pygaps.ModelIsotherm, isotherm_data=df, pressure_key='pressure', loading_key='loading', **kw, **kw_iso(mode))
        piso = pygaps.PointIsotherm(pressure=list(p), loading=list(l), **kw_iso(mode))
        if entry == 'from_pointisotherm':
            return call(pygaps.ModelIsotherm.from_pointisotherm, piso, **kw)
        return call(pgm.model_iso, piso, **kw)
    finally:
        if verbose:
            close_figures()


def close_figures():
    try:
        import matplotlib.pyplot as plt
        plt.close('all')
    except Exception:  # noqa
        pass


def nonmonotone_branches(rnd, shape):
    """a measured table whose branches are NOT monotone in pressure. -> (pressure, loading, marks (0 ads / 1 des, as the user gives them),
    True when the marks coincide by construction with a split after the single pressure maximum). Adsorption rows lie on one noisy curve, desorption
    rows on a higher one (hysteresis), so that a fit of a subset or of rows of the other branch is another fit."""
    pmax = lu(rnd, 1, 10)
    up = lambda lo, hi, n: list(np.linspace(lo, hi, n))
    down = lambda hi, lo, n: list(np.linspace(hi, lo, n))
    na, nd = rnd.randint(8, 18), rnd.randint(7, 14)
    rule = False
    if shape == 'des-creep':                     # the desorption run starts below the turning point and its pressure creeps up once before falling
        s = pmax * rnd.uniform(0.86, 0.93)
        creep = [s, s * rnd.uniform(1.01, 1.04)] + ([s * 1.045] if rnd.random() < 0.4 else [])
        blocks = [(0, up(0.05 * pmax, pmax, na)), (1, creep + down(s * 0.85, 0.08 * pmax, nd))]
        rule = True
    elif shape == 'ads-overshoot':               # overshoot and relaxation at the end of the adsorption run; the user marks those rows as adsorption
        tail = [pmax * 0.97, pmax * 0.98] + ([pmax * 0.975] if rnd.random() < 0.4 else [])
        blocks = [(0, up(0.05 * pmax, pmax, na) + tail), (1, down(0.9 * pmax, 0.1 * pmax, nd))]
    elif shape == 'scan-loop':                   # a scanning loop inside the adsorption run
        blocks = [(0, up(0.05 * pmax, 0.6 * pmax, na // 2 + 2) + down(0.52 * pmax, 0.4 * pmax, 3) + up(0.45 * pmax, pmax, na // 2 + 3)),
                  (1, down(0.95 * pmax, 0.1 * pmax, nd))]
        rule = True
    elif shape == 'turning-point-marked-late':   # the first row the user marks as desorption lies ABOVE the last adsorption pressure
        blocks = [(0, up(0.05 * pmax, 0.96 * pmax, na)), (1, [pmax] + down(0.9 * pmax, 0.1 * pmax, nd))]
    elif shape == 'alternating-blocks':          # two cycles measured one after the other
        blocks = [(0, up(0.05 * pmax, 0.6 * pmax, na // 2 + 3)), (1, down(0.55 * pmax, 0.1 * pmax, nd // 2 + 3)),
                  (0, up(0.15 * pmax, pmax, na // 2 + 3)), (1, down(0.93 * pmax, 0.08 * pmax, nd // 2 + 3))]
    else:                                        # the whole table is one branch (branch='ads' / 'des'), pressure rising, dipping, relaxing
        b = rnd.choice([0, 1])
        blocks = [(b, up(0.05 * pmax, pmax, na) + [pmax * 0.95, pmax * 0.97] + down(0.9 * pmax, 0.5 * pmax, 4))]
    ka, m_ = lu(rnd, 0.3, 3) / pmax * 5, lu(rnd, 1, 8)
    kd, md = ka * rnd.uniform(1.5, 4), m_ * rnd.uniform(1.0, 1.2)
    sigma = rnd.choice([0.01, 0.02, 0.03])
    P, L, marks = [], [], []
    for b, ps in blocks:
        for p in ps:
            K, M = (ka, m_) if b == 0 else (kd, md)
            P.append(float(p)); L.append(float(M * K * p / (1 + K * p) * (1 + rnd.gauss(0, sigma)))); marks.append(b)
    return np.array(P), np.array(L), marks, rule


def branch_entries(marks, wm, rule):
    """every documented way of asking for a fit of one branch of marked data (entry/how the marks are given)"""
    e = ['frame-marks', 'from_isotherm-frame-marks', 'guess-frame-marks', 'from_pointisotherm/frame', 'from_pointisotherm/bools', 'model_iso/bools',
         'model_iso/frame', 'from_pointisotherm-list/bools', 'from_pointisotherm-list/frame', 'arrays', 'from_isotherm-arrays', 'guess-arrays']
    if len(set(marks)) == 1:
        e += ['from_pointisotherm/string', 'model_iso/string', 'from_pointisotherm-list/string']
    if rule:
        e += ['frame-nomarks', 'guess-frame-nomarks', 'from_isotherm-frame-nomarks', 'from_pointisotherm/guessed', 'model_iso/guessed', 'from_pointisotherm-list/guessed']
    return e


# row labels of the DataFrame handed to a fitting entry point ('entry@labels'): a table is not always freshly built - it may be a slice of a larger
# table, a filtered table, two tables concatenated without ignore_index, or carry names.  Rows are taken BY POSITION (the row order is the
# measurement order); the labels carry no meaning for the fit
FRAME_LABELS = ['offset', 'gaps', 'shuffled', 'strings', 'concat', 'negative', 'float']


def frame_entries(entries, turn):
    """the entries that take a DataFrame, once more with non-default row labels: every kind of labels for the entries that have to guess the branch of
    each row themselves (no marks), one kind (rotating) for the others"""
    out = []
    for j, e in enumerate(entries):
        if 'frame' not in e:
            continue
        if 'nomarks' in e:
            out += ['%s@%s' % (e, lab) for lab in FRAME_LABELS]
        else:
            out.append('%s@%s' % (e, FRAME_LABELS[(turn + j) % len(FRAME_LABELS)]))
    return out


def relabel(df, labels, nfirst):
    n = len(df)
    if labels == 'offset':                        # rows 5.. of a larger table
        idx = list(range(5, n + 5))
    elif labels == 'gaps':                        # what a filter leaves
        idx = [3 * i + (i % 2) for i in range(n)]
    elif labels == 'shuffled':                    # a table sorted by something else before
        idx = [(7 * i + 3) % n for i in range(n)] if n % 7 else [(5 * i + 3) % n for i in range(n)] if n % 5 else list(range(n - 1, -1, -1))
    elif labels == 'strings':
        idx = ['row%02d' % i for i in range(n)]
    elif labels == 'concat':                      # two tables concatenated without ignore_index: labels restart with the second block
        idx = list(range(nfirst)) + list(range(n - nfirst))
    elif labels == 'negative':
        idx = list(range(-n, 0))
    else:
        idx = [0.5 * i for i in range(n)]
    out = df.copy()
    out.index = idx
    return out


def fit_branch_entry(entry, k, P, L, marks, want):
    import pygaps
    import pygaps.modelling as pgm
    from pygaps.core.baseisotherm import BaseIsotherm
    entry, _, labels = entry.partition('@')
    head, _, how = entry.partition('/')
    cands = [k, 'Henry' if k != 'Henry' else 'Langmuir']
    kw = kw_iso('absolute')
    wm = 0 if want == 'ads' else 1
    df = pd.DataFrame({'pressure': P, 'loading': L})
    if 'nomarks' not in head and how not in ('bools', 'string', 'guessed'):
        df['branch'] = list(marks)
    if labels:
        df = relabel(df, labels, (list(marks) + [1 - marks[0]]).index(1 - marks[0]))
    sel = [j for j, m_ in enumerate(marks) if m_ == wm]
    fkw = dict(isotherm_data=df, pressure_key='pressure', loading_key='loading', branch=want)
    akw = dict(pressure=P[sel], loading=L[sel], branch=want)
    if head in ('frame-marks', 'frame-nomarks'):
        return call(pygaps.ModelIsotherm, model=k, **fkw, **kw)
    if head == 'arrays':
        return call(pygaps.ModelIsotherm, model=k, **akw, **kw)
    if head in ('guess-frame-marks', 'guess-frame-nomarks'):
        return call(pygaps.ModelIsotherm.guess, models=cands, **fkw, **kw)
    if head == 'guess-arrays':
        return call(pygaps.ModelIsotherm.guess, models=cands, **akw, **kw)
    if head in ('from_isotherm-frame-marks', 'from_isotherm-frame-nomarks'):
        return call(pygaps.ModelIsotherm.from_isotherm, BaseIsotherm(**kw), model=k, **fkw)
    if head == 'from_isotherm-arrays':
        return call(pygaps.ModelIsotherm.from_isotherm, BaseIsotherm(**kw), model=k, **akw)
    if how == 'frame':
        piso = pygaps.PointIsotherm(isotherm_data=df, pressure_key='pressure', loading_key='loading', **kw)
    elif how == 'bools':
        piso = pygaps.PointIsotherm(pressure=list(P), loading=list(L), branch=[bool(m_) for m_ in marks], **kw)
    elif how == 'string':
        piso = pygaps.PointIsotherm(pressure=list(P), loading=list(L), branch='ads' if marks[0] == 0 else 'des', **kw)
    else:
        piso = pygaps.PointIsotherm(pressure=list(P), loading=list(L), **kw)
    if head == 'from_pointisotherm':
        return call(pygaps.ModelIsotherm.from_pointisotherm, piso, branch=want, model=k)
    if head == 'model_iso':
        return call(pgm.model_iso, piso, branch=want, model=k)
    return call(pygaps.ModelIsotherm.from_pointisotherm, piso, branch=want, model=cands)


def ls_gain_on_rows(m, p, l):
    """independent least squares (scipy, not observed) on the given rows started at the parameters of the fitted model m:
    -> relative drop of the sum of squares (0 for a least-squares solution on these rows), None when not applicable"""
    import scipy.optimize as so
    from pygaps.modelling import get_isotherm_model
    if m.calculates != 'loading' or m.name == 'Virial':
        return None
    with np.errstate(all='ignore'), warnings.catch_warnings():
        warnings.simplefilter('ignore')
        try:
            m2 = get_isotherm_model(m.name)
            m2.__init_parameters__({'temperature': T_K})
            names = list(m2.param_names)

            def fun(x):
                for n, v in zip(names, x):
                    m2.params[n] = v
                return np.asarray(m2.loading(p), dtype=float) - l
            x0 = np.array([float(m.params[n]) for n in names])
            c0 = 0.5 * float(np.sum(fun(x0)**2))
            if not math.isfinite(c0) or c0 < 1e-24:
                return None
            res = so.least_squares(fun, x0, bounds=([m.param_bounds[n][0] for n in names], [m.param_bounds[n][1] for n in names]))
            return max(0.0, (c0 - float(res.cost)) / c0)
        except Exception:  # noqa
            return None


EXTRA_TARGETS = ['Fit/FitShow.vo', 'Fit/FitBranch.vo']


def run(rep, tier, seed):
    vlib.standard_proof_phase(rep, 'C12', extra_targets=EXTRA_TARGETS)
    explore(rep, tier, seed)
    if rep.broken and not rep.violations and tier != 'thorough':
        explore(rep, 'thorough', seed + 1)


def explore(rep, tier, seed):
    import pygaps.modelling.base_model as bm
    import scipy.optimize
    proxy = OptProxy(scipy.optimize)
    bm.optimize = proxy
    try:
        _explore(rep, tier, seed, proxy)
    finally:
        bm.optimize = scipy.optimize


def _explore(rep, tier, seed, proxy):
    import pygaps
    from pygaps.modelling import get_isotherm_model
    rnd = random.Random(seed)
    big = tier == 'thorough'
    terms, term_what = [], []
    hist, nontrivial = {}, set()
    stats = {'n': 0, 'worst_exact_rmse': 0.0, 'worst_exact_dev': 0.0, 'worst_contract': 0.0, 'worst_rmse_identity': 0.0}

    def note(k):
        hist[k] = hist.get(k, 0) + 1

    def fail(tag_kind, what, replay, model=None):
        tag = classify(tag_kind, replay, model)
        rep.failure(tag, what, replay)

    def check_fit(iso, p, l, rec, replay, label):
        """clauses that hold for ANY successful fit: least_squares contract, bounds, error identity; + Coq rmse term"""
        stats['n'] += 1
        m = iso.model
        res, kw = rec['res'], rec['kw']
        x = np.array(res.x, dtype=float)
        # contract of the oracle: opt_res.fun is the residual at opt_res.x; x inside the bounds handed over
        saved = dict(m.params)
        with np.errstate(all='ignore'):
            fx = np.array(kw['fun'](x, *kw['args']), dtype=float)
        for kk, vv in saved.items():
            m.params[kk] = vv
        scale = max(float(np.max(np.abs(res.fun))), 1e-300)
        cdev = float(np.max(np.abs(fx - res.fun))) / max(scale, 1e-12) if len(fx) == len(res.fun) else float('inf')
        stats['worst_contract'] = max(stats['worst_contract'], cdev if scale > 1e-9 else 0.0)
        lo, hi = np.array(kw['bounds'][0], dtype=float), np.array(kw['bounds'][1], dtype=float)
        if scale > 1e-9 and cdev > 1e-9:
            rep.broken_obligation('oracle-contract:least_squares-fun-is-residual-at-x', {'case': replay, 'deviation': cdev})
        names = list(m.params)
        vals = np.array([m.params[n] for n in names], dtype=float)
        if not np.array_equal(vals, x):
            fail('params-not-optimiser-result', '%s: parameters stored %r differ from the optimiser result %r' % (label, vals.tolist(), x.tolist()), replay, m.name)
        pb = [m.param_bounds[n] for n in names]
        if any(not (b[0] <= v <= b[1]) for b, v in zip(pb, vals)):
            fail('bounds', '%s: fitted parameters %r outside the bounds in force %r' % (label, dict(zip(names, vals.tolist())), pb), replay, m.name)
        if not (np.array_equal(lo, [b[0] for b in pb]) and np.array_equal(hi, [b[1] for b in pb])):
            fail('bounds', '%s: bounds handed to the optimiser %r differ from the bounds in force %r' % (label, [lo.tolist(), hi.tolist()], pb), replay, m.name)
        # error identity, recomputed independently through the model's own methods at the returned parameters
        expect, rng, n_used, r = actual_rmse(m, p, l)
        if r is not None and len(r) != len(res.fun):        # Virial's documented add_point option prepends a point: not generated here
            expect = None
        if math.isfinite(float(m.rmse)) and m.rmse < 0:
            fail('rmse-negative', '%s: reported rmse %r is negative (documented: rms deviation / (max - min) of the fitted data)' % (label, m.rmse), replay, m.name)
        elif expect is not None and math.isfinite(expect):
            dev = abs(m.rmse - expect) / max(abs(expect), 1e-300)
            if expect > 1e-12:
                stats['worst_rmse_identity'] = max(stats['worst_rmse_identity'], dev)
            if dev > 1e-6 and abs(m.rmse - expect) > 1e-12:
                fail('rmse-identity', '%s: reported rmse %r but the rms deviation of the fitted model from the data / (max - min) is %r' % (label, m.rmse, expect), replay, m.name)
            else:
                nontrivial.add((m.name, len(l), label))
        # Coq: the model's rmse^2 from opt_res.fun and the rows handed to the optimiser (range = max - min computed by the model, any row order)
        if math.isfinite(m.rmse):
            a = kw['args']
            if m.name == 'Virial':
                terms.append('cmp_rmse %s %d %s %s' % (zlist(res.fun), len(a[0]), zme(1.0), zme(m.rmse)))
                term_what.append(('rmse', replay))
            elif len(a) == 2 and len(a[0]) == len(a[1]) and rng > 0:
                rows = '; '.join('(%s, %s)' % (zme(u), zme(v)) for u, v in zip(a[0], a[1]))
                terms.append('cmp_rmse_data %s [%s] %s %s' % ('true' if m.calculates == 'loading' else 'false', rows, zlist(res.fun), zme(m.rmse)))
                term_what.append(('rmse', replay))

    def fit_arrays(k, p, l, mode, replay, label, **kw):
        n0 = len(proxy.calls)
        oc, iso = call(pygaps.ModelIsotherm, pressure=p, loading=l, model=k, **kw_iso(mode), **kw)
        note('%s/%s/%s' % (label, k, oc))
        if oc == 'Ok' and len(proxy.calls) > n0 and proxy.calls[-1]['res'] is not None:
            check_fit(iso, p, l, proxy.calls[-1], replay, label)
        elif oc not in ('Ok', 'CalculationError'):
            # the fit is allowed to fail with CalculationError; anything else on valid input is not a verdict about C12 clauses either
            pass
        return oc, iso

    # ---------------- A: exact data for the well-posed models
    for k in WELL_POSED:
        for it in range(40 if big else 5):
            params = rparams(rnd, k)
            p, mode = grid(rnd, k)
            order = ORDERS[it % 3]
            p, = reorder(rnd, order, p)
            l = exact_curve(k, params, p)
            replay = dict(kind='exact', model=k, params=params, p=p.tolist(), mode=mode, order=order)
            oc, iso = fit_arrays(k, p, l, mode, replay, 'exact' if order == 'inc' else 'exact-' + order)
            if oc != 'Ok':
                if order == 'inc' or oc != 'CalculationError':
                    fail('exact-fit-failed', 'fitting %s to %d points generated from %s %r raised %s' % (k, len(p), k, params, oc), replay, k)
                continue          # re-ordered rows: the default start depends on the first row; a reported non-convergence is not a wrong result
            rng = float(max(l) - min(l))
            with np.errstate(all='ignore'):
                dev = float(np.max(np.abs(np.array(iso.model.loading(p), dtype=float) - l))) / rng
            stats['worst_exact_rmse'] = max(stats['worst_exact_rmse'], float(iso.model.rmse))
            stats['worst_exact_dev'] = max(stats['worst_exact_dev'], dev)
            if not (iso.model.rmse < 1e-6 and dev < 1e-5):
                fail('exact-not-recovered', 'fitting %s to its own exact data (%d points, %r): rmse %.3g, max deviation/range %.3g, fitted %r' % (
                    k, len(p), params, iso.model.rmse, dev, {a: float(b) for a, b in iso.model.params.items()}), replay, k)
                continue
            nontrivial.add(('exact', k, len(p)))
            # ---- D: a point isotherm generated from the model lies on the model, keeps metadata and units, re-fits to the same curve
            pts = np.linspace(float(min(p)), float(max(p)), rnd.randint(8, 30))
            oc2, piso = call(pygaps.PointIsotherm.from_modelisotherm, iso, pressure_points=list(pts))
            note('from_model/%s/%s' % (k, oc2))
            if oc2 != 'Ok':
                fail('from-model-failed', 'PointIsotherm.from_modelisotherm(%s) raised %s' % (k, oc2), replay, k)
                continue
            pl = np.array(piso.loading(), dtype=float)
            on = np.array(iso.loading_at(pts), dtype=float)
            if not (np.array_equal(np.array(piso.pressure(), dtype=float), pts) and np.allclose(pl, on, rtol=1e-12, atol=0)):
                fail('from-model-not-on-model', 'points generated from the %s model do not lie on it' % k, replay, k)
            meta = ['material', 'adsorbate', 'temperature', 'pressure_mode', 'pressure_unit', 'loading_basis', 'loading_unit', 'material_basis',
                    'material_unit', 'temperature_unit']
            diff = [a for a in meta if str(getattr(piso, a)) != str(getattr(iso, a))]
            if diff:
                fail('from-model-metadata', 'point isotherm generated from a %s model changed %r' % (k, diff), replay, k)
            oc3, iso3 = call(pygaps.ModelIsotherm.from_pointisotherm, piso, model=k)
            note('refit/%s/%s' % (k, oc3))
            if oc3 == 'Ok':
                with np.errstate(all='ignore'):
                    d3 = float(np.max(np.abs(np.array(iso3.model.loading(p), dtype=float) - l))) / rng
                if d3 > 1e-5:
                    fail('refit-differs', 're-fitting the point isotherm generated from a %s model gives another curve (max deviation/range %.3g)' % (k, d3), replay, k)
                else:
                    nontrivial.add(('refit', k, len(pts)))
            elif oc3 != 'CalculationError':      # a reported non-convergence of the optimiser returns no curve: not judged
                fail('refit-failed', 're-fitting the point isotherm generated from a %s model raised %s' % (k, oc3), replay, k)

    # ---------------- B: error identity / contract / bounds on noisy increasing data, every model; user bounds and guesses
    for k in ALL_MODELS:
        for it in range(12 if big else 2):
            base = rnd.choice(['Langmuir', 'Toth', 'DSLangmuir']) if k not in RELATIVE else rnd.choice(['BET', 'DA'])
            p, mode = grid(rnd, base)
            l = exact_curve(base, rparams(rnd, base), p)
            l = np.maximum.accumulate(l * (1 + np.array([rnd.gauss(0, 0.02) for _ in p])))
            l = np.maximum(l, 1e-6)
            order = ORDERS[(it + ALL_MODELS.index(k)) % 3]
            p, l = reorder(rnd, order, p, l)
            replay = dict(kind='noisy', model=k, p=p.tolist(), l=l.tolist(), mode=mode, order=order)
            extra = {}
            if it % 2 == 1 and k in ('Langmuir', 'Toth', 'TemkinApprox', 'BET', 'Freundlich', 'DSLangmuir', 'Henry', 'DR'):
                m0 = get_isotherm_model(k)
                nm = m0.param_names[0]
                g = exact_like_guess(m0, p, l)
                if g is not None and math.isfinite(g.get(nm, float('nan'))) and g[nm] > 0:
                    extra = dict(param_bounds={n: ((g[n] * 1.5, g[n] * 4.0) if n == nm else b) for n, b in zip(m0.param_names, m0.param_default_bounds)})
                    replay['param_bounds'] = {n: list(b) for n, b in extra['param_bounds'].items()}
                    if rnd.random() < 0.5:
                        extra['param_guess'] = {n: (g[n] * 2.0 if n == nm else g[n]) for n in m0.param_names}
                        replay['param_guess'] = extra['param_guess']
            fit_arrays(k, p, l, mode, replay, 'noisy' + ('' if order == 'inc' else '-' + order) + ('-userbounds' if extra else ''), **extra)

    # ---------------- N: bounds and guesses are dictionaries keyed by parameter NAME: any key order, binding caps, subsets
    multi = [k for k in ALL_MODELS if len(get_isotherm_model(k).param_names) >= 2]
    for it in range(120 if big else 24):
        k = multi[it % len(multi)] if it < 2 * len(multi) else rnd.choice(multi)
        gen_k = k if k in WELL_POSED else ('BET' if k in RELATIVE else rnd.choice(['Langmuir', 'Toth', 'DSLangmuir']))
        p, mode = grid(rnd, gen_k)
        l = exact_curve(gen_k, rparams(rnd, gen_k), p)
        if gen_k != k:
            l = np.maximum(np.maximum.accumulate(l * (1 + np.array([rnd.gauss(0, 0.02) for _ in p]))), 1e-6)
        m0 = get_isotherm_model(k)
        names = list(m0.param_names)
        defaults = [tuple(b) for b in m0.param_default_bounds]
        g = exact_like_guess(m0, p, l)
        if g is None or not all(math.isfinite(g.get(n, float('nan'))) for n in names):
            note('named/%s/no-default-guess' % k)
            continue
        # bounds in force: some parameters capped so that the bound binds (below / above the default start), the others free or default
        bnd = {}
        for n, d in zip(names, defaults):
            c = rnd.random()
            lo_d, hi_d = float(d[0]), float(d[1])
            if c < 0.4 and g[n] > 0:
                hi = g[n] * rnd.uniform(0.3, 0.8)                      # cap below the default start value
                bnd[n] = (max(lo_d, 0.0) if math.isfinite(lo_d) else -hi, min(hi, hi_d))
            elif c < 0.6 and g[n] > 0:
                lo = g[n] * rnd.uniform(1.2, 2.0)                      # floor above it
                bnd[n] = (lo, min(lo * rnd.uniform(2, 10), hi_d)) if lo < hi_d else (lo_d, hi_d)
            elif c < 0.8:
                bnd[n] = (lo_d, hi_d)
            else:
                bnd[n] = (lo_d, hi_d if not math.isfinite(hi_d) else hi_d) if rnd.random() < 0.5 else (lo_d if math.isfinite(lo_d) else -1e6, abs(g[n]) * 50 + 1 if not math.isfinite(hi_d) else hi_d)
        if all(bnd[n] == d for n, d in zip(names, defaults)):
            n = rnd.choice(names)
            if g[n] > 0:
                bnd[n] = (bnd[n][0] if math.isfinite(bnd[n][0]) else 0.0, min(g[n] * 0.6, bnd[n][1]))
        perm = list(names)
        while perm == names:
            rnd.shuffle(perm)
        subset = it % 6 == 5
        if subset:
            perm = perm[:-1]
        user_b = {n: bnd[n] for n in perm}                                  # the user's dictionary, in the user's key order
        user_g = None
        if it % 3 == 0:
            gperm = list(names)
            rnd.shuffle(gperm)
            inside = lambda n: min(max(g[n] * rnd.uniform(0.8, 1.25), bnd[n][0]), bnd[n][1])
            user_g = {n: float(inside(n)) for n in gperm}
        replay = dict(kind='named', model=k, p=p.tolist(), l=l.tolist(), mode=mode, param_bounds={n: list(b) for n, b in user_b.items()},
                      key_order=list(user_b), param_guess=user_g)
        extra = dict(param_bounds=dict(user_b))
        if user_g:
            extra['param_guess'] = dict(user_g)
        n0 = len(proxy.calls)
        oc, iso = call(pygaps.ModelIsotherm, pressure=p, loading=l, model=k, **kw_iso(mode), **extra)
        rec = proxy.calls[-1] if len(proxy.calls) > n0 else None
        note('named%s/%s/%s' % ('-subset' if subset else '', k, oc))
        label = 'named-bounds'
        if oc == 'Ok' and rec is not None and rec['res'] is not None:
            check_fit(iso, p, l, rec, replay, label)
            bad = [n for n in user_b if not (user_b[n][0] <= float(iso.model.params[n]) <= user_b[n][1])]
            if bad:
                fail('bounds', 'fitted %s parameters %r violate the user bounds %r given for those names (dictionary written in the order %r)' % (
                    k, {n: float(iso.model.params[n]) for n in bad}, {n: user_b[n] for n in bad}, list(user_b)), replay, k)
        # the vectors handed to the optimiser, by name (observed on the captured call, whatever the outcome of the optimisation)
        if rec is not None:
            lo_v = [float(v) for v in rec['kw']['bounds'][0]]; hi_v = [float(v) for v in rec['kw']['bounds'][1]]
            x0_v = [float(v) for v in rec['kw']['x0']]
            pnames = list(get_isotherm_model(k).params)
            if not subset and (lo_v != [float(user_b[n][0]) for n in pnames] or hi_v != [float(user_b[n][1]) for n in pnames]):
                fail('bounds', 'bounds written as %r (key order %r) reached the optimiser as lower %r / upper %r for the parameters %r' % (
                    {n: user_b[n] for n in user_b}, list(user_b), lo_v, hi_v, pnames), replay, k)
        # the same dictionaries written in param_names order must give the same outcome
        if not subset:
            extra2 = dict(param_bounds={n: bnd[n] for n in names})
            if user_g:
                extra2['param_guess'] = {n: user_g[n] for n in names}
            oc2, iso2 = call(pygaps.ModelIsotherm, pressure=p, loading=l, model=k, **kw_iso(mode), **extra2)
            same = oc2 == oc and (oc != 'Ok' or (all(float(iso2.model.params[n]) == float(iso.model.params[n]) for n in names) and
                                                 (float(iso2.model.rmse) == float(iso.model.rmse) or (math.isnan(iso2.model.rmse) and math.isnan(iso.model.rmse)))))
            if not same:
                fail('bounds-key-order', 'the same bounds / guesses for %s written in the key order %r give %s %r, written in param_names order %s %r' % (
                    k, list(user_b), oc, None if oc != 'Ok' else {n: float(iso.model.params[n]) for n in names},
                    oc2, None if oc2 != 'Ok' else {n: float(iso2.model.params[n]) for n in names}), replay, k)
            elif oc == 'Ok':
                nontrivial.add(('named', k, tuple(user_b), user_g is not None))
        # Coq: model of the dictionary handling vs the captured call
        if oc in ('Ok', 'CalculationError', 'KeyError', 'ParameterError') and (rec is not None or oc in ('KeyError', 'ParameterError')):
            gd = None
            if user_g:
                gd = user_g
            elif rec is not None:
                m1 = get_isotherm_model(k, param_bounds=dict(user_b))
                gd = exact_like_guess(m1, p, l)
                if gd is None:
                    continue
            qs = lambda n: '"%s"%%string' % n
            bq = lambda b: '(%s, %s)' % (zme(b[0]), zme(b[1]))
            terms.append('cmp_named [%s] [%s] [%s] %s (%d) %s %s %s' % (
                '; '.join(qs(n) for n in names), '; '.join(bq(b) for b in defaults), '; '.join('(%s, %s)' % (qs(n), bq(b)) for n, b in user_b.items()),
                'None' if gd is None else '(Some [%s])' % '; '.join('(%s, %s)' % (qs(n), zme(v)) for n, v in gd.items()), occode(oc),
                zlist(lo_v) if rec is not None else '[]', zlist(hi_v) if rec is not None else '[]', zlist(x0_v) if rec is not None else '[]'))
            term_what.append(('named-bounds', replay))

    # ---------------- O: the documented OPTIONAL arguments of a fit (optimization_params handed to least_squares incl. the robust losses, param_guess,
    #                  param_bounds, verbose) on strongly noisy increasing data with outliers, through every entry point: the clauses that hold for ANY
    #                  successful fit (error identity at the returned parameters, bounds, least_squares contract) must hold for every combination
    rnd_o = random.Random(seed * 7919 + 12)
    try:
        import matplotlib
        matplotlib.use('Agg')
    except Exception:  # noqa
        pass
    entries = ['init', 'from_pointisotherm', 'model_iso', 'init-frame']
    n_verbose = 0
    for it in range(220 if big else 44):
        k = ALL_MODELS[it % len(ALL_MODELS)] if it < 2 * len(ALL_MODELS) else rnd_o.choice(ALL_MODELS)
        base = rnd_o.choice(['Langmuir', 'Toth', 'DSLangmuir']) if k not in RELATIVE else rnd_o.choice(['BET', 'DA'])
        p, mode = grid(rnd_o, base)
        l = exact_curve(base, rparams(rnd_o, base), p)
        p, l, shape = noisy_increasing(rnd_o, p, l)
        opt = random_optimization_params(rnd_o, it)
        m0 = get_isotherm_model(k)
        g = exact_like_guess(m0, p, l)
        extra = {}
        usable = g is not None and all(math.isfinite(g.get(n, float('nan'))) for n in m0.param_names)
        c = rnd_o.random()
        if usable and c < 0.35:          # user guess: the default start moved (inside the default bounds), keys in another order
            names_g = list(m0.param_names)
            rnd_o.shuffle(names_g)
            extra['param_guess'] = {n: float(min(max(g[n] * rnd_o.uniform(0.7, 1.4) if g[n] != 0 else rnd_o.uniform(-0.1, 0.1), m0.param_bounds[n][0]), m0.param_bounds[n][1]))
                                    for n in names_g}
        if usable and 0.25 < c < 0.6:    # user bounds: the defaults with the first positive parameter boxed around its default start
            nm = next((n for n in m0.param_names if g[n] > 0), None)
            if nm is not None:
                box = (max(g[nm] * rnd_o.uniform(0.3, 0.9), m0.param_bounds[nm][0]), min(g[nm] * rnd_o.uniform(1.1, 4.0), m0.param_bounds[nm][1]))
                if box[0] < box[1]:
                    extra['param_bounds'] = {n: (box if n == nm else tuple(b)) for n, b in zip(m0.param_names, m0.param_default_bounds)}
                    if 'param_guess' in extra:
                        extra['param_guess'][nm] = float(min(max(extra['param_guess'][nm], box[0]), box[1]))
        verbose = it % 9 == 4 and n_verbose < (12 if big else 5)
        n_verbose += verbose
        entry = entries[it % 4] if not (verbose and k == 'Virial') else 'init'
        replay = dict(kind='options', model=k, p=p.tolist(), l=l.tolist(), mode=mode, data=shape, entry=entry, optimization_params=opt, verbose=bool(verbose),
                      param_guess=extra.get('param_guess'), param_bounds={n: list(b) for n, b in extra['param_bounds'].items()} if 'param_bounds' in extra else None)
        n0 = len(proxy.calls)
        oc, iso = fit_with_options(entry, k, p, l, mode, opt, verbose, extra)
        label = 'options-' + ('default' if not opt else ('loss-' + opt['loss'] if 'loss' in opt else 'solver')) + ('-verbose' if verbose else '')
        note('%s/%s/%s/%s' % (label, entry, k, oc))
        if oc == 'Ok' and len(proxy.calls) > n0 and proxy.calls[-1]['res'] is not None:
            check_fit(iso, p, l, proxy.calls[-1], replay, label)
            if opt and 'loss' in opt:
                stats['robust_loss_fits'] = stats.get('robust_loss_fits', 0) + 1
        # a fit that raises returns no error to judge (CalculationError is the documented outcome; anything else is outside the C12 clauses)
    close_figures()

    # ---------------- C: best of a candidate list vs the single fits; rows in any order, arrays or a branch of a two-branch DataFrame
    fast = ['Henry', 'Langmuir', 'DSLangmuir', 'DR', 'Freundlich', 'Quadratic', 'BET', 'TemkinApprox', 'Toth', 'JensenSeaton', 'TSLangmuir', 'GAB', 'DA', 'Virial']
    variants = ['arrays-inc', 'frame-des', 'arrays-dec', 'arrays-shuf', 'frame-ads']
    from pygaps.modelling import _GUESS_MODELS
    for it in range(60 if big else 10):
        base = rnd.choice(['Langmuir', 'Toth', 'DSLangmuir', 'BET'])
        p, mode = grid(rnd, base)
        l = exact_curve(base, rparams(rnd, base), p)
        if rnd.random() < 0.7:
            l = np.maximum.accumulate(l * (1 + np.array([rnd.gauss(0, 0.02) for _ in p])))
        variant = variants[it % 5]
        cands = 'guess' if it % 4 == 0 else rnd.sample(fast, rnd.randint(2, 5))
        if cands != 'guess' and rnd.random() < 0.3:
            cands = cands + [cands[0]]          # a tie: the same model twice
        if variant.startswith('arrays'):
            p, l = reorder(rnd, variant[7:], p, l)
            data_kw = dict(pressure=p, loading=l)
            replay = dict(kind='guess', models=cands, p=p.tolist(), l=l.tolist(), mode=mode, variant=variant)
        else:
            # the fitted rows are one branch of a DataFrame; the other branch holds different numbers
            want = variant[6:]
            po = np.linspace(float(min(p)), float(max(p)) * 1.05, rnd.randint(5, 12))
            lo_ = exact_curve('Henry', {'K': lu(rnd, 0.1, 3)}, po)
            if want == 'des':
                p, l = reorder(rnd, 'dec', p, l)
                df = pd.DataFrame({'pressure': np.concatenate([po, p]), 'loading': np.concatenate([lo_, l])})
                marks = [0] * len(po) + [1] * len(p)
            else:
                po, lo_ = reorder(rnd, 'dec', po, lo_)
                po = po * 0.9                    # the maximum pressure stays on the adsorption branch
                df = pd.DataFrame({'pressure': np.concatenate([p, po]), 'loading': np.concatenate([l, lo_])})
                marks = [0] * len(p) + [1] * len(po)
            explicit = rnd.random() < 0.5
            if explicit:
                df['branch'] = marks
            data_kw = dict(isotherm_data=df, pressure_key='pressure', loading_key='loading', branch=want)
            replay = dict(kind='guess', models=cands, p=p.tolist(), l=l.tolist(), mode=mode, variant=variant, frame=df.to_dict('list'), branch=want)
        # every third list is fitted with the documented optimization_params (a robust loss / solver settings), the same for guess and the single fits
        opt_c = random_optimization_params(rnd_o, 1 + it % 4) if it % 3 == 2 else None
        if opt_c:
            replay['optimization_params'] = opt_c
        okw = lambda: {} if not opt_c else dict(optimization_params=dict(opt_c))
        oc, best = call(pygaps.ModelIsotherm.guess, models=cands, **data_kw, **kw_iso(mode), **okw())
        note('guess-%s%s/%s' % (variant, '-options' if opt_c else '', oc))
        names = list(_GUESS_MODELS) if cands == 'guess' else cands
        singles, actual = [], []
        for nm in names:
            n0 = len(proxy.calls)
            o1, i1 = call(pygaps.ModelIsotherm, model=nm, **data_kw, **kw_iso(mode), **okw())
            singles.append((o1, float(i1.model.rmse) if o1 == 'Ok' else None))
            actual.append(actual_rmse(i1.model, p, l)[0] if o1 == 'Ok' else None)
            if o1 == 'Ok' and len(proxy.calls) > n0 and proxy.calls[-1]['res'] is not None and (it % 2 == 1 or opt_c):
                check_fit(i1, p, l, proxy.calls[-1], dict(replay, model=nm, kind='noisy'), 'candidate-' + variant)
        if any(o not in ('Ok', 'CalculationError') for o, _ in singles):
            continue      # a candidate raised something else: guess propagates it, nothing to compare
        conv = [(j, e) for j, (o, e) in enumerate(singles) if o == 'Ok']
        if oc == 'Ok':
            pos = [j for j, e in conv if names[j] == best.model.name and e == float(best.model.rmse)]
            pos = pos[0] if pos else -1
            mn = min(e for _, e in conv) if conv else None
            if pos < 0 or float(best.model.rmse) != mn or any(e == mn for j, e in conv if j < pos):
                fail('guess-not-argmin', 'guess over %r returned %s (rmse %r) but the single fits give %r' % (names, best.model.name, best.model.rmse, list(zip(names, singles))), replay)
            else:
                # smallest REPORTED error + reported == actual  =>  no converged candidate deviates less from the data (recomputed independently)
                act = [(j, e) for j, e in enumerate(actual) if e is not None and math.isfinite(e) and singles[j][0] == 'Ok']
                mine = actual_rmse(best.model, p, l)[0]
                if act and mine is not None and math.isfinite(mine) and mine > min(e for _, e in act) * (1 + 1e-6) + 1e-12:
                    jb = min(act, key=lambda t: t[1])[0]
                    fail('guess-not-smallest-actual-error', 'guess over %r (%s) returned %s whose rms deviation / range from the data is %r, but %s deviates only %r' % (
                        names, variant, best.model.name, mine, names[jb], actual[jb]), replay)
                else:
                    nontrivial.add(('guess', tuple(names), best.model.name, variant))
        elif oc == 'CalculationError':
            pos = 0
            if conv:
                fail('guess-failed-with-converged-candidates', 'guess over %r raised CalculationError although %r converged' % (names, [names[j] for j, _ in conv]), replay)
        else:
            continue
        if all(e is None or math.isfinite(e) for _, e in singles):
            terms.append('cmp_best [%s] (%d) (%d)' % ('; '.join('None' if e is None else '(Some %s)' % zme(e) for _, e in singles), occode(oc), pos))
            term_what.append(('best-of-list', replay))

    # ---------------- H: branch clause: only the requested branch reaches the optimiser; the other branch does not matter
    for it in range(60 if big else 10):
        k = rnd.choice(['Langmuir', 'Toth', 'Henry', 'DSLangmuir', 'Freundlich'])
        pa = np.linspace(0.1, 8, rnd.randint(8, 25))
        pd_ = np.linspace(7.5, 0.3, rnd.randint(4, 15))
        la = exact_curve('Langmuir', {'K': lu(rnd, 0.2, 5), 'n_m': lu(rnd, 1, 8)}, pa)
        ld = exact_curve('Langmuir', {'K': lu(rnd, 5, 20), 'n_m': lu(rnd, 8, 12)}, pd_)
        if it % 5 == 4:
            pd_, ld = np.array([]), np.array([])
        df = pd.DataFrame({'pressure': np.concatenate([pa, pd_]), 'loading': np.concatenate([la, ld])})
        branch = [0] * len(pa) + [1] * len(pd_)
        want = rnd.choice(['ads', 'des'])
        replay = dict(kind='branch', model=k, want=want, pa=pa.tolist(), la=la.tolist(), pd=pd_.tolist(), ld=ld.tolist())
        oc0, piso = call(pygaps.PointIsotherm, isotherm_data=df, pressure_key='pressure', loading_key='loading', branch=branch, **kw_iso('absolute'))
        if oc0 != 'Ok':
            raise RuntimeError('cannot build the two-branch point isotherm: %s' % oc0)
        n0 = len(proxy.calls)
        oc, iso = call(pygaps.ModelIsotherm.from_pointisotherm, piso, branch=want, model=k)
        note('branch-%s/%s' % (want, oc))
        used = None
        if len(proxy.calls) > n0:
            a = proxy.calls[-1]['kw']['args']
            used = (np.array(a[0], dtype=float), np.array(a[1], dtype=float))
        des = want == 'des'
        sel_p, sel_l = (pd_, ld) if des else (pa, la)
        if oc == 'Ok' and used is not None:
            if not (np.array_equal(used[0], sel_p) and np.array_equal(used[1], sel_l)):
                fail('branch', 'fitting branch %r of a two-branch isotherm handed %d points to the optimiser, the branch has %d' % (want, len(used[0]), len(sel_p)), replay, k)
            else:
                nontrivial.add(('branch', k, want, len(sel_p)))
                if proxy.calls[-1]['res'] is not None:
                    check_fit(iso, sel_p, sel_l, proxy.calls[-1], replay, 'branch-' + want)     # error identity etc. on the rows of that branch
            # perturb the OTHER branch: the fit must not change
            df2 = df.copy()
            oth = np.array(branch) == (0 if des else 1)
            df2.loc[oth, 'loading'] = df2.loc[oth, 'loading'] * 1.37 + 0.2
            oc2, piso2 = call(pygaps.PointIsotherm, isotherm_data=df2, pressure_key='pressure', loading_key='loading', branch=branch, **kw_iso('absolute'))
            oc3, iso2 = call(pygaps.ModelIsotherm.from_pointisotherm, piso2, branch=want, model=k)
            if oc3 != 'Ok' or dict(iso2.model.params) != dict(iso.model.params) or iso2.model.rmse != iso.model.rmse:
                fail('branch', 'changing only the %s-branch points changed the fit of the %s branch' % ('ads' if des else 'des', want), replay, k)
        if oc in ('Ok', 'ParameterError') and (used is not None or oc == 'ParameterError'):
            rows = '; '.join('(%s, %s, %s)' % (zme(a), zme(b), 'true' if c else 'false') for a, b, c in zip(df['pressure'], df['loading'], branch))
            us = '[]' if used is None or oc != 'Ok' else '[' + '; '.join('(%s, %s)' % (zme(a), zme(b)) for a, b in zip(*used)) + ']'
            terms.append('cmp_select %s [%s] (%d) %s' % ('true' if des else 'false', rows, occode(oc), us))
            term_what.append(('branch-rows', replay))

    # ---------------- R: branch selection in EVERY fitting entry point on data whose selected branch is NOT monotone in pressure and whose marks are
    #                  given by the user (a 'branch' column, a list of booleans, branch='ads' / 'des' for the whole table): a desorption run whose pressure
    #                  creeps up once, overshoot / relaxation at the end of the adsorption run, a scanning loop, a turning point marked elsewhere than at the
    #                  pressure maximum, alternating blocks. The fitted rows must be EXACTLY the rows of the requested branch: rows handed to the
    #                  optimiser, model.pressure_range / loading_range, the reported error recomputed on the branch rows, the same parameters as a fit of
    #                  exactly those rows handed over as arrays, and no better least-squares solution on the branch rows near the returned one
    rnd_r = random.Random(seed * 6007 + 41)
    shapes = ['des-creep', 'ads-overshoot', 'scan-loop', 'turning-point-marked-late', 'alternating-blocks', 'all-one-branch-overshoot']
    r_models = ['Langmuir', 'Henry', 'Freundlich', 'Quadratic', 'DSLangmuir', 'Toth', 'TemkinApprox']
    for it in range(60 if big else 14):
        shape = shapes[it % len(shapes)]
        k = r_models[it % len(r_models)] if it < len(r_models) else rnd_r.choice(r_models)
        P, L, marks, marks_are_max_rule = nonmonotone_branches(rnd_r, shape)
        for want in ('ads', 'des'):
            wm = 0 if want == 'ads' else 1
            sel = [j for j, m_ in enumerate(marks) if m_ == wm]
            if len(sel) < 6:
                continue
            sel_p, sel_l = P[sel], L[sel]
            mono = bool(np.all(np.diff(sel_p) > 0) or np.all(np.diff(sel_p) < 0))
            oc_ref, ref = call(pygaps.ModelIsotherm, pressure=sel_p, loading=sel_l, model=k, branch=want, **kw_iso('absolute'))
            entries = branch_entries(marks, wm, marks_are_max_rule)
            for entry in entries + frame_entries(entries, it + wm):
                replay = dict(kind='branch-nonmonotone', model=k, want=want, shape=shape, entry=entry, p=P.tolist(), l=L.tolist(), marks=list(marks))
                n0 = len(proxy.calls)
                oc, iso = fit_branch_entry(entry, k, P, L, marks, want)
                note('branch-nonmonotone/%s/%s/%s%s' % (shape, entry, oc, '' if not mono else '/monotone'))
                recs = [c for c in proxy.calls[n0:]]
                label = 'branch-nonmonotone-' + entry
                marked = 'rows marked by the branch guess' if ('nomarks' in entry or entry.endswith('/guessed')) else 'marks given by the user'
                if oc == 'ParameterError':
                    fail('branch-nonmonotone', '%s refused the %s branch (%d rows, %s, pressure not monotone: %s) with ParameterError' % (
                        entry, want, len(sel), marked, shape), replay, k)
                    continue
                if oc != 'Ok' or not recs:
                    continue          # CalculationError: a reported non-convergence returns nothing to judge
                # (1) the rows every least_squares call of this entry received
                bad_rows = [c for c in recs if not (len(c['kw']['args']) == 2 and np.array_equal(np.asarray(c['kw']['args'][0], dtype=float), sel_p)
                                                    and np.array_equal(np.asarray(c['kw']['args'][1], dtype=float), sel_l))]
                if bad_rows:
                    used_p = np.asarray(bad_rows[0]['kw']['args'][0], dtype=float)
                    fail('branch-nonmonotone', '%s on the %s branch (%s; %s, pressure not monotone): the optimiser received %d rows (pressures %r), the branch has the %d rows %r' % (
                        entry, want, shape, marked, len(used_p), used_p.tolist(), len(sel_p), sel_p.tolist()), replay, k)
                    continue
                m = iso.model
                # (2) the ranges stored with the model are those of the branch rows
                rp, rl = tuple(float(v) for v in m.pressure_range), tuple(float(v) for v in m.loading_range)
                if rp != (float(min(sel_p)), float(max(sel_p))) or rl != (float(min(sel_l)), float(max(sel_l))):
                    fail('branch-nonmonotone', '%s on the %s branch (%s): model.pressure_range %r / loading_range %r, the branch rows span %r / %r' % (
                        entry, want, shape, rp, rl, (float(min(sel_p)), float(max(sel_p))), (float(min(sel_l)), float(max(sel_l)))), replay, k)
                    continue
                # (3) clauses of any successful fit, on the rows of the branch (error identity recomputed through the model's own methods; Coq rmse term)
                rec = [c for c in recs if c['res'] is not None and np.array_equal(np.array(c['res'].x, dtype=float), np.array([m.params[n] for n in m.params], dtype=float))]
                if rec:
                    check_fit(iso, sel_p, sel_l, rec[-1], replay, label)
                # (4) the same curve as a fit of exactly these rows handed over as arrays
                if oc_ref == 'Ok' and ref.model.name == m.name:
                    same = all(abs(float(m.params[n]) - float(ref.model.params[n])) <= 1e-9 * max(abs(float(ref.model.params[n])), 1e-300) for n in m.params)
                    if not (same and abs(float(m.rmse) - float(ref.model.rmse)) <= 1e-9 * max(abs(float(ref.model.rmse)), 1e-300)):
                        fail('branch-nonmonotone', '%s on the %s branch (%s) gives %r rmse %r; the rows of that branch handed over as arrays give %r rmse %r' % (
                            entry, want, shape, {n: float(v) for n, v in m.params.items()}, float(m.rmse), {n: float(v) for n, v in ref.model.params.items()},
                            float(ref.model.rmse)), replay, k)
                        continue
                # (5) independent least squares on the branch rows, started at the returned parameters: the sum of squares on the BRANCH must not drop
                gain = ls_gain_on_rows(m, sel_p, sel_l)
                if gain is not None:
                    stats['worst_branch_ls_gain'] = max(stats.get('worst_branch_ls_gain', 0.0), gain)
                    if gain > 1e-4:
                        fail('branch-nonmonotone', '%s on the %s branch (%s): the returned %s parameters %r are not a least-squares solution on the rows of the branch - re-optimising '
                             'on those %d rows lowers the sum of squares by a factor %.3g' % (entry, want, shape, m.name, {n: float(v) for n, v in m.params.items()}, len(sel_p), gain), replay, k)
                        continue
                nontrivial.add(('branch-nonmonotone', shape, entry, want, m.name, mono))
                # Coq: the model's `select` on the marked rows vs the rows the optimiser received
                if 'nomarks' in entry or entry.endswith('/guessed'):
                    # the table went in WITHOUT marks: the model's branch guess (Fit/FitBranch.v guess_marks, QNum) decides the rows
                    a = recs[-1]['kw']['args']
                    terms.append('cmp_guess_select %s [%s] (%d) [%s]' % ('true' if wm else 'false', '; '.join('(%s, %s)' % (zme(u), zme(v)) for u, v in zip(P, L)), occode(oc),
                                                                     '; '.join('(%s, %s)' % (zme(u), zme(v)) for u, v in zip(a[0], a[1]))))
                    term_what.append(('branch-rows-guessed-marks', replay))
                elif entry.split('/')[0] not in ('arrays', 'from_isotherm-arrays', 'guess-arrays') and rnd_r.random() < 0.4:
                    a = recs[-1]['kw']['args']
                    rows = '; '.join('(%s, %s, %s)' % (zme(u), zme(v), 'true' if c_ else 'false') for u, v, c_ in zip(P, L, marks))
                    us = '[' + '; '.join('(%s, %s)' % (zme(u), zme(v)) for u, v in zip(a[0], a[1])) + ']'
                    terms.append('cmp_select %s [%s] (%d) %s' % ('true' if wm else 'false', rows, occode(oc), us))
                    term_what.append(('branch-rows-nonmonotone', replay))

    # ---------------- G: initial_guess_bounds (clamp)
    for it in range(300 if big else 40):
        k = rnd.choice(ALL_MODELS)
        m0 = get_isotherm_model(k)
        if it % 3 == 0:
            m0.param_bounds = {n: tuple(sorted((rnd.uniform(-5, 5), rnd.uniform(-5, 5)))) for n in m0.param_names}
        guess = {n: rnd.choice([rnd.uniform(-10, 10), lu(rnd, 1e-3, 1e3), 0.0, m0.param_bounds[n][0], m0.param_bounds[n][1] if math.isfinite(m0.param_bounds[n][1]) else 1.0])
                 for n in m0.param_names}
        g0 = dict(guess)
        oc, out = call(m0.initial_guess_bounds, guess)
        note('clamp/%s' % oc)
        if oc != 'Ok':
            continue
        bs = [m0.param_bounds[n] for n in m0.param_names]
        if any(not (b[0] <= out[n] <= b[1]) for n, b in zip(m0.param_names, bs)):
            fail('clamp', 'initial_guess_bounds(%r) with bounds %r returned %r' % (g0, bs, out), dict(kind='clamp', model=k, guess=g0, bounds=[list(b) for b in bs]), k)
        terms.append('cmp_clamp [%s] %s %s' % ('; '.join('(%s, %s)' % (zme(b[0]), zme(b[1])) for b in bs), zlist([g0[n] for n in m0.param_names]),
                                               zlist([out[n] for n in m0.param_names])))
        term_what.append(('clamp', dict(kind='clamp', model=k, guess=g0)))

    # ---------------- E: unit covariance of the fitted curve
    conv = [('pressure', dict(pressure_unit='kPa')), ('pressure', dict(pressure_unit='torr')), ('pressure', dict(pressure_mode='relative')),
            ('loading', dict(loading_unit='mol')), ('loading', dict(loading_basis='volume_gas', loading_unit='cm3')),
            ('loading', dict(loading_basis='mass', loading_unit='mg')), ('material', dict(material_unit='kg')), ('temperature', 'C')]
    for k in WELL_POSED:
        for it in range(6 if big else 1):
            params = rparams(rnd, k)
            p, mode = grid(rnd, k)
            l = exact_curve(k, params, p)
            mi = WELL_POSED.index(k)
            for what, cv in (conv if big else [conv[(2 * mi) % 7], conv[(2 * mi + 1) % 7], conv[-1]]):
                if k in ('DR', 'DA') and what == 'pressure':
                    continue          # ln(p/p0) potential models: the family is not closed under a change of pressure scale (mathematics, not code)
                if mode == 'relative' and what == 'pressure':
                    cv = dict(pressure_mode='absolute', pressure_unit='kPa')
                replay = dict(kind='units', model=k, params=params, p=p.tolist(), mode=mode, what=what, conversion=cv if isinstance(cv, dict) else {'temperature_unit': cv})
                piso = pygaps.PointIsotherm(pressure=list(p), loading=list(l), **kw_iso(mode))
                oc1, m1 = call(pygaps.ModelIsotherm.from_pointisotherm, piso, model=k)
                piso2 = pygaps.PointIsotherm(pressure=list(p), loading=list(l), **kw_iso(mode))
                if what == 'temperature':
                    ocv, _ = call(piso2.convert_temperature, '°C')
                else:
                    ocv, _ = call(piso2.convert, **cv)
                if ocv != 'Ok' or oc1 != 'Ok':
                    note('units-%s/%s/setup-%s' % (what, k, ocv if ocv != 'Ok' else oc1))
                    continue
                oc2, m2 = call(pygaps.ModelIsotherm.from_pointisotherm, piso2, model=k)
                note('units-%s/%s/%s' % (what, k, oc2))
                replay['max_loading_in_new_units'] = float(np.max(np.abs(np.array(piso2.loading(), dtype=float))))
                back = dict(pressure_mode=mode, pressure_unit='bar' if mode == 'absolute' else None, loading_basis='molar', loading_unit='mmol',
                            material_basis='mass', material_unit='g')
                if oc2 == 'CalculationError':
                    continue          # the optimiser did not converge from the default guess in these units: no fitted curve to compare (not judged)
                good = oc2 == 'Ok'
                d2 = None
                if good:
                    ocl, l2 = call(m2.loading_at, list(p), **back)
                    good = ocl == 'Ok'
                    if good:
                        d2 = float(np.max(np.abs(np.array(l2, dtype=float) - l))) / float(max(l) - min(l))
                        good = d2 < 1e-4
                if not good:
                    fail('units-' + what, 'the same %s data expressed with %r fit to another curve (%s, max deviation/range %r; in the original units rmse %.2g)' % (
                        k, replay['conversion'], oc2, d2, m1.model.rmse), replay, k)
                else:
                    nontrivial.add(('units', k, what, str(cv)))

    # ---- correspondence: the model executed inside Coq beside the implementation
    n_dis = 0
    try:
        res = vlib.run_coq_cases('c12m', HEADER, 'fun x : Z*Z => x', terms, per_file=80)
        for (what, replay), r in zip(term_what, res):
            if r[1] != 1:
                n_dis += 1
                if n_dis <= 5:
                    rep.broken_obligation('correspondence:FitLogic-vs-implementation:' + what, {'case': replay, 'model_outcome': r[0]})
    except RuntimeError as e:
        rep.broken_obligation('correspondence:FitLogic-evaluation', str(e)[-800:])
    rep.cov['evaluations'] = rep.cov.get('evaluations', 0) + sum(hist.values())
    rep.cov['distinct_nontrivial'] = len(nontrivial)
    rep.cov['rule'] = ('non-trivial = distinct (model, number of points, kind) of successful fits whose error identity was recomputed through the model\'s own '
                       'methods and agreed; distinct exact-data recoveries, re-fits of generated point isotherms, best-of-list comparisons with all single fits, '
                       'branch selections with the other branch perturbed, unit conversions with the fitted curve compared in the original units')
    rep.cov['input_distribution'] = dict(sorted(hist.items()))
    rep.cov['generators'] = ('well-posed models x random in-bounds parameters (log-uniform) x grids of 8-60 points (geometric or linear; relative pressure for '
                             'BET/DR/DA), rows handed over increasing / from high to low pressure / shuffled; noisy data (2% multiplicative noise, running maximum) in '
                             'the same three orders for all 16 models, half with user bounds excluding the default guess / user guesses; for every model with >= 2 '
                             'parameters: user bounds for all names with binding caps / floors, written in a random key order (never param_names order), every 6th a '
                             'strict subset, a third with user guesses in another key order; every model x optional arguments (optimization_params: robust loss '
                             'soft_l1 / huber / cauchy / arctan with / without f_scale, ftol / xtol / gtol / max_nfev / method / x_scale / tr_solver / jac; user guess; '
                             'user bounds; verbose) on data with 3-25% noise and 0-3 outliers made increasing by sorting or a running maximum, through ModelIsotherm(arrays), '
                             'ModelIsotherm(DataFrame), from_pointisotherm and model_iso; a third of the candidate lists fitted with optimization_params; candidate lists of 2-5 models incl. repeated names and "guess" on arrays '
                             'in three orders and on the ads / des branch of a two-branch DataFrame (explicit or guessed branch column); two-branch isotherms; 8 unit changes; '
                             'tables whose branches are NOT monotone in pressure with marks given by the user (desorption run creeping up once, overshoot / relaxation at the end of '
                             'the adsorption run, scanning loop, turning point marked after the pressure maximum, two cycles in alternating blocks, whole table one branch) x '
                             'both branches x every fitting entry point (constructor with arrays / DataFrame with and without branch column, from_isotherm, guess, '
                             'from_pointisotherm and model_iso on point isotherms whose marks come from a branch column / a list of booleans / branch=\'ads\'|\'des\' / the guess, '
                             'single model and model list); every entry point that takes a DataFrame once more with non-default row labels (offset, gaps, permuted '
                             'integers, strings, labels restarting as after concat, negative, float): all 7 kinds where the rows have to be marked by the branch guess, one kind in turn elsewhere')
    rep.cov['correspondence'] = {'terms_compared_in_coq': len(terms), 'disagreements': n_dis,
                                 'what': 'FitLogic (QNum) vs implementation: clamp (exact), rmse^2 with the range computed by the model from the rows handed over (1e-9, sign), '
                                         'bound / start vectors by name from the dictionaries in the user key order (exact), rows handed to the optimiser (exact), best-of-list position'}
    rep.cov['validation'] = {'fits_checked': stats['n'], 'worst_rmse_on_exact_data': stats['worst_exact_rmse'], 'worst_deviation_over_range_on_exact_data': stats['worst_exact_dev'],
                             'worst_least_squares_contract_deviation': stats['worst_contract'], 'worst_rmse_identity_rel_deviation': stats['worst_rmse_identity'],
                             'thresholds': {'exact rmse': 1e-6, 'exact deviation/range': 1e-5, 'rmse identity': 1e-6, 'unit covariance deviation/range': 1e-4}}
    rep.cov['samples'] += [{'fit': k, 'count': v} for k, v in list(sorted(hist.items()))[:3]]
    rep.cov['validation']['fits_with_a_robust_loss_checked'] = stats.get('robust_loss_fits', 0)
    rep.cov['validation']['worst_relative_drop_of_the_sum_of_squares_when_re_optimising_on_the_branch_rows'] = stats.get('worst_branch_ls_gain', 0.0)
    rep.cov['validation']['thresholds']['re-optimisation on the branch rows (relative drop of the sum of squares)'] = 1e-4
    rep.cov['trusted_base'] += ['hand-written model Fit/FitLogic.v (validated by the correspondence above)',
                                'translator tools/py2v_fitglue.py (rmse line, residual and range of IsothermBaseModel.fit / Virial.fit -> Gen/FitGlueGen.v; the rest of fit is '
                                'compared with the statements the translator was written against)',
                                'oracle: scipy.optimize.least_squares - fun = residual(x), x within bounds (validated on every captured call); global convergence NOT assumed by any theorem',
                                'oracle: model loading()/pressure() formulas (C10)', 'carrier: theorems over RNum, execution over QNum']
    rep.assumptions += ['dictionaries with a missing parameter name raise KeyError (model and code agree); no fit is returned, so nothing is judged',
                        'a CalculationError on exact data handed over in decreasing / shuffled order is a reported non-convergence, not judged (in increasing order it is)',
                        'optimiser convergence / local minima are not modelled: recovery of the generator, re-fit and unit covariance of the fitted curve are validated on sampled inputs only',
                        'unit covariance is proved as a statement about minimisers (12 generated families for the loading unit, 9 for the pressure unit); '
                        'Jensen-Seaton, Virial, FHVST, WVST, the temperature unit and what least_squares actually finds are validated only',
                        'Virial uses its own linearised error definition (no range normalisation); its add_point option is not generated',
                        'IEEE rounding excluded (tolerances listed under validation.thresholds)']


def exact_like_guess(m0, p, l):
    with warnings.catch_warnings():
        warnings.simplefilter('ignore')
        try:
            m0.pressure_range = (min(p), max(p)); m0.loading_range = (min(l), max(l))
            m0.__init_parameters__({'temperature': T_K})
            return {k: float(v) for k, v in m0.initial_guess(np.asarray(p), np.asarray(l)).items()}
        except Exception:  # noqa
            return None


def classify(kind, replay, model=None):
    if kind == 'units-temperature' and model in ('DR', 'DA'):
        return 'C12:dr-da-temperature-unit'
    if kind == 'exact-not-recovered' and model == 'TemkinApprox' and replay.get('order', 'inc') != 'inc':
        # rows not in increasing order: the default start is taken from the FIRST row (K ~ n_0 / p_0 / (1.1 max n - n_0)); from the highest point
        # least_squares ends in a local minimum of the three-parameter Temkin approximation
        return 'C12:temkin-start-from-first-row-order-dependent'
    if kind in ('units-loading', 'units-material') and model == 'JensenSeaton' and replay.get('max_loading_in_new_units', 1.0) > 50:
        # Jensen-Seaton starts from a = 1 (a capacity, in loading units) whatever the data: with loadings in the hundreds / thousands
        # (per kg instead of per g) least_squares ends in another local minimum
        return 'C12:jensenseaton-start-capacity-fixed-number'
    if kind in ('units-loading', 'units-material') and replay.get('max_loading_in_new_units', 1.0) < 0.05:
        # loadings expressed in a unit that makes them numerically small (mmol -> mol): least_squares stops on its ABSOLUTE gradient tolerance
        return 'C12:small-loading-magnitude-early-termination'
    return 'C12:unclassified:%s:%s' % (kind, model or replay.get('kind'))


def replay(d):
    import logging
    logging.disable(logging.CRITICAL)
    import pygaps
    r = d['replay']
    print('recorded:', d.get('what'))
    k = r.get('kind')
    if k in ('exact', 'units'):
        p = np.array(r['p']); l = exact_curve(r['model'], r['params'], p)
        piso = pygaps.PointIsotherm(pressure=list(p), loading=list(l), **kw_iso(r['mode']))
        if k == 'units':
            cv = r['conversion']
            if 'temperature_unit' in cv:
                piso.convert_temperature('°C')
            else:
                piso.convert(**cv)
        oc, m = call(pygaps.ModelIsotherm.from_pointisotherm, piso, model=r['model'])
        print('generating parameters', r['params'])
        print('fit ->', oc, None if oc != 'Ok' else ({a: float(b) for a, b in m.model.params.items()}, 'rmse', m.model.rmse))
    elif k == 'options':
        p, l = np.array(r['p']), np.array(r['l'])
        extra = {a: r[a] for a in ('param_bounds', 'param_guess') if r.get(a)}
        if 'param_bounds' in extra:
            extra['param_bounds'] = {n: tuple(b) for n, b in extra['param_bounds'].items()}
        print('entry point %s, model %s, optimization_params=%r, verbose=%r, %r; data: %s' % (r['entry'], r['model'], r['optimization_params'], r['verbose'], extra, r.get('data')))
        oc, m = fit_with_options(r['entry'], r['model'], p, l, r['mode'], r['optimization_params'], r['verbose'], extra)
        print('fit ->', oc, None if oc != 'Ok' else (m.model.name, {a: float(b) for a, b in m.model.params.items()}, 'reported rmse', float(m.model.rmse),
                                                     'actual rms deviation / (max - min)', actual_rmse(m.model, p, l)[0]))
    elif k == 'branch-nonmonotone':
        P, L, marks, want = np.array(r['p']), np.array(r['l']), r['marks'], r['want']
        sel = [j for j, m_ in enumerate(marks) if m_ == (0 if want == 'ads' else 1)]
        print('table: pressure', P.tolist()); print('marks (0 ads / 1 des):', marks)
        print('requested branch %r: %d rows, pressures %r' % (want, len(sel), P[sel].tolist()))
        oc, m = fit_branch_entry(r['entry'], r['model'], P, L, marks, want)
        print('entry', r['entry'], '->', oc, None if oc != 'Ok' else (m.model.name, {a: float(b) for a, b in m.model.params.items()}, 'pressure_range', tuple(m.model.pressure_range),
              'loading_range', tuple(m.model.loading_range), 'reported rmse', float(m.model.rmse), 'rms deviation / (max - min) on the branch rows', actual_rmse(m.model, P[sel], L[sel])[0]))
        oc2, m2 = call(pygaps.ModelIsotherm, pressure=P[sel], loading=L[sel], model=r['model'], branch=want, **kw_iso('absolute'))
        print('the rows of the branch as arrays ->', oc2, None if oc2 != 'Ok' else ({a: float(b) for a, b in m2.model.params.items()}, 'rmse', float(m2.model.rmse)))
    elif k in ('noisy', 'guess', 'named'):
        p, l = np.array(r['p']), np.array(r['l'])
        okw = lambda: {} if not r.get('optimization_params') else dict(optimization_params=dict(r['optimization_params']))
        if okw():
            print('optimization_params =', r['optimization_params'])
        if k == 'guess' and 'frame' in r:
            df = pd.DataFrame(r['frame'])
            kw = dict(isotherm_data=df, pressure_key='pressure', loading_key='loading', branch=r['branch'])
            oc, m = call(pygaps.ModelIsotherm.guess, models=r['models'], **kw, **kw_iso(r['mode']), **okw())
            for nm in (r['models'] if r['models'] != 'guess' else []):
                o1, i1 = call(pygaps.ModelIsotherm, model=nm, **kw, **kw_iso(r['mode']), **okw())
                print('  single', nm, o1, None if o1 != 'Ok' else ('reported', float(i1.model.rmse), 'actual', actual_rmse(i1.model, p, l)[0]))
        elif k == 'guess':
            oc, m = call(pygaps.ModelIsotherm.guess, pressure=p, loading=l, models=r['models'], **kw_iso(r['mode']), **okw())
            for nm in (r['models'] if r['models'] != 'guess' else []):
                o1, i1 = call(pygaps.ModelIsotherm, pressure=p, loading=l, model=nm, **kw_iso(r['mode']), **okw())
                print('  single', nm, o1, None if o1 != 'Ok' else ('reported', float(i1.model.rmse), 'actual', actual_rmse(i1.model, p, l)[0]))
        else:
            extra = {a: r[a] for a in ('param_bounds', 'param_guess') if r.get(a)}
            if 'param_bounds' in extra:
                extra['param_bounds'] = {n: tuple(b) for n, b in extra['param_bounds'].items()}
                print('bounds as written (key order matters to the defect):', extra['param_bounds'])
            oc, m = call(pygaps.ModelIsotherm, pressure=p, loading=l, model=r['model'], **kw_iso(r['mode']), **extra, **okw())
        print('fit ->', oc, None if oc != 'Ok' else (m.model.name, {a: float(b) for a, b in m.model.params.items()}, 'reported rmse', float(m.model.rmse),
                                                     'actual rms deviation / (max - min)', actual_rmse(m.model, p, l)[0] if 'frame' not in r or True else None))
    else:
        print(r)
    return 1
