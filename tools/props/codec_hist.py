"""Shared by C05 / C06 / C07 (round 4): multi-step HISTORIES around the codecs and the identifier.

  typed_mprops      material property values of every JSON-representable type (int literals, numeric text, bool, None, nested)
  touching_reads    read-only queries that TOUCH material / adsorbate properties: accessors with a material / loading conversion of
                    the returned value, every property and argument-free getter DISCOVERED on the Material and the Adsorbate class
  gen_conversions / apply_conversions   permanent conversions (every target representation) applied BEFORE an export
  namesake          a material / adsorbate registered under the isotherm's name with other property values while a document is imported
  edit_in_place     in-place edits of the mutable content an IMPORTED isotherm holds (list / dict valued metadata and material
                    properties, model ranges and parameters, table cells); importing the same text again must give the original
"""
import copy
import inspect
import random
import warnings

from props import codec_common as cc

# ------------------------------------------------------------------ typed values
TYPED_NUMBERS = [2, 1, 3, 60, '2.0', '1.5', '60.08', ' 2 ', '1e1', True, False, None, 0, 2.0, 0.55, 10 ** 3, [2.0], {'value': 2, 'unit': 'g/cm3'}]


def typed_mprops(rnd, domain='json'):
    """material properties whose values range over every JSON-representable type; 'density' / 'molar_mass' (the two the unit
    conversions read) mostly NOT floats"""
    mp = {}
    if rnd.random() < 0.8:
        mp['density'] = rnd.choice(TYPED_NUMBERS)
    if rnd.random() < 0.6:
        mp['molar_mass'] = rnd.choice(TYPED_NUMBERS)
    for _ in range(rnd.randint(0, 2)):
        mp[rnd.choice(['batch', 'supplier', 'form', 'Größe', 'pore_volume'])] = cc.gen_value(rnd, domain)
    return mp


# ------------------------------------------------------------------ reads that touch the holders
SKIP_HOLDER = ('find', 'print_info')


def holder_getters(obj):
    """(properties, methods callable without a required argument other than a temperature) DISCOVERED on the class of a held object"""
    cls = type(obj)
    props, meths = [], []
    for n in sorted(dir(cls)):
        if n.startswith('_') or n in SKIP_HOLDER:
            continue
        a = getattr(cls, n, None)
        if isinstance(a, property):
            props.append(n)
        elif inspect.isfunction(a):
            try:
                req = [p.name for p in list(inspect.signature(a).parameters.values())[1:]
                       if p.default is inspect.Parameter.empty and p.kind in (p.POSITIONAL_ONLY, p.POSITIONAL_OR_KEYWORD)]
            except (TypeError, ValueError):
                continue
            if req in ([], ['temp'], ['prop']):
                meths.append((n, req))
    return props, meths


MATERIAL_TARGETS = [('volume', 'cm3'), ('volume', 'm3'), ('molar', 'mmol'), ('molar', 'mol'), ('mass', 'kg'), ('mass', 'g')]
LOADING_TARGETS = [('molar', 'mol'), ('mass', 'g'), ('volume_gas', 'cm3(STP)'), ('volume_liquid', 'cm3'), ('fraction', None), ('percent', None)]


def one_touch(iso, rnd):
    """one read-only query that reads a material / adsorbate property -> description (exceptions are not our business)"""
    import pygaps
    point = isinstance(iso, pygaps.PointIsotherm)
    model = isinstance(iso, pygaps.ModelIsotherm)
    kinds = ['material.prop', 'material.meth', 'adsorbate.prop', 'adsorbate.meth']
    if point or model:
        kinds += ['loading', 'loading', 'loading_at', 'pressure_at', 'pressure']
    kind = rnd.choice(kinds)
    what = kind
    with warnings.catch_warnings():
        warnings.simplefilter('ignore')
        try:
            if kind in ('loading', 'loading_at', 'pressure_at'):
                kw = {}
                r = rnd.random()
                if r < 0.7:
                    mb, mu = rnd.choice(MATERIAL_TARGETS)
                    kw.update(material_basis=mb, material_unit=mu)
                if r > 0.5:
                    lb, lu = rnd.choice(LOADING_TARGETS)
                    kw.update(loading_basis=lb)
                    if lu:
                        kw.update(loading_unit=lu)
                if kind == 'loading':
                    if model:
                        kw['points'] = 3
                    what = 'loading(%s)' % kw
                    iso.loading(**kw)
                elif kind == 'loading_at':
                    if model and iso.model.calculates != 'loading':
                        return 'skipped(numerical inversion)'
                    x = float(iso.data_raw[iso.pressure_key].iloc[0]) if point else float(iso.model.pressure_range[0])
                    what = 'loading_at(%r, %s)' % (x, kw)
                    iso.loading_at(x, **kw)
                else:
                    if model and iso.model.calculates != 'pressure':
                        return 'skipped(numerical inversion)'
                    x = float(iso.data_raw[iso.loading_key].iloc[0]) if point else float(iso.model.loading_range[0])
                    what = 'pressure_at(%r, %s)' % (x, kw)
                    iso.pressure_at(x, **kw)
            elif kind == 'pressure':
                kw = rnd.choice([{'pressure_mode': 'relative'}, {'pressure_mode': 'relative%'}, {'pressure_mode': 'absolute', 'pressure_unit': 'Pa'}])
                if model:
                    kw['points'] = 3
                what = 'pressure(%s)' % kw
                iso.pressure(**kw)
            else:
                obj = iso.material if kind.startswith('material') else iso.adsorbate
                props, meths = holder_getters(obj)
                if kind.endswith('prop') and props:
                    n = rnd.choice(props)
                    what = '%s.%s' % (kind.split('.')[0], n)
                    getattr(obj, n)
                elif meths:
                    n, req = rnd.choice(meths)
                    args = ()
                    if req == ['temp']:
                        args = (float(iso.temperature),)
                    elif req == ['prop']:
                        keys = sorted(obj.properties) + ['density', 'molar_mass', 'name']
                        args = (rnd.choice(keys),)
                    what = '%s.%s(%s)' % (kind.split('.')[0], n, ', '.join(map(repr, args)))
                    getattr(obj, n)(*args)
        except Exception as e:  # noqa
            what += ' -> ' + type(e).__name__
    return what


def touching_reads(iso, rnd, n=None):
    return [one_touch(iso, rnd) for _ in range(n if n is not None else rnd.randint(2, 7))]


def snapshot(iso):
    """what the identifier is computed from, deep-copied (typed)"""
    return dict(id=iso.iso_id, to_dict=copy.deepcopy(iso.to_dict()), material=copy.deepcopy(iso.material.to_dict()))


def snapshot_diff(s0, s1):
    """first typed difference between two snapshots -> (where, key, before, after) or None"""
    d = cc.first_diff(s0['to_dict'], s1['to_dict'])
    if d:
        if d[0] == 'material' and isinstance(d[1], dict) and isinstance(d[2], dict):
            dd = cc.first_diff(d[1], d[2])
            if dd:
                return ('material property',) + dd
        return ('to_dict',) + d
    d = cc.first_diff(s0['material'], s1['material'])
    if d:
        return ('material property',) + d
    if s0['id'] != s1['id']:
        return ('identifier', 'iso_id', s0['id'], s1['id'])
    return None


# ------------------------------------------------------------------ permanent conversions before an export
def gen_conversions(rnd, spec):
    """1-3 permanent conversions; targets range over every representation (relative pressure, fraction / percent loading, other
    material bases, degC)"""
    steps = []
    for _ in range(rnd.randint(1, 3)):
        k = rnd.choice(['pressure', 'loading', 'loading', 'material', 'temperature', 'all'] if spec['cls'] == 'point' else ['temperature'])
        if k == 'pressure':
            m, u = rnd.choice(cc.PREPS)
            steps.append(('convert_pressure', dict(mode_to=m, unit_to=u)))
        elif k == 'loading':
            b, u = rnd.choice(cc.LREPS) if rnd.random() < 0.5 else rnd.choice([('fraction', None), ('percent', None)])
            steps.append(('convert_loading', dict(basis_to=b, unit_to=u)))
        elif k == 'material':
            b, u = rnd.choice(cc.MREPS)
            steps.append(('convert_material', dict(basis_to=b, unit_to=u)))
        elif k == 'temperature':
            steps.append(('convert_temperature', dict(unit_to=rnd.choice(['K', '°C']))))
        else:
            kw = {}
            if rnd.random() < 0.6:
                m, u = rnd.choice(cc.PREPS)
                kw.update(pressure_mode=m, pressure_unit=u)
            if rnd.random() < 0.8:
                b, u = rnd.choice(cc.LREPS)
                kw.update(loading_basis=b, loading_unit=u)
            if rnd.random() < 0.5:
                b, u = rnd.choice(cc.MREPS)
                kw.update(material_basis=b, material_unit=u)
            steps.append(('convert', kw))
    return [[n, kw] for n, kw in steps]


def apply_conversions(iso, steps):
    """-> descriptions; a conversion the isotherm refuses (no adsorbate property, no density ...) is skipped"""
    out = []
    with warnings.catch_warnings():
        warnings.simplefilter('ignore')
        for name, kw in steps:
            try:
                getattr(iso, name)(**kw)
                out.append('%s(%s)' % (name, kw))
            except Exception as e:  # noqa
                out.append('%s(%s) -> %s' % (name, kw, type(e).__name__))
    return out


# ------------------------------------------------------------------ registered namesakes
def other_value(v):
    v = cc.py(v)
    if isinstance(v, bool):
        return not v
    if isinstance(v, int):
        return v + 7
    if isinstance(v, float):
        return v * 2 + 1.25 if v == v and abs(v) < 1e300 else 0.75
    if isinstance(v, str):
        return v + '-registered'
    if isinstance(v, list):
        return v + ['registered']
    return 'registered'


class namesake:
    """context: pygaps.MATERIAL_LIST (and, for an adsorbate the registry does not know, ADSORBATE_LIST) holds an object with the
    name of the isotherm's material / adsorbate and the SAME property keys in the same order, at least one with another value"""

    def __init__(self, o, rnd, adsorbate=True):
        self.o, self.rnd, self.adsorbate = o, rnd, adsorbate
        self.added = []

    def __enter__(self):
        import pygaps
        props = copy.deepcopy(self.o['mprops'])
        keys = list(props)
        for k in ([self.rnd.choice(keys)] if keys else []) + [k for k in keys if self.rnd.random() < 0.4]:
            props[k] = other_value(self.o['mprops'][k])
        self.props = props
        if not any(m.name == self.o['material'] for m in pygaps.MATERIAL_LIST):
            m = pygaps.Material(self.o['material'], **copy.deepcopy(props))
            pygaps.MATERIAL_LIST.append(m)
            self.added.append((pygaps.MATERIAL_LIST, m))
        if self.adsorbate:
            try:
                pygaps.Adsorbate.find(self.o['adsorbate'])
            except Exception:  # noqa  unknown name: register a namesake with properties
                a = pygaps.Adsorbate(self.o['adsorbate'], molar_mass=12.5, formula='Zz9')
                pygaps.ADSORBATE_LIST.append(a)
                self.added.append((pygaps.ADSORBATE_LIST, a))
        return self

    def __exit__(self, *exc):
        for lst, x in self.added:
            for k in range(len(lst) - 1, -1, -1):
                if lst[k] is x:
                    del lst[k]
        return False


# ------------------------------------------------------------------ in-place edits of an imported copy
def edit_in_place(iso, rnd):
    """change, IN PLACE, every mutable object the (imported) isotherm holds: list / dict valued metadata and material properties,
    the model's ranges and parameter dict, the metadata dict itself, one table cell -> descriptions of what was edited"""
    import pygaps
    done = []

    def edit(v, where):
        if isinstance(v, list):
            v.append('edited')
            if len(v) > 1 and rnd.random() < 0.5:
                v[0] = 'edited'
            done.append(where + ':list')
        elif isinstance(v, dict):
            v['edited'] = 1
            for k in list(v):
                edit(v[k], where + '.' + str(k))
            done.append(where + ':dict')
    for k, v in list(iso.properties.items()):
        edit(v, 'properties[%r]' % k)
    for k, v in list(iso.material.properties.items()):
        edit(v, 'material.properties[%r]' % k)
    iso.properties['edited_key'] = 'edited'
    done.append('properties:new key')
    if isinstance(iso, pygaps.ModelIsotherm):
        m = iso.model
        for a in ('pressure_range', 'loading_range'):
            r = getattr(m, a)
            if isinstance(r, list) and r:
                r[-1] = 99.0
                done.append('model.%s:list' % a)
        for p in list(m.params):
            m.params[p] = 123.0
        done.append('model.params')
    if isinstance(iso, pygaps.PointIsotherm):
        try:
            df = iso.data_raw
            df.iloc[0, list(df.columns).index(iso.loading_key)] = 4321.0
            done.append('data_raw cell')
        except Exception:  # noqa
            pass
    return done
