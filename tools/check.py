"""./check <ID> [--tier quick|thorough] [--seed N] | --setup | --replay <file>"""
import argparse
import importlib
import json
import logging
import os
import sys
import traceback

import vlib


def main():
    ap = argparse.ArgumentParser()
    ap.add_argument('pid', nargs='?')
    ap.add_argument('--tier', default=os.environ.get('VERIF_TIER', 'quick'), choices=['quick', 'thorough'])
    ap.add_argument('--seed', type=int, default=int(os.environ.get('VERIF_SEED', '20261001')))
    ap.add_argument('--setup', action='store_true')
    ap.add_argument('--replay')
    a = ap.parse_args()
    logging.disable(logging.CRITICAL)
    if a.setup:
        with vlib.RepoLock():
            tr = vlib.regen()
        for k, v in tr.items():
            print('translator', k, 'ok' if v is None else 'FAILED: ' + v)
        # build what the claimed checks need (work-in-progress files of unclaimed properties are not part of the setup)
        man = json.load(open(os.path.join(vlib.VERIF, 'MANIFEST.json')))
        targets = []
        for c in man['checks']:
            pid = c['property_id']
            targets.append('Props/%s.vo' % pid)
            mod = importlib.import_module('props.' + pid.lower())
            targets += list(getattr(mod, 'EXTRA_TARGETS', []))
        b = vlib.coq_build(sorted(set(targets)), timeout=7000)
        print(b['log'][-3000:] if not b['ok'] else 'coq build ok in %.0fs' % b['wall_s'])
        bad = vlib.grep_gate()
        for x in bad:
            print('grep-gate:', x)
        sys.exit(0 if b['ok'] and not bad and all(v is None for v in tr.values()) else 2)
    if a.replay:
        d = json.load(open(a.replay))
        mod = importlib.import_module('props.' + d['property'].lower())
        sys.exit(mod.replay(d))
    pid = a.pid.upper()
    mod = importlib.import_module('props.' + pid.lower())
    rep = vlib.Report(pid, a.tier, a.seed)
    try:
        with vlib.RepoLock():
            mod.run(rep, a.tier, a.seed)
    except Exception:
        traceback.print_exc()
        frames = traceback.extract_tb(sys.exc_info()[2])
        if any('/props/' in f.filename or '/pygaps/' in f.filename for f in frames):
            # the exploration of the implementation aborted (the harness met behaviour of pyGAPS it cannot even process; this never
            # happens on the unchanged tree): the correspondence between model and code is no longer established -> a broken
            # obligation, reported as a violation without a concrete input unless the part already explored found one
            rep.broken_obligation('correspondence:exploration-aborted', traceback.format_exc()[-1500:])
            sys.exit(rep.finish())
        # a crash of the machinery itself (build system, file system) is not evidence about the property: report it loudly, exit 2
        print('ERROR %s: the check machinery failed (no verdict)' % pid)
        sys.exit(2)
    sys.exit(rep.finish())


if __name__ == '__main__':
    main()
